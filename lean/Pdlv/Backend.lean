/-
  Pdlv.Backend — model of what the code generators ASSUME about an analyzed file: the
  `unwrap()` / `todo!()` / `assert!` / shift sites of backends/{rust,python,cxx,java} that an
  accepted description can reach, and the shapes for which the emitted text is rejected by the
  target compiler, as decidable preconditions on the analyzed AST (site list with minimal
  triggers: design-notes/backend_panics.md).

  `pre b f = []`  ⇔  the model predicts that `backends::b::generate` returns code for `f` and that
  the code compiles; otherwise the list names the broken preconditions (`Reason`).  The check of
  property C10 compares this prediction with the real generators on every accepted description of
  every run: a generator or target-compiler failure the model does not predict is a fresh
  violation; a predicted one is attributed to the recorded finding of that (back end, reason).

  A reason whose name starts with `uncompilable:` means "the generator returns, the target
  compiler rejects the output".
-/
import Pdlv.Analyzer
import Pdlv.Inherit

namespace Pdlv
namespace Backend

inductive Target | json | rust | python | cxx | java
deriving DecidableEq, Repr

inductive Reason
  | scalarTooWide          -- a bit-field chunk, scalar, enum, custom field or array element wider than 64 bits
  | sizeWidth64            -- a `_size_` / `_elementsize_` field of exactly 64 bits (`1u64 << 64`)
  | enumDefaultFirst       -- an enum whose first tag is the default tag (`X = ..`), alone or not
  | ambiguousChildren      -- two children that the specialize match cannot tell apart
  | optionalCustom         -- an optional field typed by a custom field
  | misaligned             -- a non-bit-field reached at a bit offset that is not a multiple of 8
  | modifierOverflow       -- a size modifier that does not fit usize
  | multipleUnknownSize    -- C++: an unsized payload / struct followed by a field without static size
  | forwardArrayType       -- an array whose element type is declared later (or is the enclosing type)
  | bodyWithoutChildren    -- Java: `_body_` without a child the generator can dispatch to
  | constraintOnAncestor   -- Java: a constraint on a field that the direct parent does not declare
  | ancestorWithoutPayload -- Java: an ancestor without payload / body
  | enumArrayUnaligned     -- an array of enums whose width is not a multiple of 8
  | zeroWidth              -- a bit-field, enum or array element of width 0
  | shadowedField          -- a declaration re-declares the identifier of an inherited field
  | hugeWidth              -- Python: a width of 2^24 bits or more (mask literals and generator work linear in the width)
  -- the generator returns, the target compiler rejects the output
  | sizeAfterArray         -- a size / count / element-size field declared after the field it measures
  | payloadBeforeDynamic   -- an unsized payload followed by a field that is neither static nor padded
  | elementSizeOfScalars   -- `_elementsize_` for an array of scalars or enums
  | constraintOnOptional   -- a constraint on an optional field
  | payloadlessParent      -- a child of a parent without payload whose inherited data is not `Copy`
  | fixedOnRangeTag        -- `_fixed_ = T : E` where T is a range or the default tag
  | constraintOnDefaultTag -- a constraint naming the default tag of an enum
  | emptyPacket            -- C++: a packet without fields
  | structWithPayload      -- C++: a struct containing a payload / body
  | arrayModifierNoSize    -- C++: `x: T[+n]` without `_size_(x)`
  | enumFirstTagNotValue   -- C++: an enum used by a plain field whose first tag is a range / default
  | sizeOfBody             -- Java: `_size_(_body_)`
  | largeLiteral           -- Java: a literal that does not fit `int` / a size field wider than 32 bits
  | childWithoutMembers    -- Java: a child declaration without any named field or payload of its own
  | hugeCount              -- Rust: a static array count of 2^31 or more (`for _ in 0..N` is typed `i32`)
  | typeParamName          -- Java: a declaration with a payload whose class is named `B`, the builders' type parameter
  | nestedPayloadSize      -- C++: a child and one of its ancestors both declare `_size_(_payload_ / _body_)` (member `payload_size_` twice)
deriving DecidableEq, Repr

def Reason.uncompilable : Reason → Bool
  | .sizeAfterArray | .payloadBeforeDynamic | .elementSizeOfScalars | .constraintOnOptional
  | .payloadlessParent | .fixedOnRangeTag | .constraintOnDefaultTag | .emptyPacket | .structWithPayload
  | .arrayModifierNoSize | .enumFirstTagNotValue | .sizeOfBody | .largeLiteral | .childWithoutMembers | .hugeCount | .nestedPayloadSize | .typeParamName => true
  | _ => false

def Reason.base : Reason → String
  | .scalarTooWide => "scalarTooWide" | .sizeWidth64 => "sizeWidth64" | .enumDefaultFirst => "enumDefaultFirst"
  | .ambiguousChildren => "ambiguousChildren" | .optionalCustom => "optionalCustom" | .misaligned => "misaligned"
  | .modifierOverflow => "modifierOverflow" | .multipleUnknownSize => "multipleUnknownSize"
  | .forwardArrayType => "forwardArrayType" | .bodyWithoutChildren => "bodyWithoutChildren"
  | .constraintOnAncestor => "constraintOnAncestor" | .ancestorWithoutPayload => "ancestorWithoutPayload"
  | .enumArrayUnaligned => "enumArrayUnaligned" | .zeroWidth => "zeroWidth" | .shadowedField => "shadowedField" | .hugeWidth => "hugeWidth"
  | .sizeAfterArray => "sizeAfterArray" | .payloadBeforeDynamic => "payloadBeforeDynamic"
  | .elementSizeOfScalars => "elementSizeOfScalars" | .constraintOnOptional => "constraintOnOptional"
  | .payloadlessParent => "payloadlessParent" | .fixedOnRangeTag => "fixedOnRangeTag"
  | .constraintOnDefaultTag => "constraintOnDefaultTag" | .emptyPacket => "emptyPacket"
  | .structWithPayload => "structWithPayload" | .arrayModifierNoSize => "arrayModifierNoSize"
  | .enumFirstTagNotValue => "enumFirstTagNotValue" | .sizeOfBody => "sizeOfBody" | .largeLiteral => "largeLiteral"
  | .childWithoutMembers => "childWithoutMembers" | .hugeCount => "hugeCount" | .nestedPayloadSize => "nestedPayloadSize" | .typeParamName => "typeParamName"

def Reason.name (r : Reason) : String := if r.uncompilable then "uncompilable:" ++ r.base else r.base

/-! ### helpers on the analyzed file -/

def lookupD (f : File) (id : String) : Option Decl := Analyzer.lookupDecl f id

def enumOf (f : File) (id : String) : Option (List Tag × Nat) :=
  match lookupD f id with
  | some { desc := .enum _ tags w, .. } => some (tags, w)
  | _ => none

def isPacketLike (d : Decl) : Bool :=
  match d.desc with
  | .packet .. | .struct .. => true
  | _ => false

def packets (f : File) : List Decl := f.decls.filter isPacketLike

/-- `Scope::is_bitfield` + width: a field packed into a chunk -/
def bitWidth? (f : File) (fl : Field) : Option Nat :=
  if fl.cond.isSome then none else
  match fl.desc with
  | .scalar _ w | .reserved w | .fixedScalar w _ | .size _ w | .count _ w | .elementSize _ w => some w
  | .flag .. => some 1
  | .fixedEnum en _ => (enumOf f en).map (·.2)
  | .typedef _ tid => (enumOf f tid).map (·.2)
  | _ => none

/-- the chunk walk shared by the back ends: running bit offset, reset at every octet boundary;
    returns the chunk widths and, per field, the offset at which it is reached -/
def walk (f : File) (fs : List Field) : List Nat × List (Field × Nat) :=
  let r := fs.foldl (fun (st : List Nat × List (Field × Nat) × Nat) fl =>
    let (chunks, offs, s) := st
    match bitWidth? f fl with
    | some w => if (s + w) % 8 == 0 then (chunks ++ [s + w], offs ++ [(fl, s)], 0)
                else (chunks, offs ++ [(fl, s)], s + w)
    | none => (chunks, offs ++ [(fl, s)], s)) ([], [], 0)
  (if r.2.2 == 0 then r.1 else r.1 ++ [r.2.2], r.2.1)

def chunkWidths (f : File) (d : Decl) : List Nat := (walk f d.fields).1

def misalignedIn (f : File) (d : Decl) : Bool :=
  (walk f d.fields).2.any fun (fl, off) => (bitWidth? f fl).isNone && off % 8 != 0

/-- also: a sized custom field / checksum typedef or an enum array whose size is not a whole
    number of octets (case M2 of the site list) -/
def oddSized (f : File) (d : Decl) : Bool :=
  d.fields.any fun fl => match fl.desc with
    | .typedef _ tid => (match lookupD f tid with
        | some { desc := .customField _ (some w) _, .. } => w % 8 != 0
        | some { desc := .checksum _ _ w, .. } => w % 8 != 0
        | _ => false)
    | _ => false

def anyField (f : File) (p : Decl → Field → Bool) : Bool :=
  (packets f).any fun d => d.fields.any (p d)

def widthsOver (f : File) (n : Nat) (withCustom withFixed : Bool) : Bool :=
  (packets f).any (fun d => (chunkWidths f d).any (· > n)) ||
  anyField f (fun _ fl => match fl.desc with
    | .scalar _ w => w > n
    | .fixedScalar w _ => withFixed && w > n
    | .array _ (some w) _ _ _ => w > n
    | _ => false) ||
  f.decls.any (fun d => match d.desc with
    | .enum _ _ w => w > n
    | .customField _ (some w) _ => withCustom && w > n
    | _ => false)

def isDefault : Tag → Bool
  | .other .. => true
  | _ => false

def isValueTag : Tag → Bool
  | .value .. => true
  | _ => false

def enumTags (f : File) : List (List Tag) :=
  f.decls.filterMap fun d => match d.desc with
    | .enum _ tags _ => some tags
    | _ => none

def indexOf? {α : Type} (l : List α) (p : α → Bool) : Option Nat :=
  let rec go (i : Nat) : List α → Option Nat
    | [] => none
    | x :: xs => if p x then some i else go (i + 1) xs
  go 0 l

def targetIndex (fs : List Field) (t : String) : Option Nat :=
  indexOf? fs (fun g => match g.desc with
    | .payload _ => t == "_payload_"
    | .body => t == "_body_"
    | _ => g.id? == some t)

def sizeAfterTarget (kinds : FieldDesc → Option String) (d : Decl) : Bool :=
  let fs := d.fields
  (List.range fs.length).any fun i =>
    match fs[i]? with
    | some fl => (match kinds fl.desc with
        | some t => (match targetIndex fs t with
            | some j => j < i
            | none => false)
        | none => false)
    | none => false

def sizeLikeTarget : FieldDesc → Option String
  | .size t _ | .count t _ | .elementSize t _ => some t
  | _ => none

def isPayload (fl : Field) : Bool :=
  match fl.desc with
  | .payload _ | .body => true
  | _ => false

def hasPayload (d : Decl) : Bool := d.fields.any isPayload

def hasSizeFor (d : Decl) (t : String) : Bool :=
  d.fields.any fun g => match g.desc with
    | .size x _ => x == t
    | _ => false

def payloadName (fl : Field) : String :=
  match fl.desc with
  | .body => "_body_"
  | _ => "_payload_"

/-- per field: is its size static (from the model of `Schema::new`) -/
def staticFlags (sc : List DeclSchema) (d : Decl) : List (Field × Bool × Bool) :=
  match sc.find? (·.id == d.id?) with
  | some ds => (d.fields.zip ds.fields).map fun (fl, fs) =>
      (fl, (match fs.fieldSize with | .static _ => true | _ => false), fs.padded.isSome)
  | none => d.fields.map fun fl => (fl, false, false)

def unknownSized (sc : List DeclSchema) (d : Decl) : List Bool :=
  match sc.find? (·.id == d.id?) with
  | some ds => ds.fields.map fun fs => (match fs.fieldSize with | .unknown => true | _ => false)
  | none => d.fields.map fun _ => false

/-- fields after an unsized payload (no `_size_` for it) that are neither static (nor, with
    `paddingHelps`, padded) -/
def payloadThenDynamic (sc : List DeclSchema) (paddingHelps : Bool) (d : Decl) : Bool :=
  let fl := staticFlags sc d
  match indexOf? fl (fun x => isPayload x.1) with
  | none => false
  | some i =>
    (match fl[i]? with
     | some (p, _, _) => !hasSizeFor d (payloadName p)
     | none => false) &&
    (fl.drop (i + 1)).any fun (_, st, padded) => !st && !(paddingHelps && padded)

/-- C++ `get_trailing_size`: also after a typedef of unknown size -/
def unknownThenDynamic (sc : List DeclSchema) (d : Decl) : Bool :=
  let fl := staticFlags sc d
  let unk := unknownSized sc d
  (List.range fl.length).any fun i =>
    match fl[i]?, unk[i]? with
    | some (g, _, _), some u =>
      let starts := (isPayload g && !hasSizeFor d (payloadName g)) ||
        (u && g.cond.isNone && (match g.desc with | .typedef .. => true | _ => false))
      starts && (fl.drop (i + 1)).any fun (_, st, _) => !st
    | _, _ => false

def ancestors (f : File) (d : Decl) : List Decl := Analyzer.parents f (f.decls.length + 1) d

def inheritedFields (f : File) (d : Decl) : List Field := (ancestors f d).flatMap (·.fields)

def shadows (f : File) (d : Decl) : Bool :=
  let inh := (inheritedFields f d).filterMap (·.id?)
  d.fields.any fun fl => match fl.id? with
    | some id => inh.contains id
    | none => false

def constraintTargets (f : File) (d : Decl) : List (Constraint × Option Field) :=
  d.constraints.map fun c => (c, (inheritedFields f d).find? (fun fl => fl.id? == some c.id))

def tagOf (f : File) (en tag : String) : Option Tag :=
  (enumOf f en).bind fun (tags, _) => tags.find? (·.id == tag)

def fixedOnNonValue (f : File) : Bool :=
  anyField f fun _ fl => match fl.desc with
    | .fixedEnum en t => (match tagOf f en t with
        | some (.value _) => false
        | some _ => true
        | none => false)
    | _ => false

def constraintOnDefault (f : File) : Bool :=
  (packets f).any fun d => (constraintTargets f d).any fun (c, tgt) =>
    match c.tagId, tgt with
    | some t, some { desc := .typedef _ tid, .. } => (match tagOf f tid t with
        | some (.other ..) => true
        | _ => false)
    | _, _ => false

def constraintOnOpt (f : File) : Bool :=
  (packets f).any fun d => (constraintTargets f d).any fun (_, tgt) =>
    match tgt with
    | some fl => fl.cond.isSome
    | none => false

def declIndex (f : File) (id : String) : Option Nat := indexOf? f.decls (fun d => d.id? == some id)

def forwardArray (f : File) (strict : Bool) : Bool :=
  (List.range f.decls.length).any fun i =>
    match f.decls[i]? with
    | some d => d.fields.any fun fl => match fl.desc with
        | .array _ _ (some t) _ _ => (match declIndex f t with
            | some j => if strict then j > i else j ≥ i
            | none => false)
        | _ => false
    | none => false

def zeroWidths (f : File) (bitsOnly : Bool) : Bool :=
  anyField f (fun _ fl => match fl.desc with
    | .scalar _ w | .reserved w | .fixedScalar w _ | .size _ w | .count _ w | .elementSize _ w => w == 0
    | .array _ (some w) _ _ _ => !bitsOnly && w == 0
    | .typedef _ tid | .fixedEnum tid _ => (match enumOf f tid with | some (_, w) => w == 0 | none => false)
    | _ => false)

/-- value of a size modifier `"+N"` -/
def modifierValue (m : String) : Nat := ((String.ofList (m.toList.filter Char.isDigit)).toNat?).getD 0

def modifierTooBig (f : File) (arrays : Bool) : Bool :=
  anyField f fun d fl => match fl.desc with
    | .payload (some m) => hasSizeFor d "_payload_" && modifierValue m ≥ 2 ^ 64
    | .array id _ _ (some m) _ => arrays && (hasSizeFor d id) && modifierValue m ≥ 2 ^ 64
    | _ => false

def enumArrayOdd (f : File) : Bool :=
  anyField f fun _ fl => match fl.desc with
    | .array _ _ (some t) _ _ => (match lookupD f t with
        | some { desc := .enum _ _ w, .. } => w % 8 != 0
        | some { desc := .customField _ (some w) _, .. } => w % 8 != 0
        | _ => false)
    | _ => false

def ambiguous (f : File) : Bool :=
  match Schema.build f with
  | none => false
  | some sc => (packets f).any fun d => !(f.children d).isEmpty && (Inherit.table f sc d).isNone

def dataNotCopy (f : File) (d : Decl) : Bool :=
  let ids := Inherit.dataFieldIds f d
  (Resolve.allFields f 16 d).any fun fl => match fl.id? with
    | some id => ids.contains id && (match fl.desc with
        | .array .. => true
        | .typedef _ tid => (match lookupD f tid with
            | some { desc := .struct .., .. } => true
            | _ => false)
        | _ => false)
    | none => false

def payloadlessParentBad (f : File) : Bool :=
  (packets f).any fun d => match d.parent?.bind (lookupD f) with
    | some p => !hasPayload p && dataNotCopy f d
    | none => false

/-! ### Java-specific -/

def allStatic (sc : List DeclSchema) (d : Decl) : Bool := (staticFlags sc d).all fun (_, st, _) => st

def bodyNoChild (f : File) (sc : List DeclSchema) : Bool :=
  (packets f).any fun d =>
    d.fields.any (fun fl => match fl.desc with | .body => true | _ => false) &&
    !((f.children d).any fun c => !c.constraints.isEmpty || allStatic sc c)

def constraintBeyondParent (f : File) : Bool :=
  (packets f).any fun d => match d.parent?.bind (lookupD f) with
    | some p => hasPayload p && d.constraints.any fun c => !(p.fields.any fun fl => fl.id? == some c.id)
    | none => false

def ancestorNoPayload (f : File) : Bool :=
  (packets f).any fun d => (ancestors f d).any fun a => !hasPayload a

def litTooBig (f : File) : Bool :=
  let big := 2 ^ 31
  f.decls.any (fun d => match d.desc with
    | .enum _ tags w => tags.any fun t => match t with
        | .value tv => tv.value ≥ big
        | .range _ lo hi sub _ => sub.any (·.value ≥ big) ||
            (if w ≤ 32 then lo ≥ big || hi ≥ big else lo ≥ 2 ^ 63 || hi ≥ 2 ^ 63)
        | .other .. => false
    | _ => false) ||
  anyField f (fun _ fl => match fl.desc with
    | .fixedScalar _ v => v ≥ big
    | .size _ w | .count _ w => w > 32
    | .array _ _ _ _ (some n) => n ≥ big
    | _ => false) ||
  (packets f).any (fun d => d.constraints.any fun c => match c.value with
    | some v => v ≥ big
    | none => false)

/-! ### the preconditions -/

def when (c : Bool) (r : Reason) : List Reason := if c then [r] else []

def pre (t : Target) (f : File) : List Reason :=
  let sc := (Schema.build f).getD []
  let mis := (packets f).any fun d => misalignedIn f d || oddSized f d
  match t with
  | .json => []
  | .rust =>
    when (widthsOver f 64 true false) .scalarTooWide ++
    when (anyField f fun _ fl => match fl.desc with | .size _ w | .elementSize _ w => w == 64 | _ => false) .sizeWidth64 ++
    when ((enumTags f).any fun tags => match tags with | t :: _ => isDefault t | [] => false) .enumDefaultFirst ++
    when (ambiguous f) .ambiguousChildren ++
    when (anyField f fun _ fl => fl.cond.isSome && (match fl.desc with
        | .typedef _ tid => (match lookupD f tid with
            | some { desc := .customField .., .. } | some { desc := .checksum .., .. } => true
            | _ => false)
        | _ => false)) .optionalCustom ++
    when (mis || enumArrayOdd f) .misaligned ++
    when (modifierTooBig f false) .modifierOverflow ++
    when (shadows' f) .shadowedField ++
    when ((packets f).any (sizeAfterTarget sizeLikeTarget)) .sizeAfterArray ++
    when ((packets f).any (payloadThenDynamic sc true)) .payloadBeforeDynamic ++
    when (anyField f fun d fl => match fl.desc with
        | .elementSize t _ => d.fields.any fun g => match g.desc with
            | .array id (some _) _ _ _ => id == t
            | .array id none (some ty) _ _ => id == t && (enumOf f ty).isSome
            | _ => false
        | _ => false) .elementSizeOfScalars ++
    when (constraintOnOpt f) .constraintOnOptional ++
    when (payloadlessParentBad f) .payloadlessParent ++
    when (fixedOnNonValue f) .fixedOnRangeTag ++
    when (constraintOnDefault f) .constraintOnDefaultTag ++
    when (anyField f fun _ fl => match fl.desc with | .array _ _ _ _ (some n) => n ≥ 2 ^ 31 | _ => false) .hugeCount
  | .python =>
    when mis .misaligned ++
    when (forwardArray f false) .forwardArrayType ++
    when (zeroWidths f true) .zeroWidth ++
    when (shadows' f) .shadowedField ++
    when (widthsOver f (2 ^ 24 - 1) true true) .hugeWidth
  | .cxx =>
    when (widthsOver f 64 false true) .scalarTooWide ++
    when ((packets f).any (unknownThenDynamic sc)) .multipleUnknownSize ++
    when mis .misaligned ++
    when (shadows' f) .shadowedField ++
    when (f.decls.any fun d => match d.desc with | .packet _ _ [] _ => true | _ => false) .emptyPacket ++
    when (f.decls.any fun d => match d.desc with | .struct .. => hasPayload d | _ => false) .structWithPayload ++
    when (anyField f fun d fl => match fl.desc with
        | .array id _ _ (some _) _ => !hasSizeFor d id
        | _ => false) .arrayModifierNoSize ++
    when (anyField f fun _ fl => fl.cond.isNone && (match fl.desc with
        | .typedef _ tid => (match enumOf f tid with
            | some (t :: _, _) => !isValueTag t
            | _ => false)
        | _ => false)) .enumFirstTagNotValue ++
    when (fixedOnNonValue f) .fixedOnRangeTag ++
    when (constraintOnDefault f) .constraintOnDefaultTag ++
    when (forwardArray f true) .forwardArrayType ++
    when (constraintOnOpt f) .constraintOnOptional ++
    when (zeroWidths f false) .zeroWidth ++
    when ((packets f).any fun d => hasPayloadSize d.fields && (ancestors f d).any fun a => hasPayloadSize a.fields) .nestedPayloadSize
  | .java =>
    when (widthsOver f 64 false true) .scalarTooWide ++
    when (enumArrayOdd f) .enumArrayUnaligned ++
    when (forwardArray f false) .forwardArrayType ++
    when ((packets f).any (sizeAfterTarget sizeLikeTarget)) .sizeAfterArray ++
    when (bodyNoChild f sc) .bodyWithoutChildren ++
    when (constraintBeyondParent f) .constraintOnAncestor ++
    when (ancestorNoPayload f) .ancestorWithoutPayload ++
    when (modifierTooBig f true) .modifierOverflow ++
    when (zeroWidths f false) .zeroWidth ++
    when (anyField f fun _ fl => match fl.desc with | .size t _ => t == "_body_" | _ => false) .sizeOfBody ++
    when (litTooBig f) .largeLiteral ++
    when ((packets f).any fun d => d.parent?.isSome && !(d.fields.any fun fl => fl.id?.isSome || isPayload fl)) .childWithoutMembers ++
    when (fixedOnNonValue f) .fixedOnRangeTag ++
    when (constraintOnDefault f) .constraintOnDefaultTag ++
    when (shadows' f) .shadowedField ++
    when ((packets f).any fun d => (d.id? == some "B" || d.id? == some "b") && hasPayload d) .typeParamName
where
  shadows' (f : File) : Bool := (packets f).any (shadows f)

/-- the JSON back end serializes the parsed file: it has no precondition -/
theorem pre_json (f : File) : pre .json f = [] := rfl

end Backend
end Pdlv
