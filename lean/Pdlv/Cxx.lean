/-
  Pdlv.Cxx — model of the parsers the C++ back end emits (pdl-compiler/src/backends/cxx.rs,
  `FieldParser`, `generate_struct_declaration`, `generate_packet_view`) over the layout IR, for
  packets and structs without parent, with the slice accessors of pdl-compiler/scripts/packet_runtime.h.

  Two parsers are emitted from the same `FieldParser`:
  * **structs** (`static bool T::Parse(slice&, T*)`, `extract_arrays = true`): arrays are parsed
    element by element into vectors (`parse_array_field_full`);
  * **packet views** (`TView::Parse(slice const&)`, `extract_arrays = false`): an array is kept as
    a slice after the size checks of `parse_array_field_lite` ("TODO element validation"), and the
    getter `GetX()` parses the slice again, leniently (a failing element ends the vector, the result
    of `T::Parse` into a fixed-size `std::array` is ignored).
  What differs from the reference decoder, all taken from cxx.rs / packet_runtime.h:
  * **static runs** — consecutive bit-field groups only advance a compile-time `offset`; their code is
    collected in `unchecked_code` and flushed behind ONE `if (span.size() < offset) return false;`;
  * **slice accessors only `assert`** their bounds: a read / `subrange` / `skip` beyond the slice is
    a failed assertion (an invalid slice or `std::out_of_range` with NDEBUG): outcome `.panic`;
  * **`element_size * x_count_` is C++ arithmetic** in the type of the count field: `uint8_t` and
    `uint16_t` promote to `int`, `uint32_t` wraps at 2^32, `uint64_t` at 2^64 — the bounds check is
    made on the wrapped product and the loop then runs `x_count_` times;
  * **padding** — after the array the parser skips `padded - consumed` octets when the array consumed
    fewer than the padded size, and nothing otherwise: the array is not bounded by its padding;
  * an undelimited struct field followed by static fields is parsed from "all but the trailing
    octets" (`get_trailing_size`), and the outer span advances by that sub-span (since the `fix:`
    commit "skip the whole field span after an unknown-size struct field"; before, by what `Parse`
    had left of the sub-span, i.e. by nothing);
  * element-size fields and custom fields are outside the model (`.panic .badLayout`);
  * a getter is evaluated where its array is parsed, with the count read so far (two `_count_` fields for one
    array, which the analyzer rejects, would make the emitted getter use the later one).
  `false` from a parser is `.err` (which error is not meaningful: the C++ code has one).
-/
import Pdlv.Py

namespace Pdlv
namespace Cxx

/-- octets of a run item: only bit-field groups accumulate behind one `check_size` -/
def runLen : Item → Option Nat
  | .chunk fs => some (chunkBits fs / 8)
  | _ => none

/-- the `offset` checked by `check_code` for the run starting here -/
def runTotal : Items → Nat
  | .cons (.chunk fs) r => chunkBits fs / 8 + runTotal r
  | _ => 0

def countWidthIn (id : String) : List BitField → Option Nat
  | [] => none
  | .count t w :: r => if t == id then some w else countWidthIn id r
  | _ :: r => countWidthIn id r

/-- declared width of the `_count_` field of array `id` -/
def countWidth (id : String) : Items → Option Nat
  | .nil => none
  | .cons (.chunk fs) r => (countWidthIn id fs).or (countWidth id r)
  | .cons _ r => countWidth id r

def sizeFieldIn (id : String) : List BitField → Option (Nat × Nat)
  | [] => none
  | .size t w m :: r => if t == id then some (w, m) else sizeFieldIn id r
  | _ :: r => sizeFieldIn id r

/-- declared width and size modifier of the `_size_` field of array `id` -/
def sizeField (id : String) : Items → Option (Nat × Nat)
  | .nil => none
  | .cons (.chunk fs) r => (sizeFieldIn id fs).or (sizeField id r)
  | .cons _ r => sizeField id r

/-- width of the C++ unsigned type that holds a field of `w` bits -/
def typeBits (w : Nat) : Nat := if w ≤ 8 then 8 else if w ≤ 16 then 16 else if w ≤ 32 then 32 else 64

/-- `x_size_ = x_size_ - modifier;` in the type of the size field: below zero it wraps to a large size -/
def subModifier (all : Items) (id : String) (siz : Option Nat) : Option Nat :=
  match siz, sizeField id all with
  | some sz, some (w, m) => some (if m ≤ sz then sz - m else (sz + 2 ^ typeBits w - m) % 2 ^ typeBits w)
  | s, _ => s

/-- `{element_size} * x_count_` as C++ computes it, `cw` the declared width of the count field:
    `uint8_t` / `uint16_t` promote to `int` (overflow of the signed product is undefined behaviour),
    `uint32_t` wraps at 2^32, `uint64_t` at 2^64 -/
def mulCount (cw es n : Nat) : Dec Nat :=
  -- (a count of at most 16 bits is below 2^16 by its C++ type: the product is exact unless the element size
  -- itself is beyond 2^15 octets — signed overflow, not modelled)
  if cw ≤ 16 then (if es * 65535 < 2 ^ 31 then .ok (es * n) else .panic .badLayout)
  else if cw ≤ 32 then .ok ((es * n) % 2 ^ 32)
  else .ok ((es * n) % 2 ^ 64)

mutual
/-- does nothing but the end of the span delimit a value of this type (`analyzer::Size::Unknown`)? -/
def unkTy : Ty → Bool
  | .struct _ (.root _ is) => unkItems is
  | _ => false
def unkItem : Item → Bool
  | .array _ _ _ .unknown none => true
  | .payload (.sized _) => false
  | .payload _ => true
  | .typedef _ ty none => unkTy ty
  | _ => false
def unkItems : Items → Bool
  | .nil => false
  | .cons i r => unkItem i || unkItems r
end

/-- `span.read_le/be<T, N>()`: asserts `N <= size_` -/
def rawRead (e : Endian) (w : Nat) (bs : Bytes) : Dec (Nat × Bytes) :=
  if bs.length < w / 8 then .panic .readOOB else getUint e w bs

/-- the padding code after an array that started with `start` octets left and ended with `r` -/
def afterPad (pad : Option Nat) (start : Nat) (r : Bytes) : Dec Bytes :=
  match pad with
  | none => .ok r
  | some p =>
    let consumed := start - r.length
    if consumed < p then
      (if r.length < p - consumed then .err .length else .ok (r.drop (p - consumed)))
    else .ok r

/-- the loops of the twelve array cases, over the element parser `el` (`T::Parse` or a raw read),
    as `parse_array_field_full` emits them; `cw`: declared width of the count field -/
def arrayFull (el : Bytes → Dec (Value × Bytes)) (ew : ElemWidth) (shape : Shape) (cw : Option Nat)
    (cnt siz : Option Nat) (sp : Bytes) : Dec (List Value × Bytes) :=
  match ew, shape with
  | .static w, .static n =>
    if sp.length < n * w then .err .length else decRepeat el n sp
  | .static w, .countField =>
    match cnt, cw with
    | some n, some cw =>
      (mulCount cw w n).bind fun tot =>
      if sp.length < tot then .err .length else decRepeat el n sp
    | _, _ => .panic .badLayout
  | .static w, .sizeField =>
    match siz with
    | none => .panic .badLayout
    | some sz =>
      if sp.length < sz then .err .length
      else if w = 0 then .panic .remZero
      else if sz % w ≠ 0 then .err .arraySize
      else decRepeat el (sz / w) sp
  | .static w, .unknown =>
    if w = 0 then .panic .remZero
    else if sp.length % w ≠ 0 then .err .arraySize
    else decRepeat el (sp.length / w) sp
  | .unknown, .static n => decRepeat el n sp
  | .unknown, .countField =>
    match cnt with
    | none => .panic .badLayout
    | some n => decRepeat el n sp
  | .unknown, .sizeField =>
    match siz with
    | none => .panic .badLayout
    | some sz =>
      if sp.length < sz then .err .length
      else (decWhile el (sz + 1) (sp.take sz)).bind fun vs => .ok (vs, sp.drop sz)
  | .unknown, .unknown => (decWhile el (sp.length + 1) sp).bind fun vs => .ok (vs, [])
  | .dynamic, _ => .panic .badLayout

/-- the local `uint8_t c = ...` a condition flag was read into -/
def condValue (st : DState) (cid : String) : Dec Nat :=
  match st.ctx.get (.val cid) with
  | some cv => .ok cv
  | none => .panic .badLayout

mutual
/-- one array element of a struct parser: a raw read for scalars and enums (closed enums are validated),
    `T::Parse(span, &out)` for structs -/
def decElem (c : Cfg) : Ty → Bytes → Dec (Value × Bytes)
  | .scalar w, bs => (rawRead c.e w bs).bind fun (v, r) => .ok (.int v, r)
  | .enumTy _ en, bs =>
    (rawRead c.e en.width bs).bind fun (v, r) => if enumOk en v then .ok (.int v, r) else .err .enumValue
  | .custom _ _, _ => .panic .badLayout
  | .struct _ b, bs => decBody c b bs

/-- one field of a struct parser; `all`: the field list it belongs to, `rest`: the fields after it -/
def decItem (c : Cfg) (all rest : Items) : Item → Bytes → DState → Dec (DState × Bytes)
  | .chunk fs, bs, st => decChunk c.e false fs bs st
  | .typedef id ty _, bs, st =>
    match ty with
    | .struct _ b =>
      let k := Py.tailKeep rest
      if unkTy ty && k > 0 then
        -- `s_span = span.subrange(0, span.size() - k)`, `S::Parse(s_span, &s_)`, `span.skip(s_span_size)`
        if bs.length < k then .err .length
        else (decBody c b (bs.take (bs.length - k))).bind fun (v, _) =>
          .ok ({ st with fields := st.fields ++ [(id, v)] }, bs.drop (bs.length - k))
      else (decBody c b bs).bind fun (v, r) => .ok ({ st with fields := st.fields ++ [(id, v)] }, r)
    | _ => .panic .badLayout      -- scalars and enums are bit-fields; custom fields are not modelled
  | .optional id ty cid cval, bs, st =>
    (condValue st cid).bind fun cv =>
      if cv = cval then
        match ty with
        | .scalar w =>
          if bs.length < w / 8 then .err .length
          else (getUint c.e w bs).bind fun (v, r) => .ok ({ st with fields := st.fields ++ [(id, .int v)] }, r)
        | .enumTy _ en =>
          if bs.length < en.width / 8 then .err .length
          else (getUint c.e en.width bs).bind fun (v, r) =>
            if enumOk en v then .ok ({ st with fields := st.fields ++ [(id, .int v)] }, r) else .err .enumValue
        | .struct _ b => (decBody c b bs).bind fun (v, r) => .ok ({ st with fields := st.fields ++ [(id, v)] }, r)
        | .custom .. => .panic .badLayout
      else .ok ({ st with fields := st.fields ++ [(id, .null)] }, bs)
  | .payload mode, bs, st =>
    match mode with
    | .sized m =>
      match st.ctx.get (.size "_payload_") with
      | none => .panic .badLayout
      | some sz =>
        -- `(payload_size_ - m)` below zero is a huge unsigned (or a negative int compared as size_t): rejected
        if sz < m then .err .length
        else
          let n := sz - m
          if bs.length < n then .err .length
          else .ok ({ st with payload := some (bs.take n) }, bs.drop n)
    | _ =>
      let k := Py.tailKeep rest
      if k = 0 then .ok ({ st with payload := some bs }, [])
      else if bs.length < k then .err .length
      else .ok ({ st with payload := some (bs.take (bs.length - k)) }, bs.drop (bs.length - k))
  | .array id elem ew shape pad, bs, st =>
    (arrayFull (decElem c elem) ew shape (countWidth id all) (st.ctx.get (.count id))
        (subModifier all id (st.ctx.get (.size id))) bs).bind
      fun (vs, r) => (afterPad pad bs.length r).bind fun r' =>
        .ok ({ st with fields := st.fields ++ [(id, .arr vs)] }, r')

/-- the field list; `inRun`: the length check of the current run of bit-field groups has been emitted -/
def decItems (c : Cfg) (all : Items) : Items → Bool → Bytes → DState → Dec (DState × Bytes)
  | .nil, _, bs, st => .ok (st, bs)
  | .cons i r, inRun, bs, st =>
    match runLen i with
    | some _ =>
      if !inRun && bs.length < runTotal (.cons i r) then .err .length
      else (decItem c all r i bs st).bind fun (st', bs') => decItems c all r true bs' st'
    | none => (decItem c all r i bs st).bind fun (st', bs') => decItems c all r false bs' st'

/-- `T::Parse(span, &out)` of a struct without parent -/
def decBody (c : Cfg) : Body → Bytes → Dec (Value × Bytes)
  | .root _ items, bs =>
    (decItems c items items false bs DState.empty).bind fun (st, r) =>
      .ok (.obj (st.fields ++ (match st.payload with
                             | some p => [("payload", Value.ofBytes p)]
                             | none => [])), r)
  | .derived .., _ => .panic .badLayout
end

/-! ### the layouts on which the emitted struct parser is shown to agree with the reference decoder -/

/-- padding the theorem covers: a statically counted array of scalars that fits its padded size (the emitted parser
    does not bound an array by its padding: KF-C14-padded-array-overrun) -/
def padOk (pad : Option Nat) (elem : Ty) (ew : ElemWidth) (shape : Shape) : Bool :=
  match pad with
  | none => true
  | some p =>
    match elem, ew, shape with
    | .scalar w', .static w, .static n => w == w' / 8 && decide (n * w ≤ p)
    | _, _, _ => false

/-- the product `element size * count` is exact: a count field of at most 16 bits -/
def countOk (all : Items) (id : String) (w : Nat) : Bool :=
  match countWidth id all with
  | some cw => decide (cw ≤ 16) && decide (w * 65535 < 2 ^ 31)
  | none => false

def isStruct : Ty → Bool
  | .struct .. => true
  | _ => false

mutual
def wfTy : Ty → Bool
  | .struct _ (.root _ items) => wfItems items items
  | .struct _ (.derived ..) => false
  | .custom .. => false
  | _ => true
/-- no array size modifier; a struct field of unknown size is the last field; count fields of statically sized
    elements at most 16 bits wide; padding only after statically counted arrays of scalars that fit it; no element-size or custom fields; the octets kept after an
    unsized payload are what the fields that follow occupy -/
def wfItem (all rest : Items) : Item → Bool
  | .chunk fs => fs.all Py.bfPlain
  | .typedef _ ty _ => isStruct ty && wfTy ty && !(unkTy ty && decide (Py.tailKeep rest > 0))
  | .optional _ ty _ _ => wfTy ty
  | .payload (.sized _) => true
  | .payload .last => Py.tailKeep rest == 0
  | .payload (.beforeStatic k) => Py.tailKeep rest == k
  | .payload .undelimited => false
  | .array id elem ew shape pad =>
    padOk pad elem ew shape && id != "_payload_" && wfTy elem &&
    (match ew with
     | .static w => staticTy elem == some w && localWfTy elem &&
         (match shape with | .countField => countOk all id w | _ => true)
     | .unknown => isStruct elem
     | .dynamic => false)
def wfItems (all : Items) : Items → Bool
  | .nil => true
  | .cons i r => wfItem all r i && wfItems all r
end

def wfBody : Body → Bool
  | .root _ items => wfItems items items
  | .derived .. => false

/-! ### packet views -/

/-- `parse_array_field_lite`: the size checks, and the slice kept for the getter -/
def arrayLite (c : Cfg) (elem : Ty) (ew : ElemWidth) (shape : Shape) (cw : Option Nat) (cnt siz : Option Nat)
    (sp : Bytes) : Dec (Bytes × Bytes) :=
  match ew, shape with
  | .static w, .static n =>
    if sp.length < n * w then .err .length else .ok (sp.take (n * w), sp.drop (n * w))
  | .static w, .countField =>
    match cnt, cw with
    | some n, some cw =>
      (mulCount cw w n).bind fun tot =>
      if sp.length < tot then .err .length else .ok (sp.take tot, sp.drop tot)
    | _, _ => .panic .badLayout
  | .static w, .sizeField =>
    match siz with
    | none => .panic .badLayout
    | some sz =>
      if sp.length < sz then .err .length
      else if w = 0 then .panic .remZero
      else if sz % w ≠ 0 then .err .arraySize
      else .ok (sp.take sz, sp.drop sz)
  | .static w, .unknown =>
    if w = 0 then .panic .remZero
    else if sp.length % w ≠ 0 then .err .arraySize
    else .ok (sp, [])
  | .unknown, .static n =>
    (decRepeat (decElem c elem) n sp).bind fun (_, r) => .ok (sp.take (sp.length - r.length), r)
  | .unknown, .countField =>
    match cnt with
    | none => .panic .badLayout
    | some n => (decRepeat (decElem c elem) n sp).bind fun (_, r) => .ok (sp.take (sp.length - r.length), r)
  | .unknown, .sizeField =>
    match siz with
    | none => .panic .badLayout
    | some sz => if sp.length < sz then .err .length else .ok (sp.take sz, sp.drop sz)
  | .unknown, .unknown => (decWhile (decElem c elem) (sp.length + 1) sp).bind fun _ => .ok (sp, [])
  | .dynamic, _ => .panic .badLayout

/-- `while (limit && span.size() >= w / 8) elements.push_back(read)` -/
def lenientRaw (e : Endian) (w : Nat) : Nat → Option Nat → Bytes → Dec (List Value)
  | 0, _, _ => .panic .nonTermination
  | fuel + 1, limit, bs =>
    if limit == some 0 then .ok []
    else if bs.length < w / 8 then .ok []
    else
      (getUint e w bs).bind fun (v, r) =>
        if r.length < bs.length then
          (lenientRaw e w fuel (limit.map (· - 1)) r).bind fun vs => .ok (.int v :: vs)
        else .panic .nonTermination

/-- `while (limit) { if (!T::Parse(span, &element)) break; elements.emplace_back(element); }` -/
def lenientParse (f : Bytes → Dec (Value × Bytes)) : Nat → Option Nat → Bytes → Dec (List Value)
  | 0, _, _ => .panic .nonTermination
  | fuel + 1, limit, bs =>
    if limit == some 0 then .ok []
    else if limit.isNone && bs.isEmpty then .ok []
    else
      match f bs with
      | .panic h => .panic h
      | .err _ => .ok []
      | .ok (v, r) =>
        if limit.isNone && ¬ r.length < bs.length then .panic .nonTermination
        else if limit.isSome && ¬ r.length < bs.length then
          -- a counted loop over an element that consumes nothing terminates by its count
          (match limit with
           | some n => .ok (List.replicate n v)
           | none => .ok [])
        else (lenientParse f fuel (limit.map (· - 1)) r).bind fun vs => .ok (v :: vs)

/-- `GetX()`: the slice kept by the view, parsed again -/
def getter (c : Cfg) (elem : Ty) (shape : Shape) (cnt : Option Nat) (sl : Bytes) : Dec (List Value) :=
  match shape with
  | .static n =>
    match elem with
    | .scalar w => (decRepeat (fun bs => (rawRead c.e w bs).bind fun (v, r) => .ok (.int v, r)) n sl).bind fun (vs, _) => .ok vs
    | .enumTy _ en =>
      (decRepeat (fun bs => (rawRead c.e en.width bs).bind fun (v, r) => .ok (.int v, r)) n sl).bind fun (vs, _) => .ok vs
    | .struct _ b =>
      -- `T::Parse(span, &elements[n]);` — the result is ignored: a failing element leaves a partly written
      -- object and the span where it was (modelled as a value outside the model: `.panic .badValue`)
      (decRepeat (fun bs => match decBody c b bs with
          | .ok x => .ok x
          | .err _ => .panic .badValue
          | .panic h => .panic h) n sl).bind fun (vs, _) => .ok vs
    | .custom .. => .panic .badLayout
  | _ =>
    let limit := match shape with | .countField => cnt | _ => none
    match elem with
    | .scalar w => lenientRaw c.e w (sl.length + 1) limit sl
    | .enumTy _ en => lenientRaw c.e en.width (sl.length + 1) limit sl
    | .struct _ b => lenientParse (decBody c b) (sl.length + 1) limit sl
    | .custom .. => .panic .badLayout

/-- one field of a view parser: as the struct parser, but an array is kept as a slice behind the checks of
    `arrayLite`, and its getter parses that slice.  The getters run only on a valid view, after the parser:
    their values are computed here, where the slice and the count are at hand, and a failed assertion inside a
    getter is DEFERRED (second component of the state) until the view has been found valid. -/
def viewItem (c : Cfg) (all rest : Items) : Item → Bytes → DState × Option Hazard → Dec ((DState × Option Hazard) × Bytes)
  | .array id elem ew shape pad, bs, (st, hz) =>
    (arrayLite c elem ew shape (countWidth id all) (st.ctx.get (.count id))
        (subModifier all id (st.ctx.get (.size id))) bs).bind
      fun (s, r) => (afterPad pad bs.length r).bind fun r' =>
        match getter c elem shape (st.ctx.get (.count id)) s with
        | .ok vs => .ok (({ st with fields := st.fields ++ [(id, .arr vs)] }, hz), r')
        | .panic h => .ok (({ st with fields := st.fields ++ [(id, .null)] }, hz.or (some h)), r')
        | .err _ => .ok (({ st with fields := st.fields ++ [(id, .null)] }, hz.or (some .badValue)), r')
  | i, bs, (st, hz) => (decItem c all rest i bs st).bind fun (st', r) => .ok ((st', hz), r)

def viewItems (c : Cfg) (all : Items) : Items → Bool → Bytes → DState × Option Hazard → Dec ((DState × Option Hazard) × Bytes)
  | .nil, _, bs, s => .ok (s, bs)
  | .cons i r, inRun, bs, s =>
    match runLen i with
    | some _ =>
      if !inRun && bs.length < runTotal (.cons i r) then .err .length
      else (viewItem c all r i bs s).bind fun (s', bs') => viewItems c all r true bs' s'
    | none => (viewItem c all r i bs s).bind fun (s', bs') => viewItems c all r false bs' s'

/-- `RootView::Create(slice)` and then `ChildView::Create(parent)` down to this declaration (`generate_packet_view`): a child
    view requires a valid parent, copies the parent's unconstrained fields, parses its own fields from `parent.payload_` and is
    invalid when octets are left over.  NO constraint is checked (KF-C14-child-constraint): the getter of a constrained field
    returns the constant.  The value: own fields, the copied ones, the payload — with the hazard a getter would meet.  (A slice
    holds fewer than 2^64 octets: a longer payload does not exist.) -/
def viewBody (c : Cfg) : Body → Bytes → Dec (Value × Option Hazard)
  | .root _ items, bs =>
    (viewItems c items items false bs (DState.empty, none)).bind fun ((st, hz), r) =>
      if !r.isEmpty then .err .trailingBytes
      else .ok (.obj (st.fields ++
                      (match st.payload with
                       | some p => [("payload", Value.ofBytes p)]
                       | none => [])), hz)
  | .derived _ parent cs _ items, bs =>
    (viewBody c parent bs).bind fun (pv, phz) =>
      let copied := pv.fields.filter fun (k, _) => k != "payload" && !(cs.any (·.1 == k))
      if parent.hasPayload then
        let pbytes : Bytes := match pv.fields.lookup "payload" with
          | some (.arr vs) => vs.map fun v => UInt8.ofNat ((v.asNat?).getD 0)
          | _ => []
        if pbytes.length ≥ usizeMax then .panic .badLayout
        else
          (viewItems c items items false pbytes (DState.empty, phz)).bind fun ((st, hz), r) =>
            if !r.isEmpty then .err .trailingBytes
            else .ok (.obj (st.fields ++ copied ++
                            (match st.payload with
                             | some p => [("payload", Value.ofBytes p)]
                             | none => [])), hz)
      else .ok (.obj copied, phz)

/-- `TView::Create(slice)`, `IsValid()`, then every getter: the field values of a valid view -/
def viewDecode (c : Cfg) : Body → Bytes → Dec Value
  | .root _ items, bs =>
    (viewItems c items items false bs (DState.empty, none)).bind fun ((st, hz), r) =>
      if !r.isEmpty then .err .trailingBytes
      else
        match hz with
        | some h => .panic h
        | none =>
          .ok (.obj (st.fields ++
                    (match st.payload with
                     | some p => [("payload", Value.ofBytes p)]
                     | none => [])))
  | .derived nm parent cs allCs items, bs =>
    (viewBody c (.derived nm parent cs allCs items) bs).bind fun (v, hz) =>
      match hz with
      | some h => .panic h
      | none => .ok v

/-! ### the layouts on which the emitted view parser and its getters are shown to agree with the reference -/

/-- as `wfItem`, with arrays of scalars of at least one octet only (the view parser validates no array element,
    the getters are lenient: KF-C14-enum-array, KF-C14-struct-array-*) -/
def vwfItem (all rest : Items) : Item → Bool
  | .array id elem ew shape pad =>
    padOk pad elem ew shape && id != "_payload_" &&
    (match elem, ew with
     | .scalar w', .static w => w == w' / 8 && decide (0 < w) &&
         (match shape with | .countField => countOk all id w | _ => true)
     | _, _ => false)
  | i => wfItem all rest i

def vwfItems (all : Items) : Items → Bool
  | .nil => true
  | .cons i r => vwfItem all r i && vwfItems all r

def vwfBody : Body → Bool
  | .root _ items => vwfItems items items
  | .derived .. => false

/-- a child view and its ancestors: every level's own fields in the class of the view theorem, every parent with a payload -/
def vwfChain : Body → Bool
  | .root _ items => vwfItems items items && !(itemsIds items).contains "payload"
  | .derived _ parent _ _ items =>
    vwfItems items items && !(itemsIds items).contains "payload" && parent.hasPayload && vwfChain parent


/-! ### the serializer (`FieldSerializer`, `Builder::Serialize` / `T::Serialize`) -/

def flagOptsIn (cid : String) : List BitField → Option (List (String × Nat))
  | [] => none
  | .flag id opts :: r => if id == cid then some opts else flagOptsIn cid r
  | _ :: r => flagOptsIn cid r

/-- the optional fields listed by the condition flag `cid` -/
def flagOpts (cid : String) : Items → Option (List (String × Nat))
  | .nil => none
  | .cons (.chunk fs) r => (flagOptsIn cid fs).or (flagOpts cid r)
  | .cons _ r => flagOpts cid r

/-- `(o_.has_value() ? present : absent)`: the flag is taken from the FIRST optional field it lists -/
def flagValue (v : Value) : List (String × Nat) → Enc Nat
  | [] => .panic .badLayout
  | (o, setv) :: _ => .ok (if isPresent v o then setv else (if setv = 0 then 1 else 0))

/-- the values packed into one bit-field group, as cxx.rs emits them: NO range check anywhere — a scalar is masked
    to its width, a size or a count is shifted in unmasked (a value beyond its field spills into the fields above
    it: outside the model, `.panic .badLayout`), the flag comes from the first optional field it governs without a
    consistency check; size modifiers apply to payloads and arrays alike.  `GetSize()` of a struct is taken to be
    the octets it serializes to (`sizeOfTarget`; compared by execution). -/
def encChunkFields (items : Items) (payloadLen : Nat) (v : Value) : List BitField → Nat → Nat → Enc Nat
  | [], _, acc => .ok acc
  | f :: fs, shift, acc =>
    let next (x : Nat) := encChunkFields items payloadLen v fs (shift + f.width) (acc + x * 2 ^ shift)
    match f with
    | .scalar id w =>
      (natField v id).bind fun x => if x ≥ 2 ^ backingOf w then .panic .badValue else next (x % 2 ^ w)
    | .flag _ opts => (flagValue v opts).bind next
    | .enumTy id _ e =>
      (natField v id).bind fun x => if x < 2 ^ e.width then next x else .panic .badLayout
    | .fixed _ c => next c
    | .reserved _ => next 0
    | .size t w m =>
      (sizeOfTarget items t payloadLen v).bind fun s => if s + m > maskBits w then .panic .badLayout else next (s + m)
    | .count t w => (listField v t).bind fun vs => if vs.length > maskBits w then .panic .badLayout else next vs.length
    | .elemSize _ _ => .panic .badLayout

mutual
/-- one array element / typedef / optional value: `write_le/be<T, N>(output, static_cast<T>(x))` keeps the low
    N octets, `x.Serialize(output)` for structs -/
def encTy (c : Cfg) : Ty → Value → Enc Bytes
  | .scalar w, v =>
    match v with
    | .int x => if x ≥ 2 ^ backingOf w then .panic .badValue else .ok (putUint c.e w (x % 2 ^ w))
    | _ => .panic .badValue
  | .enumTy _ en, v =>
    match v with
    | .int x => if x ≥ 2 ^ backingOf en.width then .panic .badValue else .ok (putUint c.e en.width (x % 2 ^ en.width))
    | _ => .panic .badValue
  | .custom _ _, _ => .panic .badLayout
  | .struct _ b, v => encBody c b v

def encItem (c : Cfg) (all : Items) (payload : Bytes) (v : Value) : Item → Enc Bytes
  | .chunk fs => (encChunkFields all payload.length v fs 0 0).bind fun x => .ok (putUint c.e (chunkBits fs) x)
  | .typedef id ty _ =>
    match v.get? id with
    | some x => encTy c ty x
    | none => .panic .badValue
  | .optional id ty cid cval =>
    -- `if (<flag expression> == cond_value) { write(*x_) }`: the FLAG decides, not `x_.has_value()`
    match flagOpts cid all with
    | none => .panic .badLayout
    | some opts =>
      (flagValue v opts).bind fun fv =>
        if fv = cval then
          match v.get? id with
          | some .null | none => .panic .badValue          -- `*x_` of an empty optional: undefined behaviour
          | some x => encTy c ty x
        else .ok []
  | .payload _ => .ok payload
  | .array id elem _ shape pd =>
    (listField v id).bind fun vs =>
    (checkCount shape vs.length).bind fun _ =>
    (encListWith (encTy c elem) vs).bind fun bs => .ok (Py.pad pd bs)

def encItems (c : Cfg) (all : Items) (payload : Bytes) (v : Value) : Items → Enc Bytes
  | .nil => .ok []
  | .cons i r => (encItem c all payload v i).bind fun a => (encItems c all payload v r).bind fun b => .ok (a ++ b)

/-- `Serialize` of a packet builder or struct without parent -/
def encBody (c : Cfg) : Body → Value → Enc Bytes
  | .root _ items, v =>
    match (if items.hasPayload then (v.get? "payload").bind valBytes else some []) with
    | none => .panic .badValue
    | some p => encItems c items p v items
  | .derived .., _ => .panic .badLayout
end

mutual
/-- serializer side of the class: no element-size or custom fields, widths up to 64, every condition flag governs
    exactly one optional field (a flag shared by several is serialized from the first of them only) -/
def serWfTy : Ty → Bool
  | .custom .. => false
  | .struct _ (.root _ items) => serWfItems items items
  | .struct _ (.derived ..) => false
  | .scalar w => decide (w ≤ 64)
  | .enumTy _ e => decide (e.width ≤ 64)
def serWfItem (all : Items) : Item → Bool
  | .chunk fs => fs.all fun f => match f with
      | .elemSize .. => false
      | .scalar _ w => decide (w ≤ 64)
      | .enumTy _ _ e => decide (e.width ≤ 64)
      | .count _ w => decide (w ≤ 64)
      | .flag _ opts => opts.length == 1 && opts.all (fun o => decide (o.2 ≤ 1))
      | _ => true
  | .typedef _ ty _ => serWfTy ty
  | .optional id ty cid cval => serWfTy ty && flagOpts cid all == some [(id, cval)] && decide (cval ≤ 1)
  | .payload _ => true
  | .array _ elem _ _ _ => serWfTy elem
def serWfItems (all : Items) : Items → Bool
  | .nil => true
  | .cons i r => serWfItem all i && serWfItems all r
end

def serWfBody : Body → Bool
  | .root _ items => serWfItems items items
  | .derived .. => false

end Cxx
end Pdlv
