/-
  C02 — Rust encode then decode is the identity on every well-formed value.

  The round trip of the models (`Pdlv.encBody` then `Pdlv.decBody`) is established here for the
  building blocks every packet is made of; the whole-packet statement for arbitrary
  descriptions is carried by the correspondence check (`bin/check C02`) and stated below as
  `roundtrip_statement` (open: not yet proved for all item kinds — see evidence `level_note`).
-/
import Pdlv.Wire
import Pdlv.Lemmas.Bits

namespace Pdlv

/-- **integers round-trip at every width and in both byte orders**: what `put_uint{_le}(v, k)`
    writes, `get_uint{_le}(k)` reads back — for every k and every v that fits -/
theorem getUint_putUint (e : Endian) (k v : Nat) (rest : Bytes) (hv : v < 2 ^ (8 * k)) :
    getUint e (8 * k) (putUint e (8 * k) v ++ rest) = .ok (v, rest) := by
  have hk : 8 * k / 8 = k := by omega
  unfold getUint putUint
  simp only [hk]
  cases e with
  | little =>
    simp only [List.length_append, toLE_length]
    have : ¬ (k + rest.length < k) := by omega
    simp only [this, ↓reduceIte]
    rw [List.take_left' (toLE_length k v), List.drop_left' (toLE_length k v), fromLE_toLE_of_lt k v hv]
  | big =>
    simp only [List.length_append, toBE_length]
    have : ¬ (k + rest.length < k) := by omega
    simp only [this, ↓reduceIte]
    rw [List.take_left' (toBE_length k v), List.drop_left' (toBE_length k v)]
    simp [fromBE, toBE, fromLE_toLE_of_lt k v hv]

/-- **bit-field groups round-trip for every list of widths**: extracting
    `(chunk >> shift) & mask(w)` at running shifts from the packed group returns every field -/
theorem chunk_fields_roundtrip (fs : List (Nat × Nat)) (h : InRange fs) :
    unpack (fs.map (·.1)) (pack fs) = fs.map (·.2) := unpack_pack fs h

/-- scalar array elements / optional scalars / sized custom fields: one element round-trips,
    leaving the rest of the input untouched (the strong form needed inside arrays) -/
theorem scalar_elem_roundtrip (c : Cfg) (k v : Nat) (rest : Bytes) (hv : v < 2 ^ (8 * k)) (hk : 8 * k ≤ 64)
    (hb : v < 2 ^ backingOf (8 * k)) :
    ∃ bs, encTy c (.scalar (8 * k)) (.int v) = .ok bs ∧
      decTy c (.scalar (8 * k)) (bs ++ rest) = .ok (.int v, rest) := by
  refine ⟨putUint c.e (8 * k) v, ?_, ?_⟩
  · simp only [encTy]
    have h1 : ¬ v ≥ 2 ^ backingOf (8 * k) := by omega
    have h2 : v ≤ maskBits (8 * k) := by unfold maskBits; omega
    have h3 : elemOutOfRange c.mode (8 * k) v = false := by
      unfold elemOutOfRange; cases c.mode <;> simp; omega
    simp [h1, h3]
  · simp only [decTy, Outcome.bind, getUint_putUint c.e k v rest hv]

/-- a run of scalar elements round-trips: `for elem in &self.x { put(elem) }` then
    `for _ in 0..n { get() }` -/
theorem scalar_array_roundtrip (c : Cfg) (k : Nat) (hk : 8 * k ≤ 64) :
    ∀ (vs : List Nat) (rest : Bytes),
      (∀ v ∈ vs, v < 2 ^ (8 * k) ∧ v < 2 ^ backingOf (8 * k)) →
      ∃ bs, encListWith (encTy c (.scalar (8 * k))) (vs.map Value.int) = .ok bs ∧
        decRepeat (decTy c (.scalar (8 * k))) vs.length (bs ++ rest) = .ok (vs.map Value.int, rest) := by
  intro vs
  induction vs with
  | nil => intro rest _; exact ⟨[], by simp [encListWith], by simp [decRepeat]⟩
  | cons v vs ih =>
    intro rest hall
    have hv := hall v (by simp)
    obtain ⟨b, hb1, hb2⟩ := ih rest (fun x hx => hall x (by simp [hx]))
    obtain ⟨a', ha1', ha2'⟩ := scalar_elem_roundtrip c k v (b ++ rest) hv.1 hk hv.2
    refine ⟨a' ++ b, ?_, ?_⟩
    · simp [encListWith, Outcome.bind, ha1', hb1]
    · simp only [List.length_cons, decRepeat, Outcome.bind, List.append_assoc, ha2', hb2, List.map_cons]

/-- The whole-packet statement (for reference; the correspondence check decides it per run). -/
def roundtrip_statement (c : Cfg) (b : Body) (v : Value) : Prop :=
  ∀ bs, encBody c b v = .ok bs → decodeFull c b bs = .ok v

/-- non-vacuity: a concrete packet `{ a: 3, b: 5 }` round-trips in the model (big-endian) -/
example :
    let b : Body := .root "P" (.cons (.chunk [.scalar "a" 3, .scalar "b" 5]) .nil)
    let c : Cfg := { e := .big }
    encBody c b (.obj [("a", .int 5), ("b", .int 17)]) = .ok [0x8d] ∧
    ((decodeFull c b [0x8d]).bind fun v =>
      .ok (v.get? "a" |>.bind Value.asNat?, v.get? "b" |>.bind Value.asNat?)) = .ok (some 5, some 17) := by
  constructor <;> rfl

end Pdlv
