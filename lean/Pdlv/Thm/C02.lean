/-
  C02 — Rust encode then decode is the identity on every well-formed value.

  The round trip of the models (`Pdlv.encBody` then `Pdlv.decBody`) is established here for the
  building blocks every packet is made of, then for whole packets and structs without parent
  (`roundtrip`, `roundtrip_full`, `roundtrip_rust`) and for inheriting packets at any depth, decoded
  through every ancestor (`roundtrip_inherit`, `roundtrip_inherit_full`), in the decidable
  round-trippable class `rtWfFull`; the check evaluates the class and the statements per run.
-/
import Pdlv.Wire
import Pdlv.Lemmas.Bits
import Pdlv.Lemmas.Enc
import Pdlv.Lemmas.RoundTrip
import Pdlv.Thm.C03
import Pdlv.Thm.C05
import Pdlv.Lemmas.Inh

namespace Pdlv

/-- **bit-field groups round-trip for every list of widths**: extracting
    `(chunk >> shift) & mask(w)` at running shifts from the packed group returns every field -/
theorem chunk_fields_roundtrip (fs : List (Nat × Nat)) (h : InRange fs) :
    unpack (fs.map (·.1)) (pack fs) = fs.map (·.2) := unpack_pack fs h

/-- scalar array elements / optional scalars / sized custom fields: one element round-trips,
    leaving the rest of the input untouched (the strong form needed inside arrays) -/
theorem scalar_elem_roundtrip (c : Cfg) (k v : Nat) (rest : Bytes) (hv : v < 2 ^ (8 * k)) (hk : 8 * k ≤ 64)
    (hb : v < 2 ^ backingOf (8 * k)) :
    ∃ bs, encTy c (.scalar (8 * k)) (.int v) = .ok bs ∧
      decTy c (.scalar (8 * k)) (bs ++ rest) = .ok (.int v, rest) := by
  refine ⟨putUint c.e (8 * k) v, ?_, ?_⟩
  · simp only [encTy]
    have h1 : ¬ v ≥ 2 ^ backingOf (8 * k) := by omega
    have h2 : v ≤ maskBits (8 * k) := by unfold maskBits; omega
    have h3 : elemOutOfRange c.mode (8 * k) v = false := by
      unfold elemOutOfRange; cases c.mode <;> simp; omega
    simp [h1, h3]
  · simp only [decTy, Outcome.bind, getUint_putUint c.e k v rest hv]

/-- a run of scalar elements round-trips: `for elem in &self.x { put(elem) }` then
    `for _ in 0..n { get() }` -/
theorem scalar_array_roundtrip (c : Cfg) (k : Nat) (hk : 8 * k ≤ 64) :
    ∀ (vs : List Nat) (rest : Bytes),
      (∀ v ∈ vs, v < 2 ^ (8 * k) ∧ v < 2 ^ backingOf (8 * k)) →
      ∃ bs, encListWith (encTy c (.scalar (8 * k))) (vs.map Value.int) = .ok bs ∧
        decRepeat (decTy c (.scalar (8 * k))) vs.length (bs ++ rest) = .ok (vs.map Value.int, rest) := by
  intro vs
  induction vs with
  | nil => intro rest _; exact ⟨[], by simp [encListWith], by simp [decRepeat]⟩
  | cons v vs ih =>
    intro rest hall
    have hv := hall v (by simp)
    obtain ⟨b, hb1, hb2⟩ := ih rest (fun x hx => hall x (by simp [hx]))
    obtain ⟨a', ha1', ha2'⟩ := scalar_elem_roundtrip c k v (b ++ rest) hv.1 hk hv.2
    refine ⟨a' ++ b, ?_, ?_⟩
    · simp [encListWith, Outcome.bind, ha1', hb1]
    · simp only [List.length_cons, decRepeat, Outcome.bind, List.append_assoc, ha2', hb2, List.map_cons]

/-- The whole-packet statement (for reference; the correspondence check decides it per run). -/
def roundtrip_statement (c : Cfg) (b : Body) (v : Value) : Prop :=
  ∀ bs, encBody c b v = .ok bs → decodeFull c b bs = .ok v

/-- non-vacuity: a concrete packet `{ a: 3, b: 5 }` round-trips in the model (big-endian) -/
example :
    let b : Body := .root "P" (.cons (.chunk [.scalar "a" 3, .scalar "b" 5]) .nil)
    let c : Cfg := { e := .big }
    encBody c b (.obj [("a", .int 5), ("b", .int 17)]) = .ok [0x8d] ∧
    ((decodeFull c b [0x8d]).bind fun v =>
      .ok (v.get? "a" |>.bind Value.asNat?, v.get? "b" |>.bind Value.asNat?)) = .ok (some 5, some 17) := by
  constructor <;> rfl

/-! ### whole packets -/

theorem payloadMode_of_modes : ∀ (is : Items), (payloadModes is).length ≤ 1 →
    ∀ md ∈ payloadModes is, payloadMode is = some md
  | .nil, _, md, h => by simp [payloadModes] at h
  | .cons i r, hl, md, h => by
    cases i with
    | payload m =>
      simp only [payloadModes, List.length_cons] at hl
      have : payloadModes r = [] := by
        cases hr : payloadModes r with
        | nil => rfl
        | cons _ _ => simp [hr] at hl
      simp only [payloadModes, this, List.mem_singleton] at h
      simp [payloadMode, h]
    | chunk fs => simp only [payloadModes] at hl h; simp only [payloadMode]; exact payloadMode_of_modes r hl md h
    | array id elem ew shape pad => simp only [payloadModes] at hl h; simp only [payloadMode]; exact payloadMode_of_modes r hl md h
    | typedef id ty sb => simp only [payloadModes] at hl h; simp only [payloadMode]; exact payloadMode_of_modes r hl md h
    | optional id ty ci cv => simp only [payloadModes] at hl h; simp only [payloadMode]; exact payloadMode_of_modes r hl md h

/-- a struct with at least one mandatory octet never encodes to nothing -/
theorem struct_enc_nonempty (ce : Cfg) (nm nm' : String) (items : Items) (hmin : 0 < minEnc items)
    (hl : lenWfItems items = true) (x : Value) (b : Bytes)
    (he : encTy ce (.struct nm (.root nm' items)) x = .ok b) : b ≠ [] := by
  simp only [encTy, encBody] at he
  split at he
  · cases he
  · rename_i p hp
    have h1 := encItems_len ce items p p.length x items b hl he
    have h2 := minEnc_le_lenItemsP x p.length items
    intro hb
    rw [hb] at h1
    simp at h1
    omega

mutual
/-- field and element types: the decoder inverts the encoder and leaves what follows untouched -/
theorem ty_rt (ce cd : Cfg) (hce : ce.mode = .ideal) (hee : ce.e = cd.e) : ∀ (ty : Ty), rtWfTy ty = true →
    ElemRT (encTy ce ty) (decTy cd ty) (canonTy ty)
  | .scalar w, hw => by
    intro x bs rest hb he
    have := scalar_rt ce cd hce hee w (by simpa [rtWfTy] using hw) x bs rest hb he
    simpa [canonTy] using this
  | .enumTy nm en, hw => by
    intro x bs rest hb he
    have := enum_rt ce cd hee nm en (by simpa [rtWfTy] using hw) x bs rest hb he
    simpa [canonTy] using this
  | .custom nm w, hw => by
    intro x bs rest hb he
    have := custom_rt ce cd hee nm w (by simpa [rtWfTy] using hw) x bs rest hb he
    simpa [canonTy] using this
  | .struct _ (.root nm items), hw => by
    intro x bs rest hb he
    simp only [rtWfTy, Bool.and_eq_true, decide_eq_true_eq, Bool.not_eq_true'] at hw
    obtain ⟨⟨⟨⟨hwi, hdi⟩, hnd⟩, hng⟩, hpm⟩ := hw
    simp only [encTy, encBody] at he
    simp only [decTy, decBody, canonTy, canonBody]
    split at he
    · cases he
    · rename_i p hp
      obtain ⟨st', h1, h2, h3⟩ := items_rt ce cd hce hee items p x hnd items [] bs rest DState.empty hwi hdi
        (by intro k hk; simp at hk) (by intro k y hk; simp [DState.empty, Ctx.get] at hk)
        (fun t ht => ht) (fun t ht => ht) (payloadMode_of_modes items hpm) he
        (by intro hg; rw [hng] at hg; cases hg) hb
      rw [h1]
      simp only [Outcome.bind, h2, h3, DState.empty, List.nil_append]
      by_cases hh : items.hasPayload = true
      · simp only [hh, ↓reduceIte] at hp ⊢
        simp only [payloadBytes, hp, Option.getD_some]
      · have hh' : items.hasPayload = false := by simpa using hh
        simp only [hh', Bool.false_eq_true, ↓reduceIte]
  | .struct _ (.derived ..), hw => by simp [rtWfTy] at hw

/-- **the field list, in lock step**: decoding what the reference-mode encoder wrote for the items
    `is` (a suffix of the field list `all`), from a decoder state that knows what the earlier items
    bound, consumes exactly those octets and appends exactly the items' fields -/
theorem items_rt (ce cd : Cfg) (hce : ce.mode = .ideal) (hee : ce.e = cd.e) (all : Items) (p : Bytes) (v : Value)
    (hnd : (arrayIds all).Nodup) :
    ∀ (is : Items) (avail : List Key) (bs rest : Bytes) (st : DState),
      rtWfItems all is = true → decWfItems avail is = true → CtxHas st avail → CtxGood all p.length v st →
      (∀ t ∈ optItems is, t ∈ optItems all) → (∀ t ∈ arrayItems is, t ∈ arrayItems all) →
      (∀ md ∈ payloadModes is, payloadMode all = some md) →
      encItems ce all (.ok p) p.length v is = .ok bs →
      (greedyItems is = true → rest = []) → (bs ++ rest).length < usizeMax →
      ∃ st', decItems cd is (bs ++ rest) st = .ok (st', rest) ∧ st'.fields = st.fields ++ canonItems is v ∧
        st'.payload = (if is.hasPayload then some p else st.payload)
  | .nil, avail, bs, rest, st, _, _, _, _, _, _, _, he, _, _ => by
    simp only [encItems, Outcome.ok.injEq] at he
    subst he
    exact ⟨st, by simp [decItems], by simp [canonItems], by simp [Items.hasPayload]⟩
  | .cons i r, avail, bs, rest, st, hw, hd, hch, hg, hopt, harr, hpm, he, hgr, hb => by
    simp only [rtWfItems, Bool.and_eq_true] at hw
    obtain ⟨⟨hwi, htail⟩, hwr⟩ := hw
    simp only [decWfItems, Bool.and_eq_true] at hd
    simp only [encItems] at he
    obtain ⟨a, ha, h2⟩ := bind_ok _ _ _ he
    obtain ⟨b, hbr, h3⟩ := bind_ok _ _ _ h2
    simp only [Outcome.ok.injEq] at h3
    subst h3
    have hb' : (a ++ (b ++ rest)).length < usizeMax := by simpa [List.append_assoc] using hb
    -- the item itself
    have hitem : ∃ st1, decItem cd i (a ++ (b ++ rest)) st = .ok (st1, b ++ rest) ∧
        ItemPost all p.length v i p st st1 := by
      cases i with
      | chunk fs =>
        simp only [rtWfItem, Bool.and_eq_true, beq_iff_eq, List.all_eq_true] at hwi
        obtain ⟨st1, q1, q2, q3, q4⟩ := chunk_rt ce cd hce hee all (.ok p) p.length v fs a (b ++ rest) st hwi.1
          (fun f hf => ⟨(hwi.2 f hf).1, Or.inr (hwi.2 f hf).2⟩) ha hg
        exact ⟨st1, q1, q2, by simpa using q3, q4⟩
      | typedef id ty sb =>
        simp only [rtWfItem, Bool.and_eq_true] at hwi
        exact typedef_item_rt ce cd hee all (.ok p) p.length v p id ty sb hwi.2
          (fun nm w h => by subst h; simpa [rtWfTy] using hwi.1)
          (ty_rt ce cd hce hee ty hwi.1) a (b ++ rest) st hb' ha hg
      | optional id ty cid cval =>
        simp only [rtWfItem] at hwi
        simp only [decWfItem, Bool.and_eq_true] at hd
        exact optional_item_rt ce cd hce hee all (.ok p) p.length v p id ty cid cval
          (fun w h => by subst h; simpa [rtWfTy] using hwi)
          (ty_rt ce cd hce hee ty hwi) (hopt _ (by simp [optItems])) a (b ++ rest) st hb' ha hg
          (ctxHas_contains st avail _ hch hd.1.1)
      | payload mode =>
        simp only [decWfItem] at hd
        have hgi : greedyItem (.payload mode) = true → rest = [] := fun h => hgr (by simp [greedyItems, h])
        refine payload_item_rt ce cd all p v mode (hpm mode (by simp [payloadModes])) a (b ++ rest) st ha hg ?_ ?_ ?_ ?_
        · intro m hm
          subst hm
          exact ctxHas_contains st avail _ hch hd.1
        · intro hm
          subst hm
          simp only [tailOk] at htail
          cases r with
          | nil =>
            simp only [encItems, Outcome.ok.injEq] at hbr
            rw [← hbr, hgi rfl]; rfl
          | cons _ _ => simp at htail
        · intro k hm
          subst hm
          simp only [tailOk, Bool.and_eq_true, beq_iff_eq, Bool.not_eq_true'] at htail
          rw [hgi rfl, List.append_nil]
          exact encItems_static ce all (.ok p) p.length v r b k htail.1 hbr
        · intro hm
          subst hm
          simp [tailOk] at htail
      | array id elem ew shape pad =>
        simp only [rtWfItem, Bool.and_eq_true, bne_iff_ne, ne_eq] at hwi
        obtain ⟨⟨⟨hwt, hlw⟩, hidp⟩, hew⟩ := hwi
        simp only [decWfItem, Bool.and_eq_true] at hd
        have hfa := firstArray_of_mem all id elem ew (harr _ (by simp [arrayItems])) hnd
        have hgi : greedyItem (.array id elem ew shape pad) = true → rest = [] := fun h => hgr (by simp [greedyItems, h])
        refine array_item_rt ce cd all (.ok p) p.length v p id elem ew shape pad (ty_rt ce cd hce hee elem hwt)
          (fun x bb hx => encTy_len ce elem x bb hlw hx) ?_ ?_ ?_ hfa hidp a (b ++ rest) st hb' ha hg ?_ ?_ ?_
        · intro w hs
          subst hs
          simp only [Bool.and_eq_true, decide_eq_true_eq, beq_iff_eq] at hew
          exact ⟨hew.1, fun x bb hx => encTy_static ce elem x bb w hew.2 hx⟩
        · intro hs
          subst hs
          cases elem with
          | scalar w => simp at hew
          | enumTy nm en => simp at hew
          | custom nm w => simp at hew
          | struct nm bdy =>
            cases bdy with
            | root nm' items' =>
              simp only [Bool.and_eq_true, decide_eq_true_eq] at hew
              exact fun x bb hx => struct_enc_nonempty ce nm nm' items' hew.1 hew.2 x bb hx
            | derived _ _ _ _ _ => simp at hew
        · intro hs
          subst hs
          simp at hew
        · intro hs
          subst hs
          exact ctxHas_contains st avail _ hch hd.1.2
        · intro hs
          subst hs
          exact ctxHas_contains st avail _ hch hd.1.2
        · intro hs
          subst hs
          cases pad with
          | some q => simp [tailOk] at htail
          | none =>
            simp only [tailOk] at htail
            cases r with
            | nil =>
              simp only [encItems, Outcome.ok.injEq] at hbr
              exact ⟨rfl, by rw [← hbr, hgi rfl]; rfl⟩
            | cons _ _ => simp at htail
    obtain ⟨st1, hdec1, hf1, hp1, hg1⟩ := hitem
    -- the remaining items
    have hch1 : CtxHas st1 (availAfter avail i) := decItem_ctx cd i _ st st1 _ avail hdec1 hch
    have hopt' : ∀ t ∈ optItems r, t ∈ optItems all := by
      intro t ht; apply hopt
      cases i <;> simp [optItems, ht]
    have harr' : ∀ t ∈ arrayItems r, t ∈ arrayItems all := by
      intro t ht; apply harr
      cases i <;> simp [arrayItems, ht]
    have hpm' : ∀ md ∈ payloadModes r, payloadMode all = some md := by
      intro md hmd; apply hpm
      cases i <;> simp [payloadModes, hmd]
    have hgr' : greedyItems r = true → rest = [] := fun h => hgr (by simp [greedyItems, h])
    have hb'' : (b ++ rest).length < usizeMax := by
      simp only [List.length_append] at hb ⊢; omega
    obtain ⟨st', hdec2, hf2, hp2⟩ := items_rt ce cd hce hee all p v hnd r (availAfter avail i) b rest st1
      hwr hd.2 hch1 hg1 hopt' harr' hpm' hbr hgr' hb''
    refine ⟨st', ?_, ?_, ?_⟩
    · simp only [decItems, List.append_assoc, hdec1, Outcome.bind, hdec2]
    · rw [hf2, hf1]; simp [canonItems, List.append_assoc]
    · rw [hp2, hp1]
      cases i <;> first | rfl | simp [Items.hasPayload]
end

/-- **C02, decoder side.**  For every packet or struct without parent whose layout is in the
    round-trippable class (`rtWfBody`: decidable, evaluated by the check on every generated layout),
    both byte orders, the decoder in either mode (the model of the emitted decoder, or the reference
    decoder), every value `v` the reference-mode encoder accepts (= every in-range value) and every
    continuation `rest` of the input (`rest = []` when the layout ends with an item that takes "all
    the rest"): decoding the encoding followed by `rest` returns exactly the value (`canonBody`:
    its fields in declaration order) and `rest` — no bound on array lengths, nesting or sizes other
    than the input being shorter than `usize::MAX`. -/
theorem roundtrip (e : Endian) (m : Mode) (nm : String) (items : Items) (hw : rtWfBody (.root nm items) = true)
    (v : Value) (bs rest : Bytes) (he : encBody { e := e, mode := .ideal } (.root nm items) v = .ok bs)
    (hgr : greedyItems items = true → rest = []) (hb : (bs ++ rest).length < usizeMax) :
    decBody { e := e, mode := m } (.root nm items) (bs ++ rest) = .ok (canonBody (.root nm items) v, rest) := by
  simp only [rtWfBody, Bool.and_eq_true, decide_eq_true_eq] at hw
  obtain ⟨⟨⟨hwi, hdi⟩, hnd⟩, hpm⟩ := hw
  simp only [encBody] at he
  simp only [decBody, canonBody]
  split at he
  · cases he
  · rename_i p hp
    obtain ⟨st', h1, h2, h3⟩ := items_rt { e := e, mode := .ideal } { e := e, mode := m } rfl rfl items p v hnd items []
      bs rest DState.empty hwi hdi (by intro k hk; simp at hk) (by intro k y hk; simp [DState.empty, Ctx.get] at hk)
      (fun t ht => ht) (fun t ht => ht) (payloadMode_of_modes items hpm) he hgr hb
    rw [h1]
    simp only [Outcome.bind, h2, h3, DState.empty, List.nil_append]
    by_cases hh : items.hasPayload = true
    · simp only [hh, ↓reduceIte] at hp ⊢
      simp only [payloadBytes, hp, Option.getD_some]
    · have hh' : items.hasPayload = false := by simpa using hh
      simp only [hh', Bool.false_eq_true, ↓reduceIte]

/-- `decode_full ∘ encode` is the identity (up to the normal form of the value) -/
theorem roundtrip_full (e : Endian) (m : Mode) (nm : String) (items : Items) (hw : rtWfBody (.root nm items) = true)
    (v : Value) (bs : Bytes) (he : encBody { e := e, mode := .ideal } (.root nm items) v = .ok bs)
    (hb : bs.length < usizeMax) :
    decodeFull { e := e, mode := m } (.root nm items) bs = .ok (canonBody (.root nm items) v) := by
  have := roundtrip e m nm items hw v bs [] he (fun _ => rfl) (by simpa using hb)
  simp only [List.append_nil] at this
  simp [decodeFull, this, Outcome.bind]

/-- **C02.**  The model of the *emitted* encoder followed by the model of the *emitted* decoder: for
    every in-range value the emitted `encode_to_vec` succeeds with the reference bytes and the emitted
    `decode_full` of those bytes is the value. -/
theorem roundtrip_rust (e : Endian) (nm : String) (items : Items) (hw : rtWfBody (.root nm items) = true)
    (hn : noModBody (.root nm items) = true) (v : Value) (bs : Bytes)
    (he : encBody { e := e, mode := .ideal } (.root nm items) v = .ok bs) (hb : bs.length < usizeMax) :
    encBody { e := e, mode := .rust } (.root nm items) v = .ok bs ∧
    decodeFull { e := e, mode := .rust } (.root nm items) bs = .ok (canonBody (.root nm items) v) :=
  ⟨encBody_ideal_to_rust e _ v bs hn he, roundtrip_full e .rust nm items hw v bs he hb⟩

/-- a value that is already in normal form comes back unchanged -/
theorem roundtrip_id (e : Endian) (m : Mode) (nm : String) (items : Items) (hw : rtWfBody (.root nm items) = true)
    (v : Value) (hv : canonBody (.root nm items) v = v) (bs : Bytes)
    (he : encBody { e := e, mode := .ideal } (.root nm items) v = .ok bs) (hb : bs.length < usizeMax) :
    decodeFull { e := e, mode := m } (.root nm items) bs = .ok v := by
  rw [roundtrip_full e m nm items hw v bs he hb, hv]

/-! non-vacuity: `packet P { _count_(x): 8, c: 1, _reserved_: 7, x: 16[], o: 8 if c = 1, _payload_ }`
    is in the round-trippable class -/
example : rtWfBody (.root "P" (.cons (.chunk [.count "x" 8, .flag "c" [("o", 1)], .reserved 7])
    (.cons (.array "x" (.scalar 16) (.static 2) .countField none)
    (.cons (.optional "o" (.scalar 8) "c" 1) (.cons (.payload .last) .nil))))) = true := by
  simp [rtWfBody, rtWfItems, rtWfItem, rtWfTy, tailOk, decWfItems, decWfItem, decWfTy, availAfter, chunkKeys,
    staticTy, lenWfTy, arrayIds, payloadModes, chunkBits, BitField.width, bfRtOk, bfNoArrayMod, optItems,
    firstArray, Ty.selfGuarded, greedyItems, greedyItem]

/-! ### through the ancestors: inheriting packets at any depth -/

theorem lookup_map_int (k : String) : ∀ (l : List (String × Nat)),
    (l.map fun (k, c) => (k, Value.int c)).lookup k = (l.lookup k).map Value.int
  | [] => rfl
  | (a, c) :: l => by
    by_cases h : k = a
    · subst h; simp [List.lookup]
    · have hb : (k == a) = false := by simpa using h
      simp only [List.map_cons, List.lookup, hb]
      exact lookup_map_int k l

theorem lookup_mem {β : Type} (k : String) (x : β) : ∀ (l : List (String × β)), l.lookup k = some x → (k, x) ∈ l
  | [], h => by simp at h
  | (a, c) :: l, h => by
    by_cases hk : k = a
    · subst hk
      simp only [List.lookup, beq_self_eq_true, Option.some.injEq] at h
      subst h; simp
    · have hb : (k == a) = false := by simpa using hk
      simp only [List.lookup, hb] at h
      exact List.mem_cons_of_mem _ (lookup_mem k x l h)

/-- the value an inheriting packet is serialized from carries the constant for every constrained field -/
theorem withConstants_get (allCs : List (String × Nat)) (v : Value) (k : String) (cv : Nat)
    (hn : noConstrained allCs v = true) (hl : allCs.lookup k = some cv) :
    (withConstants allCs v).get? k = some (.int cv) := by
  simp only [noConstrained, List.all_eq_true, Option.isNone_iff_eq_none] at hn
  have h0 := hn (k, cv) (lookup_mem k cv allCs hl)
  simp only [Value.get?] at h0
  simp only [withConstants, Value.get?]
  show List.lookup k (v.fields ++ _) = _
  rw [List.lookup_append, h0, lookup_map_int, hl]; rfl

theorem hasPayload_modes_pos : ∀ (is : Items), is.hasPayload = true → 0 < (payloadModes is).length
  | .nil, h => by simp [Items.hasPayload] at h
  | .cons i r, h => by
    cases i with
    | payload m => simp [payloadModes]
    | chunk fs => simpa [payloadModes] using hasPayload_modes_pos r (by simpa [Items.hasPayload] using h)
    | array a b c d e => simpa [payloadModes] using hasPayload_modes_pos r (by simpa [Items.hasPayload] using h)
    | typedef a b c => simpa [payloadModes] using hasPayload_modes_pos r (by simpa [Items.hasPayload] using h)
    | optional a b c d => simpa [payloadModes] using hasPayload_modes_pos r (by simpa [Items.hasPayload] using h)

theorem lenItemsNoPayload_eq (v : Value) : ∀ (is : Items), is.hasPayload = false → lenItemsNoPayload is v = lenItems is v
  | .nil, _ => by simp [lenItemsNoPayload, lenItems]
  | .cons i r, h => by
    cases i with
    | payload _ => simp [Items.hasPayload] at h
    | chunk fs => simp only [Items.hasPayload] at h; simp [lenItemsNoPayload, lenItems, lenItemsNoPayload_eq v r h]
    | array a b c d e => simp only [Items.hasPayload] at h; simp [lenItemsNoPayload, lenItems, lenItemsNoPayload_eq v r h]
    | typedef a b c => simp only [Items.hasPayload] at h; simp [lenItemsNoPayload, lenItems, lenItemsNoPayload_eq v r h]
    | optional a b c d => simp only [Items.hasPayload] at h; simp [lenItemsNoPayload, lenItems, lenItemsNoPayload_eq v r h]

theorem lenItemsP_split (v : Value) (n : Nat) : ∀ (is : Items), is.hasPayload = true →
    (payloadModes is).length ≤ 1 → lenItemsP is v n = lenItemsNoPayload is v + n
  | .nil, h, _ => by simp [Items.hasPayload] at h
  | .cons i r, h, hl => by
    cases i with
    | payload m =>
      simp only [payloadModes, List.length_cons] at hl
      have hr : r.hasPayload = false := by
        cases hh : r.hasPayload with
        | false => rfl
        | true => have := hasPayload_modes_pos r hh; omega
      have h1 := lenItemsP_noPayload v n r hr
      simp only [lenItemsP, lenItemsNoPayload, h1, lenItemsNoPayload_eq v r hr]; omega
    | chunk fs =>
      have := lenItemsP_split v n r (by simpa [Items.hasPayload] using h) (by simpa [payloadModes] using hl)
      simp only [lenItemsP, lenItemsNoPayload, this]; omega
    | array a b c d e =>
      have := lenItemsP_split v n r (by simpa [Items.hasPayload] using h) (by simpa [payloadModes] using hl)
      simp only [lenItemsP, lenItemsNoPayload, this]; omega
    | typedef a b c =>
      have := lenItemsP_split v n r (by simpa [Items.hasPayload] using h) (by simpa [payloadModes] using hl)
      simp only [lenItemsP, lenItemsNoPayload, this]; omega
    | optional a b c d =>
      have := lenItemsP_split v n r (by simpa [Items.hasPayload] using h) (by simpa [payloadModes] using hl)
      simp only [lenItemsP, lenItemsNoPayload, this]; omega

theorem le_lenItemsP (v : Value) (n : Nat) : ∀ (is : Items), is.hasPayload = true → n ≤ lenItemsP is v n
  | .nil, h => by simp [Items.hasPayload] at h
  | .cons i r, h => by
    cases i with
    | payload m => simp only [lenItemsP]; omega
    | chunk fs => have := le_lenItemsP v n r (by simpa [Items.hasPayload] using h); simp only [lenItemsP]; omega
    | array a b c d e => have := le_lenItemsP v n r (by simpa [Items.hasPayload] using h); simp only [lenItemsP]; omega
    | typedef a b c => have := le_lenItemsP v n r (by simpa [Items.hasPayload] using h); simp only [lenItemsP]; omega
    | optional a b c d => have := le_lenItemsP v n r (by simpa [Items.hasPayload] using h); simp only [lenItemsP]; omega

/-- **one level of `decode_partial`**: when the parent decodes to the fields `F` and a payload that is the
    reference encoding of this level's items, the child decodes to its own fields, the parent's
    unconstrained fields and its own payload -/
theorem level_step (ce cd : Cfg) (hce : ce.mode = .ideal) (hee : ce.e = cd.e)
    (nm : String) (gp : Body) (cs allCs : List (String × Nat)) (items : Items) (v : Value)
    (hw : rtWfLevel items = true) (input rest : Bytes) (F : List (String × Value)) (mb p : Bytes)
    (hgp : decBody cd gp input = .ok (.obj (F ++ [("payload", Value.ofBytes mb)]), rest))
    (hgpPay : gp.hasPayload = true) (hFp : F.lookup "payload" = none)
    (hcs : ∀ kc ∈ cs, parentField gp (.obj (F ++ [("payload", Value.ofBytes mb)])) kc.1 = some kc.2)
    (he : encItems ce items (.ok p) p.length v items = .ok mb) (hb : mb.length < usizeMax) :
    decBody cd (.derived nm gp cs allCs items) input =
      .ok (.obj (canonItems items v ++ (F.filter fun (k, _) => k != "payload" && !(cs.any (·.1 == k))) ++
        (if items.hasPayload then [("payload", Value.ofBytes p)] else [])), rest) := by
  simp only [rtWfLevel, Bool.and_eq_true, decide_eq_true_eq] at hw
  obtain ⟨⟨⟨⟨hwi, hdi⟩, hnd⟩, hpm⟩, _⟩ := hw
  obtain ⟨st', h1, h2, h3⟩ := items_rt ce cd hce hee items p v hnd items [] mb [] DState.empty hwi hdi
    (by intro k hk; simp at hk) (by intro k y hk; simp [DState.empty, Ctx.get] at hk)
    (fun t ht => ht) (fun t ht => ht) (payloadMode_of_modes items hpm) he (fun _ => rfl) (by simpa using hb)
  simp only [List.append_nil] at h1
  simp only [Value.ofBytes] at hgp hcs ⊢
  have hviol : violated gp (.obj (F ++ [("payload", Value.arr (mb.map fun b => Value.int b.toNat))])) cs = false := by
    simp only [violated, List.any_eq_false, bne_iff_ne, ne_eq, Decidable.not_not]
    intro x hx; exact hcs x hx
  have hlk : (F ++ [("payload", Value.arr (mb.map fun b => Value.int b.toNat))]).lookup "payload" =
      some (Value.arr (mb.map fun b => Value.int b.toNat)) := by
    rw [List.lookup_append, hFp]; rfl
  have hfilt : ((F ++ [("payload", Value.arr (mb.map fun b => Value.int b.toNat))]).filter
        fun (k, _) => k != "payload" && !(cs.any (·.1 == k))) =
      F.filter fun (k, _) => k != "payload" && !(cs.any (·.1 == k)) := by
    rw [List.filter_append]; simp
  simp only [DState.empty, List.nil_append] at h2 h3
  simp only [decBody, hgp, Outcome.bind, decPartialWith, Value.fields, hviol, Bool.false_eq_true, ↓reduceIte, hgpPay,
    hlk, ofBytes_back, h1, List.isEmpty_nil, h2, h3, hfilt]
  by_cases hh : items.hasPayload = true
  · simp [hh, Value.ofBytes]
  · have hh' : items.hasPayload = false := by simpa using hh
    simp [hh']

theorem chain_lenWf (leafCs : List (String × Nat)) : ∀ (b : Body), rtWfChain leafCs b = true →
    lenWfBody b = true ∧ b.hasPayload = true ∧ bodyFind b "payload" = none
  | .root _ items, h => by
    simp only [rtWfChain, rtWfLevel, Bool.and_eq_true, beq_iff_eq] at h
    exact ⟨by simpa [lenWfBody] using h.1.1.2, by simpa [Body.hasPayload, Body.items] using h.1.2,
      by simpa [bodyFind] using h.2⟩
  | .derived _ gp _ _ items, h => by
    simp only [rtWfChain, rtWfLevel, Bool.and_eq_true, beq_iff_eq] at h
    obtain ⟨h1, h2, _⟩ := chain_lenWf leafCs gp h.2
    exact ⟨by simp [lenWfBody, h.1.1.1.1.2, h1, h2], by simpa [Body.hasPayload, Body.items] using h.1.1.1.2, h.1.1.2⟩

theorem le_aroundLen (leafCs : List (String × Nat)) (v : Value) : ∀ (b : Body) (n : Nat), rtWfChain leafCs b = true →
    n ≤ aroundLen b v n
  | .root _ items, n, h => by
    simp only [rtWfChain, Bool.and_eq_true] at h
    simpa [aroundLen] using le_lenItemsP v n items h.1.2
  | .derived _ gp _ _ items, n, h => by
    simp only [rtWfChain, Bool.and_eq_true] at h
    have h1 := le_lenItemsP v n items h.1.1.1.2
    have h2 := le_aroundLen leafCs v gp (lenItemsP items v n) h.2
    simp only [aroundLen]; omega

/-- a constraint of the class holds of the parent value the decoder builds -/
theorem constraint_holds (leafCs : List (String × Nat)) (v : Value)
    (hv : ∀ k cv, leafCs.lookup k = some cv → v.get? k = some (.int cv)) (gp : Body) (x : Value)
    (kc : String × Nat) (hk : constraintOk leafCs gp kc = true) :
    parentField gp (.obj (fieldsAround gp v ++ [("payload", x)])) kc.1 = some kc.2 := by
  simp only [constraintOk, Bool.and_eq_true, beq_iff_eq, bne_iff_ne, ne_eq, Bool.or_eq_true] at hk
  obtain ⟨⟨hl, hnp⟩, hf⟩ := hk
  have hval := hv kc.1 kc.2 hl
  have hfs := fieldsAround_find v kc.1 gp
  simp only [parentField, Value.fields]
  cases hf with
  | inl ht =>
    rw [List.lookup_append, hfs.2 ht, hval]; rfl
  | inr hn =>
    have hb : (kc.1 == "payload") = false := by simpa using hnp
    rw [List.lookup_append, hfs.1 hn.1]
    simp only [Option.none_or, List.lookup, hb]
    cases gp with
    | root _ _ => simp [Body.allCs] at hn
    | derived _ _ _ a _ => simpa [Body.allCs] using hn.2

/-- **the ancestors, outermost first**: decoding what the reference-mode encoder wrapped around the inner
    octets `ib` yields, at every ancestor, that ancestor's fields and `ib` as its payload -/
theorem around_rt (ce cd : Cfg) (hce : ce.mode = .ideal) (hee : ce.e = cd.e) (leafCs : List (String × Nat)) (v : Value)
    (hv : ∀ k cv, leafCs.lookup k = some cv → v.get? k = some (.int cv)) :
    ∀ (b : Body), rtWfChain leafCs b = true → ∀ (ib bs rest : Bytes),
      encAround ce b v (.ok ib) ib.length = .ok bs → (greedyBody b = true → rest = []) →
      (bs ++ rest).length < usizeMax →
      decBody cd b (bs ++ rest) = .ok (.obj (fieldsAround b v ++ [("payload", Value.ofBytes ib)]), rest)
  | .root nm items, hw, ib, bs, rest, he, hgr, hb => by
    simp only [rtWfChain, rtWfLevel, Bool.and_eq_true, decide_eq_true_eq] at hw
    obtain ⟨⟨⟨⟨⟨⟨hwi, hdi⟩, hnd⟩, hpm⟩, _⟩, hpay⟩, _⟩ := hw
    simp only [encAround] at he
    obtain ⟨st', h1, h2, h3⟩ := items_rt ce cd hce hee items ib v hnd items [] bs rest DState.empty hwi hdi
      (by intro k hk; simp at hk) (by intro k y hk; simp [DState.empty, Ctx.get] at hk)
      (fun t ht => ht) (fun t ht => ht) (payloadMode_of_modes items hpm) he hgr hb
    simp only [DState.empty, List.nil_append, hpay, ↓reduceIte] at h2 h3
    simp only [decBody, h1, Outcome.bind, h2, h3, fieldsAround]
  | .derived nm gp cs a items, hw, ib, bs, rest, he, hgr, hb => by
    simp only [rtWfChain, Bool.and_eq_true, beq_iff_eq, List.all_eq_true] at hw
    obtain ⟨⟨⟨⟨hlev, hpay⟩, hnop⟩, hcs⟩, hch⟩ := hw
    have hlev' := hlev
    simp only [rtWfLevel, Bool.and_eq_true, decide_eq_true_eq] at hlev'
    obtain ⟨⟨⟨⟨_, _⟩, _⟩, hpm⟩, hlw⟩ := hlev'
    simp only [encAround] at he
    obtain ⟨hgl, hgpay, hgnop⟩ := chain_lenWf leafCs gp hch
    obtain ⟨mb, hmb, hlen⟩ := encAround_len ce gp v _ _ bs hgl hgpay he
    have hmbl := encItems_len ce items ib ib.length v items mb hlw hmb
    have hsplit := lenItemsP_split v ib.length items hpay hpm
    have he' : encAround ce gp v (.ok mb) mb.length = .ok bs := by
      rw [hmb] at he; rw [hmbl, hsplit]; exact he
    have hgr' : greedyBody gp = true → rest = [] := by simpa [greedyBody] using hgr
    have ih := around_rt ce cd hce hee leafCs v hv gp hch mb bs rest he' hgr' hb
    have hmble : mb.length < usizeMax := by
      have := le_aroundLen leafCs v gp mb.length hch
      simp only [List.length_append] at hb; omega
    have hstep := level_step ce cd hce hee nm gp cs a items v hlev (bs ++ rest) rest (fieldsAround gp v) mb ib ih hgpay
      ((fieldsAround_find v "payload" gp).1 hgnop)
      (fun kc hkc => constraint_holds leafCs v hv gp _ kc (hcs kc hkc)) hmb hmble
    rw [hstep]
    simp only [hpay, ↓reduceIte, fieldsAround, List.append_assoc]

/-- **C02 through the ancestors.**  For every inheriting packet, at any depth, whose levels are in the
    round-trippable class and whose constraints name scalar / enum fields of an ancestor (`rtWfFull`:
    decidable, evaluated by the check on every generated layout), both byte orders, the decoder in either
    mode, every value the reference-mode encoder accepts: `decode` — which parses the outermost ancestor,
    then checks the constraints and parses the payload level by level (`decode_partial`) — returns the
    value (own fields, then the inherited unconstrained fields, then the payload) and the rest. -/
theorem roundtrip_inherit (e : Endian) (m : Mode) (nm : String) (parent : Body) (cs allCs : List (String × Nat))
    (items : Items) (hw : rtWfFull (.derived nm parent cs allCs items) = true) (v : Value)
    (hv : noConstrained allCs v = true) (bs rest : Bytes)
    (he : encBody { e := e, mode := .ideal } (.derived nm parent cs allCs items) v = .ok bs)
    (hgr : greedyBody parent = true → rest = []) (hb : (bs ++ rest).length < usizeMax) :
    decBody { e := e, mode := m } (.derived nm parent cs allCs items) (bs ++ rest) =
      .ok (canonFull (.derived nm parent cs allCs items) v, rest) := by
  simp only [rtWfFull, Bool.and_eq_true, List.all_eq_true] at hw
  obtain ⟨⟨hlev, hcs⟩, hch⟩ := hw
  have hlev' := hlev
  simp only [rtWfLevel, Bool.and_eq_true, decide_eq_true_eq] at hlev'
  obtain ⟨_, hlw⟩ := hlev'
  obtain ⟨hgl, hgpay, hgnop⟩ := chain_lenWf allCs parent hch
  simp only [encBody] at he
  split at he
  · cases he
  · rename_i p hp
    have hv' : ∀ k cv, allCs.lookup k = some cv → (withConstants allCs v).get? k = some (.int cv) :=
      fun k cv h => withConstants_get allCs v k cv hv h
    obtain ⟨ib, hib, hlen⟩ := encAround_len { e := e, mode := .ideal } parent (withConstants allCs v) _ _ bs hgl hgpay he
    have h1 := encItems_len { e := e, mode := .ideal } items p p.length (withConstants allCs v) items ib hlw hib
    have hown : lenItems items (withConstants allCs v) = ib.length := by
      rw [h1]
      by_cases hpay : items.hasPayload = true
      · simp only [hpay, ↓reduceIte] at hp
        cases hg : v.get? "payload" with
        | none => simp [hg] at hp
        | some pv =>
          simp only [hg, Option.bind_some] at hp
          have hg' : (withConstants allCs v).get? "payload" = some pv := by
            simp only [withConstants, Value.get?] at hg ⊢
            show List.lookup "payload" (v.fields ++ _) = _
            rw [List.lookup_append, hg]; rfl
          rw [valBytes_length pv p hp, ← hg']
          exact (lenItemsP_payloadLen _ items).symm
      · have hpay' : items.hasPayload = false := by simpa using hpay
        exact (lenItemsP_noPayload _ p.length items hpay').symm
    have he' : encAround { e := e, mode := .ideal } parent (withConstants allCs v) (.ok ib) ib.length = .ok bs := by
      change encAround _ parent (withConstants allCs v) _ (lenItems items (withConstants allCs v)) = _ at he
      rw [hib, hown] at he; exact he
    have hpar := around_rt { e := e, mode := .ideal } { e := e, mode := m } rfl rfl allCs (withConstants allCs v) hv'
      parent hch ib bs rest he' hgr hb
    have hible : ib.length < usizeMax := by
      have := le_aroundLen allCs (withConstants allCs v) parent ib.length hch
      simp only [List.length_append] at hb; omega
    have hstep := level_step { e := e, mode := .ideal } { e := e, mode := m } rfl rfl nm parent cs allCs items
      (withConstants allCs v) hlev (bs ++ rest) rest (fieldsAround parent (withConstants allCs v)) ib p hpar hgpay
      ((fieldsAround_find _ "payload" parent).1 hgnop)
      (fun kc hkc => constraint_holds allCs _ hv' parent _ kc (hcs kc hkc)) hib hible
    rw [hstep]
    simp only [canonFull, fieldsAround]
    by_cases hpay : items.hasPayload = true
    · simp only [hpay, ↓reduceIte] at hp ⊢
      simp only [payloadBytes, hp, Option.getD_some]
    · have hpay' : items.hasPayload = false := by simpa using hpay
      simp only [hpay', Bool.false_eq_true, ↓reduceIte]

/-- `decode_full ∘ encode` is the identity for inheriting packets -/
theorem roundtrip_inherit_full (e : Endian) (m : Mode) (nm : String) (parent : Body) (cs allCs : List (String × Nat))
    (items : Items) (hw : rtWfFull (.derived nm parent cs allCs items) = true) (v : Value)
    (hv : noConstrained allCs v = true) (bs : Bytes)
    (he : encBody { e := e, mode := .ideal } (.derived nm parent cs allCs items) v = .ok bs) (hb : bs.length < usizeMax) :
    decodeFull { e := e, mode := m } (.derived nm parent cs allCs items) bs =
      .ok (canonFull (.derived nm parent cs allCs items) v) := by
  have := roundtrip_inherit e m nm parent cs allCs items hw v hv bs [] he (fun _ => rfl) (by simpa using hb)
  simp only [List.append_nil] at this
  simp [decodeFull, this, Outcome.bind]

/-- **C02, any body**: packets and structs without parent and inheriting packets alike -/
theorem roundtrip_any (e : Endian) (m : Mode) (b : Body) (hw : rtWfFull b = true) (v : Value)
    (hv : noConstrained b.allCs v = true) (bs : Bytes)
    (he : encBody { e := e, mode := .ideal } b v = .ok bs) (hb : bs.length < usizeMax) :
    decodeFull { e := e, mode := m } b bs = .ok (canonFull b v) := by
  cases b with
  | root nm items => exact roundtrip_full e m nm items (by simpa [rtWfFull] using hw) v bs he hb
  | derived nm parent cs allCs items => exact roundtrip_inherit_full e m nm parent cs allCs items hw v hv bs he hb

/-- **"decoded as any ancestor and specialized back down"**: the same bytes decoded as the direct parent
    give the parent's fields and the child's octets as payload, and `Child::try_from(&parent)`
    (`decode_partial`) applied to that value is the child's value again -/
theorem roundtrip_via_parent (e : Endian) (m : Mode) (nm : String) (parent : Body) (cs allCs : List (String × Nat))
    (items : Items) (hw : rtWfFull (.derived nm parent cs allCs items) = true) (v : Value)
    (hv : noConstrained allCs v = true) (bs : Bytes)
    (he : encBody { e := e, mode := .ideal } (.derived nm parent cs allCs items) v = .ok bs) (hb : bs.length < usizeMax) :
    ∃ pv, decBody { e := e, mode := m } parent bs = .ok (pv, []) ∧
      decPartial { e := e, mode := m } parent cs items pv = .ok (canonFull (.derived nm parent cs allCs items) v) := by
  have h := roundtrip_inherit e m nm parent cs allCs items hw v hv bs [] he (fun _ => rfl) (by simpa using hb)
  simp only [List.append_nil, decBody] at h
  obtain ⟨⟨pv, r⟩, hp, h2⟩ := bind_ok _ _ _ h
  obtain ⟨cv, hc, h3⟩ := bind_ok _ _ _ h2
  simp only [Outcome.ok.injEq, Prod.mk.injEq] at h3
  obtain ⟨rfl, rfl⟩ := h3
  exact ⟨pv, hp, hc⟩

/-! non-vacuity: `packet P { k: 8, x: 8, _payload_ }`, `packet C : P (k = 3) { y: 16 }` is in the class, and the
    statement's premises hold of the value `{ x: 7, y: 513 }`, whose encoding is `03 07 01 02` -/
example :
    let P : Body := .root "P" (.cons (.chunk [.scalar "k" 8, .scalar "x" 8]) (.cons (.payload .last) .nil))
    let C : Body := .derived "C" P [("k", 3)] [("k", 3)] (.cons (.chunk [.scalar "y" 16]) .nil)
    let v : Value := .obj [("x", .int 7), ("y", .int 513)]
    rtWfFull C = true ∧ noConstrained [("k", 3)] v = true ∧
    encBody { e := .little, mode := .ideal } C v = .ok [3, 7, 1, 2] := by
  refine ⟨by decide, by decide, by rfl⟩

end Pdlv
