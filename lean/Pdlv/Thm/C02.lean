/-
  C02 — Rust encode then decode is the identity on every well-formed value.

  The round trip of the models (`Pdlv.encBody` then `Pdlv.decBody`) is established here for the
  building blocks every packet is made of; the whole-packet statement for arbitrary
  descriptions is carried by the correspondence check (`bin/check C02`) and stated below as
  `roundtrip_statement` (open: not yet proved for all item kinds — see evidence `level_note`).
-/
import Pdlv.Wire
import Pdlv.Lemmas.Bits
import Pdlv.Lemmas.Enc
import Pdlv.Lemmas.RoundTrip
import Pdlv.Thm.C03

namespace Pdlv

/-- **bit-field groups round-trip for every list of widths**: extracting
    `(chunk >> shift) & mask(w)` at running shifts from the packed group returns every field -/
theorem chunk_fields_roundtrip (fs : List (Nat × Nat)) (h : InRange fs) :
    unpack (fs.map (·.1)) (pack fs) = fs.map (·.2) := unpack_pack fs h

/-- scalar array elements / optional scalars / sized custom fields: one element round-trips,
    leaving the rest of the input untouched (the strong form needed inside arrays) -/
theorem scalar_elem_roundtrip (c : Cfg) (k v : Nat) (rest : Bytes) (hv : v < 2 ^ (8 * k)) (hk : 8 * k ≤ 64)
    (hb : v < 2 ^ backingOf (8 * k)) :
    ∃ bs, encTy c (.scalar (8 * k)) (.int v) = .ok bs ∧
      decTy c (.scalar (8 * k)) (bs ++ rest) = .ok (.int v, rest) := by
  refine ⟨putUint c.e (8 * k) v, ?_, ?_⟩
  · simp only [encTy]
    have h1 : ¬ v ≥ 2 ^ backingOf (8 * k) := by omega
    have h2 : v ≤ maskBits (8 * k) := by unfold maskBits; omega
    have h3 : elemOutOfRange c.mode (8 * k) v = false := by
      unfold elemOutOfRange; cases c.mode <;> simp; omega
    simp [h1, h3]
  · simp only [decTy, Outcome.bind, getUint_putUint c.e k v rest hv]

/-- a run of scalar elements round-trips: `for elem in &self.x { put(elem) }` then
    `for _ in 0..n { get() }` -/
theorem scalar_array_roundtrip (c : Cfg) (k : Nat) (hk : 8 * k ≤ 64) :
    ∀ (vs : List Nat) (rest : Bytes),
      (∀ v ∈ vs, v < 2 ^ (8 * k) ∧ v < 2 ^ backingOf (8 * k)) →
      ∃ bs, encListWith (encTy c (.scalar (8 * k))) (vs.map Value.int) = .ok bs ∧
        decRepeat (decTy c (.scalar (8 * k))) vs.length (bs ++ rest) = .ok (vs.map Value.int, rest) := by
  intro vs
  induction vs with
  | nil => intro rest _; exact ⟨[], by simp [encListWith], by simp [decRepeat]⟩
  | cons v vs ih =>
    intro rest hall
    have hv := hall v (by simp)
    obtain ⟨b, hb1, hb2⟩ := ih rest (fun x hx => hall x (by simp [hx]))
    obtain ⟨a', ha1', ha2'⟩ := scalar_elem_roundtrip c k v (b ++ rest) hv.1 hk hv.2
    refine ⟨a' ++ b, ?_, ?_⟩
    · simp [encListWith, Outcome.bind, ha1', hb1]
    · simp only [List.length_cons, decRepeat, Outcome.bind, List.append_assoc, ha2', hb2, List.map_cons]

/-- The whole-packet statement (for reference; the correspondence check decides it per run). -/
def roundtrip_statement (c : Cfg) (b : Body) (v : Value) : Prop :=
  ∀ bs, encBody c b v = .ok bs → decodeFull c b bs = .ok v

/-- non-vacuity: a concrete packet `{ a: 3, b: 5 }` round-trips in the model (big-endian) -/
example :
    let b : Body := .root "P" (.cons (.chunk [.scalar "a" 3, .scalar "b" 5]) .nil)
    let c : Cfg := { e := .big }
    encBody c b (.obj [("a", .int 5), ("b", .int 17)]) = .ok [0x8d] ∧
    ((decodeFull c b [0x8d]).bind fun v =>
      .ok (v.get? "a" |>.bind Value.asNat?, v.get? "b" |>.bind Value.asNat?)) = .ok (some 5, some 17) := by
  constructor <;> rfl

/-! ### whole packets -/

theorem payloadMode_of_modes : ∀ (is : Items), (payloadModes is).length ≤ 1 →
    ∀ md ∈ payloadModes is, payloadMode is = some md
  | .nil, _, md, h => by simp [payloadModes] at h
  | .cons i r, hl, md, h => by
    cases i with
    | payload m =>
      simp only [payloadModes, List.length_cons] at hl
      have : payloadModes r = [] := by
        cases hr : payloadModes r with
        | nil => rfl
        | cons _ _ => simp [hr] at hl
      simp only [payloadModes, this, List.mem_singleton] at h
      simp [payloadMode, h]
    | chunk fs => simp only [payloadModes] at hl h; simp only [payloadMode]; exact payloadMode_of_modes r hl md h
    | array id elem ew shape pad => simp only [payloadModes] at hl h; simp only [payloadMode]; exact payloadMode_of_modes r hl md h
    | typedef id ty sb => simp only [payloadModes] at hl h; simp only [payloadMode]; exact payloadMode_of_modes r hl md h
    | optional id ty ci cv => simp only [payloadModes] at hl h; simp only [payloadMode]; exact payloadMode_of_modes r hl md h

/-- a struct with at least one mandatory octet never encodes to nothing -/
theorem struct_enc_nonempty (ce : Cfg) (nm nm' : String) (items : Items) (hmin : 0 < minEnc items)
    (hl : lenWfItems items = true) (x : Value) (b : Bytes)
    (he : encTy ce (.struct nm (.root nm' items)) x = .ok b) : b ≠ [] := by
  simp only [encTy, encBody] at he
  split at he
  · cases he
  · rename_i p hp
    have h1 := encItems_len ce items p p.length x items b hl he
    have h2 := minEnc_le_lenItemsP x p.length items
    intro hb
    rw [hb] at h1
    simp at h1
    omega

mutual
/-- field and element types: the decoder inverts the encoder and leaves what follows untouched -/
theorem ty_rt (ce cd : Cfg) (hce : ce.mode = .ideal) (hee : ce.e = cd.e) : ∀ (ty : Ty), rtWfTy ty = true →
    ElemRT (encTy ce ty) (decTy cd ty) (canonTy ty)
  | .scalar w, hw => by
    intro x bs rest hb he
    have := scalar_rt ce cd hce hee w (by simpa [rtWfTy] using hw) x bs rest hb he
    simpa [canonTy] using this
  | .enumTy nm en, hw => by
    intro x bs rest hb he
    have := enum_rt ce cd hee nm en (by simpa [rtWfTy] using hw) x bs rest hb he
    simpa [canonTy] using this
  | .custom nm w, hw => by
    intro x bs rest hb he
    have := custom_rt ce cd hee nm w (by simpa [rtWfTy] using hw) x bs rest hb he
    simpa [canonTy] using this
  | .struct _ (.root nm items), hw => by
    intro x bs rest hb he
    simp only [rtWfTy, Bool.and_eq_true, decide_eq_true_eq, Bool.not_eq_true'] at hw
    obtain ⟨⟨⟨⟨hwi, hdi⟩, hnd⟩, hng⟩, hpm⟩ := hw
    simp only [encTy, encBody] at he
    simp only [decTy, decBody, canonTy, canonBody]
    split at he
    · cases he
    · rename_i p hp
      obtain ⟨st', h1, h2, h3⟩ := items_rt ce cd hce hee items p x hnd items [] bs rest DState.empty hwi hdi
        (by intro k hk; simp at hk) (by intro k y hk; simp [DState.empty, Ctx.get] at hk)
        (fun t ht => ht) (fun t ht => ht) (payloadMode_of_modes items hpm) he
        (by intro hg; rw [hng] at hg; cases hg) hb
      rw [h1]
      simp only [Outcome.bind, h2, h3, DState.empty, List.nil_append]
      by_cases hh : items.hasPayload = true
      · simp only [hh, ↓reduceIte] at hp ⊢
        simp only [payloadBytes, hp, Option.getD_some]
      · have hh' : items.hasPayload = false := by simpa using hh
        simp only [hh', Bool.false_eq_true, ↓reduceIte]
  | .struct _ (.derived ..), hw => by simp [rtWfTy] at hw

/-- **the field list, in lock step**: decoding what the reference-mode encoder wrote for the items
    `is` (a suffix of the field list `all`), from a decoder state that knows what the earlier items
    bound, consumes exactly those octets and appends exactly the items' fields -/
theorem items_rt (ce cd : Cfg) (hce : ce.mode = .ideal) (hee : ce.e = cd.e) (all : Items) (p : Bytes) (v : Value)
    (hnd : (arrayIds all).Nodup) :
    ∀ (is : Items) (avail : List Key) (bs rest : Bytes) (st : DState),
      rtWfItems all is = true → decWfItems avail is = true → CtxHas st avail → CtxGood all p.length v st →
      (∀ t ∈ optItems is, t ∈ optItems all) → (∀ t ∈ arrayItems is, t ∈ arrayItems all) →
      (∀ md ∈ payloadModes is, payloadMode all = some md) →
      encItems ce all (.ok p) p.length v is = .ok bs →
      (greedyItems is = true → rest = []) → (bs ++ rest).length < usizeMax →
      ∃ st', decItems cd is (bs ++ rest) st = .ok (st', rest) ∧ st'.fields = st.fields ++ canonItems is v ∧
        st'.payload = (if is.hasPayload then some p else st.payload)
  | .nil, avail, bs, rest, st, _, _, _, _, _, _, _, he, _, _ => by
    simp only [encItems, Outcome.ok.injEq] at he
    subst he
    exact ⟨st, by simp [decItems], by simp [canonItems], by simp [Items.hasPayload]⟩
  | .cons i r, avail, bs, rest, st, hw, hd, hch, hg, hopt, harr, hpm, he, hgr, hb => by
    simp only [rtWfItems, Bool.and_eq_true] at hw
    obtain ⟨⟨hwi, htail⟩, hwr⟩ := hw
    simp only [decWfItems, Bool.and_eq_true] at hd
    simp only [encItems] at he
    obtain ⟨a, ha, h2⟩ := bind_ok _ _ _ he
    obtain ⟨b, hbr, h3⟩ := bind_ok _ _ _ h2
    simp only [Outcome.ok.injEq] at h3
    subst h3
    have hb' : (a ++ (b ++ rest)).length < usizeMax := by simpa [List.append_assoc] using hb
    -- the item itself
    have hitem : ∃ st1, decItem cd i (a ++ (b ++ rest)) st = .ok (st1, b ++ rest) ∧
        ItemPost all p.length v i p st st1 := by
      cases i with
      | chunk fs =>
        simp only [rtWfItem, Bool.and_eq_true, beq_iff_eq, List.all_eq_true] at hwi
        obtain ⟨st1, q1, q2, q3, q4⟩ := chunk_rt ce cd hce hee all (.ok p) p.length v fs a (b ++ rest) st hwi.1
          (fun f hf => ⟨(hwi.2 f hf).1, Or.inr (hwi.2 f hf).2⟩) ha hg
        exact ⟨st1, q1, q2, by simpa using q3, q4⟩
      | typedef id ty sb =>
        simp only [rtWfItem, Bool.and_eq_true] at hwi
        exact typedef_item_rt ce cd hee all (.ok p) p.length v p id ty sb hwi.2
          (fun nm w h => by subst h; simpa [rtWfTy] using hwi.1)
          (ty_rt ce cd hce hee ty hwi.1) a (b ++ rest) st hb' ha hg
      | optional id ty cid cval =>
        simp only [rtWfItem] at hwi
        simp only [decWfItem, Bool.and_eq_true] at hd
        exact optional_item_rt ce cd hce hee all (.ok p) p.length v p id ty cid cval
          (fun w h => by subst h; simpa [rtWfTy] using hwi)
          (ty_rt ce cd hce hee ty hwi) (hopt _ (by simp [optItems])) a (b ++ rest) st hb' ha hg
          (ctxHas_contains st avail _ hch hd.1.1)
      | payload mode =>
        simp only [decWfItem] at hd
        have hgi : greedyItem (.payload mode) = true → rest = [] := fun h => hgr (by simp [greedyItems, h])
        refine payload_item_rt ce cd all p v mode (hpm mode (by simp [payloadModes])) a (b ++ rest) st ha hg ?_ ?_ ?_ ?_
        · intro m hm
          subst hm
          exact ctxHas_contains st avail _ hch hd.1
        · intro hm
          subst hm
          simp only [tailOk] at htail
          cases r with
          | nil =>
            simp only [encItems, Outcome.ok.injEq] at hbr
            rw [← hbr, hgi rfl]; rfl
          | cons _ _ => simp at htail
        · intro k hm
          subst hm
          simp only [tailOk, Bool.and_eq_true, beq_iff_eq, Bool.not_eq_true'] at htail
          rw [hgi rfl, List.append_nil]
          exact encItems_static ce all (.ok p) p.length v r b k htail.1 hbr
        · intro hm
          subst hm
          simp [tailOk] at htail
      | array id elem ew shape pad =>
        simp only [rtWfItem, Bool.and_eq_true, bne_iff_ne, ne_eq] at hwi
        obtain ⟨⟨⟨hwt, hlw⟩, hidp⟩, hew⟩ := hwi
        simp only [decWfItem, Bool.and_eq_true] at hd
        have hfa := firstArray_of_mem all id elem ew (harr _ (by simp [arrayItems])) hnd
        have hgi : greedyItem (.array id elem ew shape pad) = true → rest = [] := fun h => hgr (by simp [greedyItems, h])
        refine array_item_rt ce cd all (.ok p) p.length v p id elem ew shape pad (ty_rt ce cd hce hee elem hwt)
          (fun x bb hx => encTy_len ce elem x bb hlw hx) ?_ ?_ ?_ hfa hidp a (b ++ rest) st hb' ha hg ?_ ?_ ?_
        · intro w hs
          subst hs
          simp only [Bool.and_eq_true, decide_eq_true_eq, beq_iff_eq] at hew
          exact ⟨hew.1, fun x bb hx => encTy_static ce elem x bb w hew.2 hx⟩
        · intro hs
          subst hs
          cases elem with
          | scalar w => simp at hew
          | enumTy nm en => simp at hew
          | custom nm w => simp at hew
          | struct nm bdy =>
            cases bdy with
            | root nm' items' =>
              simp only [Bool.and_eq_true, decide_eq_true_eq] at hew
              exact fun x bb hx => struct_enc_nonempty ce nm nm' items' hew.1 hew.2 x bb hx
            | derived _ _ _ _ _ => simp at hew
        · intro hs
          subst hs
          simp at hew
        · intro hs
          subst hs
          exact ctxHas_contains st avail _ hch hd.1.2
        · intro hs
          subst hs
          exact ctxHas_contains st avail _ hch hd.1.2
        · intro hs
          subst hs
          cases pad with
          | some q => simp [tailOk] at htail
          | none =>
            simp only [tailOk] at htail
            cases r with
            | nil =>
              simp only [encItems, Outcome.ok.injEq] at hbr
              exact ⟨rfl, by rw [← hbr, hgi rfl]; rfl⟩
            | cons _ _ => simp at htail
    obtain ⟨st1, hdec1, hf1, hp1, hg1⟩ := hitem
    -- the remaining items
    have hch1 : CtxHas st1 (availAfter avail i) := decItem_ctx cd i _ st st1 _ avail hdec1 hch
    have hopt' : ∀ t ∈ optItems r, t ∈ optItems all := by
      intro t ht; apply hopt
      cases i <;> simp [optItems, ht]
    have harr' : ∀ t ∈ arrayItems r, t ∈ arrayItems all := by
      intro t ht; apply harr
      cases i <;> simp [arrayItems, ht]
    have hpm' : ∀ md ∈ payloadModes r, payloadMode all = some md := by
      intro md hmd; apply hpm
      cases i <;> simp [payloadModes, hmd]
    have hgr' : greedyItems r = true → rest = [] := fun h => hgr (by simp [greedyItems, h])
    have hb'' : (b ++ rest).length < usizeMax := by
      simp only [List.length_append] at hb ⊢; omega
    obtain ⟨st', hdec2, hf2, hp2⟩ := items_rt ce cd hce hee all p v hnd r (availAfter avail i) b rest st1
      hwr hd.2 hch1 hg1 hopt' harr' hpm' hbr hgr' hb''
    refine ⟨st', ?_, ?_, ?_⟩
    · simp only [decItems, List.append_assoc, hdec1, Outcome.bind, hdec2]
    · rw [hf2, hf1]; simp [canonItems, List.append_assoc]
    · rw [hp2, hp1]
      cases i <;> first | rfl | simp [Items.hasPayload]
end

/-- **C02, decoder side.**  For every packet or struct without parent whose layout is in the
    round-trippable class (`rtWfBody`: decidable, evaluated by the check on every generated layout),
    both byte orders, the decoder in either mode (the model of the emitted decoder, or the reference
    decoder), every value `v` the reference-mode encoder accepts (= every in-range value) and every
    continuation `rest` of the input (`rest = []` when the layout ends with an item that takes "all
    the rest"): decoding the encoding followed by `rest` returns exactly the value (`canonBody`:
    its fields in declaration order) and `rest` — no bound on array lengths, nesting or sizes other
    than the input being shorter than `usize::MAX`. -/
theorem roundtrip (e : Endian) (m : Mode) (nm : String) (items : Items) (hw : rtWfBody (.root nm items) = true)
    (v : Value) (bs rest : Bytes) (he : encBody { e := e, mode := .ideal } (.root nm items) v = .ok bs)
    (hgr : greedyItems items = true → rest = []) (hb : (bs ++ rest).length < usizeMax) :
    decBody { e := e, mode := m } (.root nm items) (bs ++ rest) = .ok (canonBody (.root nm items) v, rest) := by
  simp only [rtWfBody, Bool.and_eq_true, decide_eq_true_eq] at hw
  obtain ⟨⟨⟨hwi, hdi⟩, hnd⟩, hpm⟩ := hw
  simp only [encBody] at he
  simp only [decBody, canonBody]
  split at he
  · cases he
  · rename_i p hp
    obtain ⟨st', h1, h2, h3⟩ := items_rt { e := e, mode := .ideal } { e := e, mode := m } rfl rfl items p v hnd items []
      bs rest DState.empty hwi hdi (by intro k hk; simp at hk) (by intro k y hk; simp [DState.empty, Ctx.get] at hk)
      (fun t ht => ht) (fun t ht => ht) (payloadMode_of_modes items hpm) he hgr hb
    rw [h1]
    simp only [Outcome.bind, h2, h3, DState.empty, List.nil_append]
    by_cases hh : items.hasPayload = true
    · simp only [hh, ↓reduceIte] at hp ⊢
      simp only [payloadBytes, hp, Option.getD_some]
    · have hh' : items.hasPayload = false := by simpa using hh
      simp only [hh', Bool.false_eq_true, ↓reduceIte]

/-- `decode_full ∘ encode` is the identity (up to the normal form of the value) -/
theorem roundtrip_full (e : Endian) (m : Mode) (nm : String) (items : Items) (hw : rtWfBody (.root nm items) = true)
    (v : Value) (bs : Bytes) (he : encBody { e := e, mode := .ideal } (.root nm items) v = .ok bs)
    (hb : bs.length < usizeMax) :
    decodeFull { e := e, mode := m } (.root nm items) bs = .ok (canonBody (.root nm items) v) := by
  have := roundtrip e m nm items hw v bs [] he (fun _ => rfl) (by simpa using hb)
  simp only [List.append_nil] at this
  simp [decodeFull, this, Outcome.bind]

/-- **C02.**  The model of the *emitted* encoder followed by the model of the *emitted* decoder: for
    every in-range value the emitted `encode_to_vec` succeeds with the reference bytes and the emitted
    `decode_full` of those bytes is the value. -/
theorem roundtrip_rust (e : Endian) (nm : String) (items : Items) (hw : rtWfBody (.root nm items) = true)
    (hn : noModBody (.root nm items) = true) (v : Value) (bs : Bytes)
    (he : encBody { e := e, mode := .ideal } (.root nm items) v = .ok bs) (hb : bs.length < usizeMax) :
    encBody { e := e, mode := .rust } (.root nm items) v = .ok bs ∧
    decodeFull { e := e, mode := .rust } (.root nm items) bs = .ok (canonBody (.root nm items) v) :=
  ⟨encBody_ideal_to_rust e _ v bs hn he, roundtrip_full e .rust nm items hw v bs he hb⟩

/-- a value that is already in normal form comes back unchanged -/
theorem roundtrip_id (e : Endian) (m : Mode) (nm : String) (items : Items) (hw : rtWfBody (.root nm items) = true)
    (v : Value) (hv : canonBody (.root nm items) v = v) (bs : Bytes)
    (he : encBody { e := e, mode := .ideal } (.root nm items) v = .ok bs) (hb : bs.length < usizeMax) :
    decodeFull { e := e, mode := m } (.root nm items) bs = .ok v := by
  rw [roundtrip_full e m nm items hw v bs he hb, hv]

/-! non-vacuity: `packet P { _count_(x): 8, c: 1, _reserved_: 7, x: 16[], o: 8 if c = 1, _payload_ }`
    is in the round-trippable class -/
example : rtWfBody (.root "P" (.cons (.chunk [.count "x" 8, .flag "c" [("o", 1)], .reserved 7])
    (.cons (.array "x" (.scalar 16) (.static 2) .countField none)
    (.cons (.optional "o" (.scalar 8) "c" 1) (.cons (.payload .last) .nil))))) = true := by
  simp [rtWfBody, rtWfItems, rtWfItem, rtWfTy, tailOk, decWfItems, decWfItem, decWfTy, availAfter, chunkKeys,
    staticTy, lenWfTy, arrayIds, payloadModes, chunkBits, BitField.width, bfRtOk, bfNoArrayMod, optItems,
    firstArray, Ty.selfGuarded, greedyItems, greedyItem]

end Pdlv
