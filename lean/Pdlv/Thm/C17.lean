/-
  C17 — endianness duality.

  For a description D and its twin D' (other endianness) the encodings of a value have the same
  segments (`Pdlv.segBody`), and D' 's bytes are D's with every `swap` segment byte-reversed:
  bit-field groups, multi-byte scalar / enum array elements, optional scalars / enums and sized
  custom fields, recursively through structs; payloads and padding are untouched.
-/
import Pdlv.Seg
import Pdlv.Lemmas.Bits

namespace Pdlv

/-- the byte-level fact everything rests on -/
theorem putUint_big_eq_reverse_little (w v : Nat) :
    putUint .big w v = (putUint .little w v).reverse := rfl

theorem putUint_little_eq_reverse_big (w v : Nat) :
    putUint .little w v = (putUint .big w v).reverse := by
  simp [putUint, toBE]

def mapOk {ε α β : Type} (f : α → β) : Outcome ε α → Outcome ε β
  | .ok a => .ok (f a)
  | .err e => .err e
  | .panic h => .panic h

def cfgL (m : Mode) : Cfg := { e := .little, mode := m }
def cfgB (m : Mode) : Cfg := { e := .big, mode := m }

theorem flip_length (s : Seg) : s.flip.bytes.length = s.bytes.length := by
  unfold Seg.flip; split <;> simp

theorem flatten_flip_length (ss : List Seg) : (flatten (ss.map Seg.flip)).length = (flatten ss).length := by
  induction ss with
  | nil => rfl
  | cons s ss ih =>
    simp only [flatten, List.map_cons, List.flatMap_cons, List.length_append] at *
    rw [ih, flip_length]

/-- leaf types: one swapped segment -/
theorem encTy_leaf_dual (m : Mode) (t : Ty) (v : Value)
    (hleaf : match t with | .struct .. => False | _ => True) :
    encTy (cfgB m) t v = mapOk List.reverse (encTy (cfgL m) t v) := by
  unfold cfgB cfgL
  cases t with
  | scalar w =>
    cases v with
    | int n =>
      simp only [encTy, mapOk, cfgB, cfgL]
      split
      · rfl
      · by_cases h : elemOutOfRange m w n = true
        · simp [h]
        · simp [h, putUint, toBE]
    | arr _ => simp [encTy, mapOk]
    | obj _ => simp [encTy, mapOk]
    | null => simp [encTy, mapOk]
  | enumTy n en =>
    cases v <;> simp only [encTy, mapOk, cfgB, cfgL]
    split <;> simp [mapOk, putUint, toBE]
  | custom n w =>
    cases v <;> simp only [encTy, mapOk, cfgB, cfgL]
    split <;> simp [mapOk, putUint, toBE]
  | struct n b => exact absurd hleaf (by simp)

theorem segListWith_dual (f g : Value → Enc (List Seg))
    (h : ∀ v, g v = mapOk (List.map Seg.flip) (f v)) :
    ∀ vs, segListWith g vs = mapOk (List.map Seg.flip) (segListWith f vs) := by
  intro vs
  induction vs with
  | nil => rfl
  | cons v vs ih =>
    simp only [segListWith, Outcome.bind, h v, ih]
    cases f v with
    | ok a =>
      simp only [mapOk]
      cases segListWith f vs with
      | ok b => simp [mapOk]
      | err e => rfl
      | panic p => rfl
    | err e => rfl
    | panic p => rfl

theorem segPad_dual (pad : Option Nat) (ss : List Seg) :
    segPad pad (ss.map Seg.flip) = mapOk (List.map Seg.flip) (segPad pad ss) := by
  cases pad with
  | none => rfl
  | some p =>
    simp only [segPad, flatten_flip_length]
    split
    · simp [mapOk, Seg.flip]
    · rfl

mutual
theorem segTy_dual (m : Mode) : ∀ (t : Ty) (v : Value),
    segTy (cfgB m) t v = mapOk (List.map Seg.flip) (segTy (cfgL m) t v)
  | .scalar w, v => by
    simp only [segTy, Outcome.bind, encTy_leaf_dual m (.scalar w) v trivial]
    cases encTy (cfgL m) (.scalar w) v <;> simp [mapOk, Seg.flip]
  | .enumTy n en, v => by
    simp only [segTy, Outcome.bind, encTy_leaf_dual m (.enumTy n en) v trivial]
    cases encTy (cfgL m) (.enumTy n en) v <;> simp [mapOk, Seg.flip]
  | .custom n w, v => by
    simp only [segTy, Outcome.bind, encTy_leaf_dual m (.custom n w) v trivial]
    cases encTy (cfgL m) (.custom n w) v <;> simp [mapOk, Seg.flip]
  | .struct _ b, v => by
    simp only [segTy]
    exact segBody_dual m b v

theorem segItem_dual (m : Mode) (all : Items) (pL : Enc (List Seg)) (pl : Nat) (v : Value) :
    ∀ (i : Item),
    segItem (cfgB m) all (mapOk (List.map Seg.flip) pL) pl v i
      = mapOk (List.map Seg.flip) (segItem (cfgL m) all pL pl v i)
  | .chunk fs => by
    simp only [segItem, Outcome.bind, cfgB, cfgL]
    cases encChunkFields (m == .ideal) all pl v fs 0 0 <;> simp [mapOk, Seg.flip, putUint, toBE]
  | .typedef id ty sb => by
    simp only [segItem]
    cases v.get? id with
    | none => rfl
    | some x => exact segTy_dual m ty x
  | .optional id ty cid cv => by
    simp only [segItem]
    cases hv : v.get? id with
    | none => rfl
    | some x =>
      cases x with
      | null => rfl
      | int n =>
        cases ty with
        | scalar w =>
          simp only
          split
          · rfl
          · split
            · rfl
            · simp [mapOk, Seg.flip, putUint, toBE, cfgB, cfgL]
        | enumTy a b => exact segTy_dual m _ _
        | custom a b => exact segTy_dual m _ _
        | struct a b => exact segTy_dual m _ _
      | arr xs =>
        cases ty with
        | scalar w => rfl
        | enumTy a b => exact segTy_dual m _ _
        | custom a b => exact segTy_dual m _ _
        | struct a b => exact segTy_dual m _ _
      | obj xs =>
        cases ty with
        | scalar w => rfl
        | enumTy a b => exact segTy_dual m _ _
        | custom a b => exact segTy_dual m _ _
        | struct a b => exact segTy_dual m _ _
  | .payload _ => by simp only [segItem]
  | .array id elem ew shape pad => by
    simp only [segItem, Outcome.bind]
    cases listField v id with
    | err e => rfl
    | panic h => rfl
    | ok vs =>
      simp only
      cases checkCount shape vs.length with
      | err e => rfl
      | panic h => rfl
      | ok u =>
        simp only
        cases checkPad pad (arrSize ew (lenTy elem) vs) with
        | err e => rfl
        | panic h => rfl
        | ok u2 =>
          simp only
          rw [segListWith_dual (segTy (cfgL m) elem) (segTy (cfgB m) elem) (fun x => segTy_dual m elem x) vs]
          cases segListWith (segTy (cfgL m) elem) vs with
          | err e => rfl
          | panic h => rfl
          | ok ss => simp only [mapOk]; exact segPad_dual pad ss

theorem segItems_dual (m : Mode) (all : Items) (pL : Enc (List Seg)) (pl : Nat) (v : Value) :
    ∀ (is : Items),
    segItems (cfgB m) all (mapOk (List.map Seg.flip) pL) pl v is
      = mapOk (List.map Seg.flip) (segItems (cfgL m) all pL pl v is)
  | .nil => rfl
  | .cons i r => by
    simp only [segItems, Outcome.bind, segItem_dual m all pL pl v i, segItems_dual m all pL pl v r]
    cases segItem (cfgL m) all pL pl v i with
    | err e => rfl
    | panic h => rfl
    | ok a =>
      simp only [mapOk]
      cases segItems (cfgL m) all pL pl v r with
      | err e => rfl
      | panic h => rfl
      | ok b => simp [mapOk]

theorem segBody_dual (m : Mode) : ∀ (b : Body) (v : Value),
    segBody (cfgB m) b v = mapOk (List.map Seg.flip) (segBody (cfgL m) b v)
  | .root _ items, v => by
    simp only [segBody]
    split
    · rfl
    · rename_i p _
      have := segItems_dual m items (.ok [{ bytes := p, swap := false }]) p.length v items
      simpa [mapOk, Seg.flip] using this
  | .derived _ parent _ allCs items, v => by
    simp only [segBody]
    split
    · rfl
    · rename_i p _
      have h1 := segItems_dual m items (.ok [{ bytes := p, swap := false }]) p.length
        (Value.obj (v.fields ++ allCs.map fun (k, cv) => (k, Value.int cv))) items
      simp only [mapOk, Seg.flip, List.map_cons, List.map_nil, Bool.false_eq_true, ↓reduceIte] at h1
      rw [h1]
      exact segAround_dual m parent _ _ _

theorem segAround_dual (m : Mode) : ∀ (b : Body) (v : Value) (inner : Enc (List Seg)) (len : Nat),
    segAround (cfgB m) b v (mapOk (List.map Seg.flip) inner) len
      = mapOk (List.map Seg.flip) (segAround (cfgL m) b v inner len)
  | .root _ items, v, inner, len => by
    simp only [segAround]
    exact segItems_dual m items inner len v items
  | .derived _ parent _ _ items, v, inner, len => by
    simp only [segAround]
    rw [segItems_dual m items inner len v items]
    exact segAround_dual m parent v _ _
end

/-- **Endianness duality**: the big-endian encoding of a value has the same segments as the
    little-endian one, with exactly the integer-valued segments byte-reversed; in particular
    both succeed or fail together, with the same error. -/
theorem endian_dual (m : Mode) (b : Body) (v : Value) :
    segBody (cfgB m) b v = mapOk (List.map Seg.flip) (segBody (cfgL m) b v) :=
  segBody_dual m b v

/-- … hence the two encodings have the same length -/
theorem endian_dual_length (m : Mode) (b : Body) (v : Value) (sl sb : List Seg)
    (hl : segBody (cfgL m) b v = .ok sl) (hb : segBody (cfgB m) b v = .ok sb) :
    (flatten sb).length = (flatten sl).length := by
  rw [endian_dual m b v, hl] at hb
  simp only [mapOk, Outcome.ok.injEq] at hb
  rw [← hb]; exact flatten_flip_length sl

/-- non-vacuity: `{ a: 4, b: 12, x: 24[1], _payload_ }` — groups and elements swap, the payload does not -/
example :
    let b : Body := .root "P" (.cons (.chunk [.scalar "a" 4, .scalar "b" 12])
      (.cons (.array "x" (.scalar 24) (.static 3) (.static 1) none) (.cons (.payload .last) .nil)))
    let v : Value := .obj [("a", .int 1), ("b", .int 0x234), ("x", .arr [.int 0x0a0b0c]), ("payload", .arr [.int 1, .int 2])]
    (mapOk flatten (segBody (cfgL .rust) b v), mapOk flatten (segBody (cfgB .rust) b v))
      = (.ok [0x41, 0x23, 0x0c, 0x0b, 0x0a, 1, 2], .ok [0x23, 0x41, 0x0a, 0x0b, 0x0c, 1, 2]) := by rfl

end Pdlv
