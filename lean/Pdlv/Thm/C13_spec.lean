/-
  C13 — the specialization the Python back end emits (model: `Pdlv.PySpec`, tied to python.rs by differential
  execution on every input of the run) against the reference's `decode_partial`.
-/
import Pdlv.Lemmas.PySpecAgree
import Pdlv.Lemmas.PySerChild

namespace Pdlv
namespace PySpec

open Py (ideal)

/-- **C13, specialization: whatever is returned is right.**  For every root packet with a tree of children whose
    own fields are in the class of the parser theorem (`Py.wfItems`, no skipped alias — decidable, evaluated per
    run), both byte orders and EVERY byte string: if `Root.parse_all(b)` returns an object of packet `T` with
    field values `v`, then the reference `decode_full` accepts `b` as the root, and `T` is either the root itself
    with the reference's values or is reached from one of the children the parser tries by one reference
    `decode_partial` per level — constraints checked, the child's fields parsed from the parent's payload with
    nothing left over — with exactly the values `v`.  The `try … except Exception: pass` chain never makes the
    emitted parser return a child the reference would not. -/
theorem python_specialization_is_sound (c : Cfg) (nm : String) (items : Items) (ks : List Node)
    (hw : wfNode (.mk (.root nm items) [] ks) = true) (bs : Bytes) (T : String) (v : Value)
    (h : parseAll c (.mk (.root nm items) [] ks) bs = .ok (T, v)) :
    ∃ v0, Pdlv.decodeFull (ideal c) (.root nm items) bs = .ok v0 ∧
      ((T = nm ∧ v = v0) ∨ ∃ k, k ∈ ks ∧ Reaches c k v0 T v) := by
  simp only [wfNode, Bool.and_eq_true] at hw
  simp only [parseAll] at h
  obtain ⟨v0, h0, h1⟩ := bind_ok _ _ _ h
  have hr := (Py.parse_all_agrees_with_reference c nm items (by simpa [Py.wfBody] using hw.1.2) bs v0).mp h0
  refine ⟨v0, hr, ?_⟩
  cases hk : kids c ks v0 with
  | none =>
    simp only [hk, Outcome.ok.injEq, Prod.mk.injEq] at h1
    exact Or.inl ⟨h1.1.symm, h1.2.symm⟩
  | some r =>
    simp only [hk, Outcome.ok.injEq] at h1
    subst h1
    exact Or.inr (kids_sound c ks hw.2 v0 T v hk)

/-- **… and the packet itself is returned only when no child fits.**  If none of the children the parser tries
    yields an object (so that the parent is returned), the reference's `decode_partial` accepts none of them
    either: a child is never lost to a swallowed exception. -/
theorem python_keeps_the_parent_only_if_no_child_fits (c : Cfg) (ks : List Node) (pv : Value)
    (h : kids c ks pv = none) (nm : String) (parent : Body) (cs allCs : List (String × Nat)) (items : Items)
    (ks' : List Node) (hm : Node.mk (.derived nm parent cs allCs items) [] ks' ∈ ks)
    (hwi : Py.wfItems items = true) (v : Value) :
    refChild c (.derived nm parent cs allCs items) pv ≠ .ok v :=
  child_not_ok c nm parent cs allCs items ks' hwi pv (kids_none c ks pv h _ hm) v

/-! non-vacuity: `packet R { k: 8, _payload_ }`, `packet A : R (k = 1) { x: 8 }`, `packet B : R (k = 2) { y: 16 }`;
    `02 34 12` is returned as a `B` with `y = 0x1234` -/
example :
    let root : Body := .root "R" (.cons (.chunk [.scalar "k" 8]) (.cons (.payload .last) .nil))
    let a : Node := .mk (.derived "A" root [("k", 1)] [("k", 1)] (.cons (.chunk [.scalar "x" 8]) .nil)) [] []
    let b : Node := .mk (.derived "B" root [("k", 2)] [("k", 2)] (.cons (.chunk [.scalar "y" 16]) .nil)) [] []
    wfNode (.mk root [] [a, b]) = true ∧
    parseAll { e := .little } (.mk root [] [a, b]) [2, 0x34, 0x12] = .ok ("B", .obj [("y", .int 0x1234)]) := by
  refine ⟨by decide, by rfl⟩

end PySpec
end Pdlv

namespace Pdlv
namespace Py

/-- **C13, serializer of child packets.**  For every child packet whose own fields and whose ancestors' fields are in
    the serializer class, with one payload per ancestor and static annotations that agree with the types
    (`Py.serWfChild`: decidable, evaluated per run), both byte orders, and every value the reference-mode encoder
    assigns an encoding to: the model of the emitted `serialize()` — own fields into a buffer, then each ancestor's
    `serialize(self, payload=…)` around it, every size field computed from the octets actually written, constrained
    fields taken from the constants the child stores — writes exactly the reference's bytes (which, by C05, have the
    length `encoded_len` promises, so "size from the bytes" and "size from the lengths" agree). -/
theorem python_child_serializer_writes_reference (c : Cfg) (nm : String) (parent : Body) (cs allCs : List (String × Nat))
    (items : Items) (hw : serWfChild (.derived nm parent cs allCs items) = true) (v : Value) (bs : Bytes)
    (he : Pdlv.encBody { e := c.e, mode := .ideal } (.derived nm parent cs allCs items) v = .ok bs) :
    Py.encBody c (.derived nm parent cs allCs items) v = .ok bs :=
  child_ideal_to_py c nm parent cs allCs items hw v bs he

/-! non-vacuity: `packet R { k: 8, _size_(_payload_): 8, _payload_ }`, `packet C : R (k = 2) { y: 16 }` -/
example :
    let root : Body := .root "R" (.cons (.chunk [.scalar "k" 8, .size "_payload_" 8 0]) (.cons (.payload (.sized 0)) .nil))
    let ch : Body := .derived "C" root [("k", 2)] [("k", 2)] (.cons (.chunk [.scalar "y" 16]) .nil)
    serWfChild ch = true ∧ Py.encBody { e := .little } ch (.obj [("y", .int 0x1234)]) = .ok [2, 2, 0x34, 0x12] := by
  refine ⟨by decide, by rfl⟩

end Py
end Pdlv
