/-
  C09 — well-formed input is accepted regardless of declaration order and layout; groups behave as
  inlined.

  Statements about the model `Pdlv.Analyzer`: the scope pass depends only on the multiset of
  declaration identifiers (so its verdict is order-independent); group inlining rewrites a
  constrained scalar / enum field into the fixed field with the constraint's value, keeps its
  source range and condition, and leaves every other field untouched.
-/
import Pdlv.Analyzer

namespace Pdlv
namespace Analyzer

/-- identifiers of the declarations that have one -/
def declIds (f : File) : List String := f.decls.filterMap Decl.id?

theorem scopeGo_nil_iff (seen : List (String × Decl)) (ds : List Decl) :
    scopeDiags.go seen ds = [] ↔
      (ds.filterMap Decl.id?).Nodup ∧ ∀ id ∈ ds.filterMap Decl.id?, seen.lookup id = none := by
  induction ds generalizing seen with
  | nil => simp [scopeDiags.go]
  | cons d ds ih =>
    cases hid : d.id? with
    | none => simp [scopeDiags.go, hid, ih]
    | some id =>
      simp only [scopeDiags.go, hid]
      cases hl : seen.lookup id with
      | some prev =>
        simp only [List.cons_ne_nil, false_iff, not_and]
        intro _ hall
        have := hall id (by simp [List.filterMap_cons, hid])
        rw [hl] at this
        cases this
      | none =>
        simp only [ih, List.filterMap_cons, hid, List.nodup_cons, List.mem_cons, forall_eq_or_imp, hl, true_and]
        constructor
        · rintro ⟨hnd, hall⟩
          refine ⟨⟨?_, hnd⟩, ?_⟩
          · intro hmem
            have := hall id hmem
            simp [List.lookup] at this
          · intro x hx
            have := hall x hx
            by_cases hxe : x = id
            · subst hxe; simp [List.lookup] at this
            · have hne : (x == id) = false := by simpa using hxe
              simpa [List.lookup, hne] using this
        · rintro ⟨⟨hnot, hnd⟩, hall⟩
          refine ⟨hnd, ?_⟩
          intro x hx
          have hxe : x ≠ id := fun h => hnot (h ▸ hx)
          have hne : (x == id) = false := by simpa using hxe
          simpa [List.lookup, hne] using hall x hx

/-- **the scope pass accepts exactly the files whose declaration identifiers are distinct** -/
theorem scope_ok_iff_nodup (f : File) : scopeDiags f = [] ↔ (declIds f).Nodup := by
  unfold scopeDiags declIds
  rw [scopeGo_nil_iff]
  simp [List.lookup]

/-- … hence its verdict does not depend on the order of the declarations -/
theorem scope_perm_invariant (f g : File) (h : f.decls.Perm g.decls) :
    (scopeDiags f = []) ↔ (scopeDiags g = []) := by
  rw [scope_ok_iff_nodup, scope_ok_iff_nodup]
  unfold declIds
  exact (h.filterMap _).nodup_iff

/-- **groups behave as inlined — constrained scalar**: a scalar field of a group that the group
    field constrains becomes the fixed field carrying the constraint's value, with the same
    source range and the same condition -/
theorem inline_fixed_scalar (f : File) (fuel : Nat) (fl : Field) (id : String) (w v : Nat) (c : Constraint)
    (cons : List (String × Constraint)) (hd : fl.desc = .scalar id w)
    (hc : cons.lookup id = some c) (hv : c.value = some v) :
    inlineFields f (fuel + 1) [fl] cons = .ok [{ fl with desc := .fixedScalar w v }] := by
  simp [inlineFields, List.foldlM, hd, hc, hv, bind, Except.bind, pure, Except.pure]

/-- **… constrained enum field**: becomes the fixed enum field with the constraint's tag -/
theorem inline_fixed_enum (f : File) (fuel : Nat) (fl : Field) (id ty tag : String) (c : Constraint)
    (cons : List (String × Constraint)) (hd : fl.desc = .typedef id ty)
    (hc : cons.lookup id = some c) (hv : c.tagId = some tag) :
    inlineFields f (fuel + 1) [fl] cons = .ok [{ fl with desc := .fixedEnum ty tag }] := by
  simp [inlineFields, List.foldlM, hd, hc, hv, bind, Except.bind, pure, Except.pure]

/-- **… unconstrained fields are untouched** -/
theorem inline_unconstrained_scalar (f : File) (fuel : Nat) (fl : Field) (id : String) (w : Nat)
    (cons : List (String × Constraint)) (hd : fl.desc = .scalar id w) (hc : cons.lookup id = none) :
    inlineFields f (fuel + 1) [fl] cons = .ok [fl] := by
  simp [inlineFields, List.foldlM, hd, hc, bind, Except.bind, pure, Except.pure]

/-- a group field is replaced by the (recursively inlined) fields of the group, under the
    group field's constraints added to the inherited ones -/
theorem inline_group_field (f : File) (fuel : Nat) (fl : Field) (gid : String) (gcs : List Constraint) (g : Decl)
    (cons : List (String × Constraint)) (hd : fl.desc = .group gid gcs) (hg : lookupDecl f gid = some g) :
    inlineFields f (fuel + 1) [fl] cons =
      (inlineFields f fuel g.fields (gcs.foldl insertCons cons)).map (fun r => [] ++ r) := by
  simp only [inlineFields, List.foldlM, hd, hg, bind, Except.bind, pure, Except.pure]
  cases inlineFields f fuel g.fields (gcs.foldl insertCons cons) <;> simp [Except.map]

/-- non-vacuity: two declarations with distinct ids pass the scope check in either order -/
example : scopeDiags { endian := .little, decls := [⟨.group "A" [], {}⟩, ⟨.group "B" [], {}⟩] } = [] ∧
          scopeDiags { endian := .little, decls := [⟨.group "B" [], {}⟩, ⟨.group "A" [], {}⟩] } = [] := by
  constructor <;> rfl

end Analyzer
end Pdlv
