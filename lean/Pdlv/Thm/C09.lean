/-
  C09 — well-formed input is accepted regardless of declaration order and layout; groups behave as
  inlined.

  Statements about the model `Pdlv.Analyzer`: the scope pass depends only on the multiset of
  declaration identifiers (so its verdict is order-independent); group inlining rewrites a
  constrained scalar / enum field into the fixed field with the constraint's value, keeps its
  source range and condition, and leaves every other field untouched.
-/
import Pdlv.Analyzer

namespace Pdlv
namespace Analyzer

/-- identifiers of the declarations that have one -/
def declIds (f : File) : List String := f.decls.filterMap Decl.id?

theorem scopeGo_nil_iff (seen : List (String × Decl)) (ds : List Decl) :
    scopeDiags.go seen ds = [] ↔
      (ds.filterMap Decl.id?).Nodup ∧ ∀ id ∈ ds.filterMap Decl.id?, seen.lookup id = none := by
  induction ds generalizing seen with
  | nil => simp [scopeDiags.go]
  | cons d ds ih =>
    cases hid : d.id? with
    | none => simp [scopeDiags.go, hid, ih]
    | some id =>
      simp only [scopeDiags.go, hid]
      cases hl : seen.lookup id with
      | some prev =>
        simp only [List.cons_ne_nil, false_iff, not_and]
        intro _ hall
        have := hall id (by simp [List.filterMap_cons, hid])
        rw [hl] at this
        cases this
      | none =>
        simp only [ih, List.filterMap_cons, hid, List.nodup_cons, List.mem_cons, forall_eq_or_imp, hl, true_and]
        constructor
        · rintro ⟨hnd, hall⟩
          refine ⟨⟨?_, hnd⟩, ?_⟩
          · intro hmem
            have := hall id hmem
            simp [List.lookup] at this
          · intro x hx
            have := hall x hx
            by_cases hxe : x = id
            · subst hxe; simp [List.lookup] at this
            · have hne : (x == id) = false := by simpa using hxe
              simpa [List.lookup, hne] using this
        · rintro ⟨⟨hnot, hnd⟩, hall⟩
          refine ⟨hnd, ?_⟩
          intro x hx
          have hxe : x ≠ id := fun h => hnot (h ▸ hx)
          have hne : (x == id) = false := by simpa using hxe
          simpa [List.lookup, hne] using hall x hx

/-- **the scope pass accepts exactly the files whose declaration identifiers are distinct** -/
theorem scope_ok_iff_nodup (f : File) : scopeDiags f = [] ↔ (declIds f).Nodup := by
  unfold scopeDiags declIds
  rw [scopeGo_nil_iff]
  simp [List.lookup]

/-- … hence its verdict does not depend on the order of the declarations -/
theorem scope_perm_invariant (f g : File) (h : f.decls.Perm g.decls) :
    (scopeDiags f = []) ↔ (scopeDiags g = []) := by
  rw [scope_ok_iff_nodup, scope_ok_iff_nodup]
  unfold declIds
  exact (h.filterMap _).nodup_iff

/-- **groups behave as inlined — constrained scalar**: a scalar field of a group that the group
    field constrains becomes the fixed field carrying the constraint's value, with the same
    source range and the same condition -/
theorem inline_fixed_scalar (f : File) (fuel : Nat) (fl : Field) (id : String) (w v : Nat) (c : Constraint)
    (cons : List (String × Constraint)) (hd : fl.desc = .scalar id w)
    (hc : cons.lookup id = some c) (hv : c.value = some v) :
    inlineFields f (fuel + 1) [fl] cons = .ok [{ fl with desc := .fixedScalar w v }] := by
  simp [inlineFields, List.foldlM, hd, hc, hv, bind, Except.bind, pure, Except.pure]

/-- **… constrained enum field**: becomes the fixed enum field with the constraint's tag -/
theorem inline_fixed_enum (f : File) (fuel : Nat) (fl : Field) (id ty tag : String) (c : Constraint)
    (cons : List (String × Constraint)) (hd : fl.desc = .typedef id ty)
    (hc : cons.lookup id = some c) (hv : c.tagId = some tag) :
    inlineFields f (fuel + 1) [fl] cons = .ok [{ fl with desc := .fixedEnum ty tag }] := by
  simp [inlineFields, List.foldlM, hd, hc, hv, bind, Except.bind, pure, Except.pure]

/-- **… unconstrained fields are untouched** -/
theorem inline_unconstrained_scalar (f : File) (fuel : Nat) (fl : Field) (id : String) (w : Nat)
    (cons : List (String × Constraint)) (hd : fl.desc = .scalar id w) (hc : cons.lookup id = none) :
    inlineFields f (fuel + 1) [fl] cons = .ok [fl] := by
  simp [inlineFields, List.foldlM, hd, hc, bind, Except.bind, pure, Except.pure]

/-- a group field is replaced by the (recursively inlined) fields of the group, under the
    group field's constraints added to the inherited ones -/
theorem inline_group_field (f : File) (fuel : Nat) (fl : Field) (gid : String) (gcs : List Constraint) (g : Decl)
    (cons : List (String × Constraint)) (hd : fl.desc = .group gid gcs) (hg : lookupDecl f gid = some g) :
    inlineFields f (fuel + 1) [fl] cons =
      (inlineFields f fuel g.fields (gcs.foldl insertCons cons)).map (fun r => [] ++ r) := by
  simp only [inlineFields, List.foldlM, hd, hg, bind, Except.bind, pure, Except.pure]
  cases inlineFields f fuel g.fields (gcs.foldl insertCons cons) <;> simp [Except.map]

/-- non-vacuity: two declarations with distinct ids pass the scope check in either order -/
example : scopeDiags { endian := .little, decls := [⟨.group "A" [], {}⟩, ⟨.group "B" [], {}⟩] } = [] ∧
          scopeDiags { endian := .little, decls := [⟨.group "B" [], {}⟩, ⟨.group "A" [], {}⟩] } = [] := by
  constructor <;> rfl


/-! ### the per-declaration passes do not depend on the order of the declarations -/

/-- a pass that examines the declarations one by one reports the same diagnostics, up to their order, on every
    permutation of the file -/
theorem perDecl_perm (f g : File) (h : Decl → List Diag) (hp : f.decls.Perm g.decls) :
    (perDecl f h).Perm (perDecl g h) := by
  unfold perDecl
  exact hp.flatMap_right h

theorem checkFieldIdentifiers_perm (f g : File) (hp : f.decls.Perm g.decls) :
    (checkFieldIdentifiers f).Perm (checkFieldIdentifiers g) := perDecl_perm f g _ hp

theorem checkEnumDeclarations_perm (f g : File) (hp : f.decls.Perm g.decls) :
    (checkEnumDeclarations f).Perm (checkEnumDeclarations g) := perDecl_perm f g _ hp

theorem checkSizeFields_perm (f g : File) (hp : f.decls.Perm g.decls) :
    (checkSizeFields f).Perm (checkSizeFields g) := perDecl_perm f g _ hp

theorem checkArrayFields_perm (f g : File) (hp : f.decls.Perm g.decls) :
    (checkArrayFields f).Perm (checkArrayFields g) := perDecl_perm f g _ hp

theorem checkPaddingFields_perm (f g : File) (hp : f.decls.Perm g.decls) :
    (checkPaddingFields f).Perm (checkPaddingFields g) := perDecl_perm f g _ hp

/-- with distinct identifiers, at most one declaration carries a given identifier -/
theorem unique_of_nodup_ids : ∀ (ds : List Decl), (ds.filterMap Decl.id?).Nodup →
    ∀ a ∈ ds, ∀ b ∈ ds, ∀ id, a.id? = some id → b.id? = some id → a = b
  | [], _, a, ha, _, _, _, _, _ => by cases ha
  | d :: ds, hn, a, ha, b, hb, id, hai, hbi => by
    have hnd : (ds.filterMap Decl.id?).Nodup := by
      cases hd : d.id? with
      | none => simpa [List.filterMap_cons, hd] using hn
      | some x =>
        simp only [List.filterMap_cons, hd, List.nodup_cons] at hn
        exact hn.2
    rcases List.mem_cons.mp ha with rfl | ha'
    · rcases List.mem_cons.mp hb with rfl | hb'
      · rfl
      · exfalso
        simp only [List.filterMap_cons, hai, List.nodup_cons] at hn
        exact hn.1 (List.mem_filterMap.mpr ⟨b, hb', hbi⟩)
    · rcases List.mem_cons.mp hb with rfl | hb'
      · exfalso
        simp only [List.filterMap_cons, hbi, List.nodup_cons] at hn
        exact hn.1 (List.mem_filterMap.mpr ⟨a, ha', hai⟩)
      · exact unique_of_nodup_ids ds hnd a ha' b hb' id hai hbi

theorem find?_unique {α : Type} (p : α → Bool) : ∀ (l : List α) (a : α), a ∈ l → p a = true →
    (∀ b ∈ l, p b = true → b = a) → l.find? p = some a
  | [], a, h, _, _ => by cases h
  | x :: l, a, h, hp, hu => by
    simp only [List.find?]
    by_cases hx : p x = true
    · simp only [hx]
      rw [hu x (List.mem_cons_self ..) hx]
    · have hx' : p x = false := by simpa using hx
      simp only [hx']
      rcases List.mem_cons.mp h with rfl | h'
      · rw [hp] at hx'; cases hx'
      · exact find?_unique p l a h' hp (fun b hb hpb => hu b (List.mem_cons_of_mem _ hb) hpb)

/-- **declaration look-up is order independent** (forward references are legal): with distinct identifiers,
    `scope.typedef.get(id)` finds the same declaration in every permutation of the file -/
theorem lookupDecl_perm (f g : File) (hp : f.decls.Perm g.decls) (hn : (declIds f).Nodup) (id : String) :
    lookupDecl f id = lookupDecl g id := by
  unfold lookupDecl
  have hng : (declIds g).Nodup := by
    unfold declIds at hn ⊢
    exact ((hp.filterMap _).nodup_iff).mp hn
  cases hf : f.decls.reverse.find? (fun d => d.id? == some id) with
  | some a =>
    have ha := List.mem_of_find?_eq_some hf
    have hpa : (a.id? == some id) = true := by simpa using List.find?_some hf
    have hag : a ∈ g.decls.reverse := by
      rw [List.mem_reverse] at ha ⊢
      exact hp.mem_iff.mp ha
    symm
    apply find?_unique _ _ a hag hpa
    intro b hb hpb
    rw [List.mem_reverse] at hb hag
    exact unique_of_nodup_ids g.decls hng b hb a hag id (by simpa using hpb) (by simpa using hpa)
  | none =>
    symm
    rw [List.find?_eq_none] at hf ⊢
    intro x hx
    rw [List.mem_reverse] at hx
    exact hf x (by rw [List.mem_reverse]; exact hp.mem_iff.mpr hx)

/-- hence the fixed-field pass (which resolves enum names) reports the same diagnostics on every permutation -/
theorem checkFixedFields_perm (f g : File) (hp : f.decls.Perm g.decls) (hn : (declIds f).Nodup) :
    (checkFixedFields f).Perm (checkFixedFields g) := by
  unfold checkFixedFields
  simp only [lookupDecl_perm f g hp hn]
  exact perDecl_perm f g _ hp

/-- **C09, error codes**: for two files that are permutations of each other (distinct identifiers), each of the
    per-declaration passes reports the same multiset of diagnostics — in particular the same set of codes, and
    it accepts one exactly when it accepts the other -/
theorem passes_order_independent (f g : File) (hp : f.decls.Perm g.decls) (hn : (declIds f).Nodup) :
    (checkFieldIdentifiers f).Perm (checkFieldIdentifiers g) ∧ (checkEnumDeclarations f).Perm (checkEnumDeclarations g) ∧
    (checkSizeFields f).Perm (checkSizeFields g) ∧ (checkFixedFields f).Perm (checkFixedFields g) ∧
    (checkArrayFields f).Perm (checkArrayFields g) ∧ (checkPaddingFields f).Perm (checkPaddingFields g) :=
  ⟨checkFieldIdentifiers_perm f g hp, checkEnumDeclarations_perm f g hp, checkSizeFields_perm f g hp,
   checkFixedFields_perm f g hp hn, checkArrayFields_perm f g hp, checkPaddingFields_perm f g hp⟩

theorem perm_nil_iff {α : Type} {l1 l2 : List α} (h : l1.Perm l2) : l1 = [] ↔ l2 = [] := by
  constructor
  · intro e; subst e; exact h.symm.eq_nil
  · intro e; subst e; exact h.eq_nil

end Analyzer
end Pdlv
