/-
  C07 — the four back ends, through their models, on the common class: what any of them writes, every one of them reads
  back as the value.  A corollary of the per-back-end theorems (C03 / C13 / C14 / C19: each serializer model writes the
  reference encoding; C13 / C14 / C19: each parser model accepts exactly what the reference `decode_full` accepts, with
  its values) and of the round trip of the reference decoder (C02).  Each model is tied to the emitted code of its back
  end by differential execution on every run (checks C13, C14, C19, and the wire checks for Rust).
-/
import Pdlv.Interop
import Pdlv.Thm.C02
import Pdlv.Thm.C13
import Pdlv.Thm.C14_cxx
import Pdlv.Thm.C19_java

namespace Pdlv
namespace Interop

/-- **C07, the four models interoperate.**  For every packet without parent in the common class, both byte orders, and
    every value `v` the reference assigns an encoding `bs` to (shorter than 2^31 octets, the capacity of a Java array):
    the models of the emitted Rust, Python, C++ and Java serializers all write exactly `bs`, and the models of the emitted
    Rust decoder, Python parser, C++ view (with its getters) and Java parser all read `bs` back as `v` (its fields in
    declaration order).  So a packet written by the code generated for any of the four languages is read back unchanged
    by the code generated for any other. -/
theorem four_models_interoperate (c : Cfg) (nm : String) (items : Items) (hw : commonWf nm items = true)
    (v : Value) (bs : Bytes) (he : Pdlv.encBody { e := c.e, mode := .ideal } (.root nm items) v = .ok bs)
    (hb : bs.length < 2 ^ 31) :
    (Pdlv.encBody { e := c.e, mode := .rust } (.root nm items) v = .ok bs ∧
     Py.encBody c (.root nm items) v = .ok bs ∧
     Cxx.encBody c (.root nm items) v = .ok bs ∧
     Java.encBody c (.root nm items) v = .ok bs) ∧
    (Pdlv.decodeFull { e := c.e, mode := .rust } (.root nm items) bs = .ok (canonBody (.root nm items) v) ∧
     Py.decodeFull c (.root nm items) bs = .ok (canonBody (.root nm items) v) ∧
     Cxx.viewDecode c (.root nm items) bs = .ok (canonBody (.root nm items) v) ∧
     Java.decodeFull c (.root nm items) bs = .ok (canonBody (.root nm items) v)) := by
  simp only [commonWf, Bool.and_eq_true] at hw
  obtain ⟨⟨⟨⟨⟨⟨⟨⟨hrt, hnm⟩, hrf⟩, hps⟩, hpw⟩, hcs⟩, hcv⟩, hje⟩, hjd⟩ := hw
  have husz : bs.length < usizeMax := Nat.lt_trans hb (by decide)
  have hlen : (bs ++ []).length < usizeMax := by simpa using husz
  have rt : ∀ m, Pdlv.decodeFull { e := c.e, mode := m } (.root nm items) bs = .ok (canonBody (.root nm items) v) := by
    intro m
    have := roundtrip c.e m nm items hrt v bs [] he (fun _ => rfl) hlen
    simp only [List.append_nil] at this
    simp [Pdlv.decodeFull, this, Outcome.bind]
  refine ⟨⟨encBody_ideal_to_rust c.e _ v bs hnm he, (Py.python_serializer_writes_reference c _ hps hrf v bs he).1,
    (Cxx.serializer_writes_reference c _ hcs hrf v bs he).1, (Java.java_writes_arrays_and_payloads c nm items hje hrf v bs he).1⟩,
    rt .rust, ?_, ?_, ?_⟩
  · exact (Py.python_parser_agrees_with_reference c nm items hpw bs _).mpr (rt .ideal)
  · exact (Cxx.view_agrees_with_reference c nm items hcv bs husz _).mpr (rt .ideal)
  · exact (Java.java_reads_arrays_and_payloads c nm items hjd bs hb _).mpr (rt .ideal)

/-! non-vacuity: `packet P { t: 1, _size_(a): 7, a: 16[], _count_(b): 4, u: 4, b: 8[], _payload_ }` is in the common class -/
example :
    let items : Items := .cons (.chunk [.scalar "t" 1, .size "a" 7 0]) (.cons (.array "a" (.scalar 16) (.static 2) .sizeField none)
      (.cons (.chunk [.count "b" 4, .scalar "u" 4]) (.cons (.array "b" (.scalar 8) (.static 1) .countField none)
      (.cons (.payload .last) .nil))))
    commonWf "P" items = true ∧
    Pdlv.encBody { e := .little, mode := .ideal } (.root "P" items) (.obj [("t", .int 1), ("a", .arr [.int 0x1234, .int 0x5678]),
      ("u", .int 3), ("b", .arr [.int 9, .int 8]), ("payload", .arr [.int 0xaa])]) = .ok [0x09, 0x34, 0x12, 0x78, 0x56, 0x32, 9, 8, 0xaa] := by
  refine ⟨by decide, by rfl⟩

end Interop
end Pdlv
