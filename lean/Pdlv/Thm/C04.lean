/-
  C04 — the Rust decoder accepts exactly the reference language and names each fault.

  Fault-classification theorems over the decoder model (`Pdlv.decBody`), one per DecodeError
  variant; acceptance and canonical re-encoding against the reference (`Pdlv.Ref`, ideal mode)
  are decided per run by `bin/check C04`.
-/
import Pdlv.Wire
import Pdlv.Runtime

namespace Pdlv

/-- **truncated** — a bit-field group that is cut short is a `LengthError`, never a read -/
theorem truncated_chunk_is_length_error (e : Endian) (ideal : Bool) (fs : List BitField) (bs : Bytes)
    (st : DState) (h : bs.length < chunkBits fs / 8) :
    decChunk e ideal fs bs st = .err .length := by
  unfold decChunk; simp [h]

/-- **fixed field flipped** — a fixed field whose bits differ from its constant is a
    `FixedValueError`, wherever it stands in its group -/
theorem fixed_mismatch_is_fixed_value_error (ideal : Bool) (w c shift chunk : Nat) (fs : List BitField)
    (st : DState) (h : (chunk / 2 ^ shift) % 2 ^ w ≠ c) :
    decChunkFields ideal (.fixed w c :: fs) shift chunk st = .err .fixedValue := by
  simp [decChunkFields, BitField.width, h]

/-- **undeclared enum value** — a value the enum does not declare (closed enum) is an
    `EnumValueError` -/
theorem undeclared_enum_is_enum_value_error (ideal : Bool) (id ty : String) (en : Enum.Decl)
    (shift chunk : Nat) (fs : List BitField) (st : DState)
    (h : Enum.spec en ((chunk / 2 ^ shift) % 2 ^ en.width) = .err) :
    decChunkFields ideal (.enumTy id ty en :: fs) shift chunk st = .err .enumValue := by
  simp [decChunkFields, BitField.width, enumOk, h]

/-- … and a declared one is accepted and bound -/
theorem declared_enum_is_accepted (ideal : Bool) (id ty : String) (en : Enum.Decl)
    (shift chunk : Nat) (fs : List BitField) (st : DState)
    (h : Enum.spec en ((chunk / 2 ^ shift) % 2 ^ en.width) ≠ .err) :
    decChunkFields ideal (.enumTy id ty en :: fs) shift chunk st =
      decChunkFields ideal fs (shift + en.width) chunk
        { st with ctx := (.val id, (chunk / 2 ^ shift) % 2 ^ en.width) :: st.ctx,
                  fields := st.fields ++ [(id, .int ((chunk / 2 ^ shift) % 2 ^ en.width))] } := by
  simp [decChunkFields, BitField.width, enumOk, h]

/-- **extended** — bytes left over after a successful decode are a `TrailingBytesError` -/
theorem extra_bytes_is_trailing_bytes_error (c : Cfg) (b : Body) (bs : Bytes) (v : Value) (r : Bytes)
    (h : decBody c b bs = .ok (v, r)) (hr : r ≠ []) : decodeFull c b bs = .err .trailingBytes := by
  unfold decodeFull
  simp only [h, Outcome.bind]
  cases r with
  | nil => exact absurd rfl hr
  | cons x xs => simp

/-- and an exactly consumed input is accepted with decode's value -/
theorem exact_input_is_accepted (c : Cfg) (b : Body) (bs : Bytes) (v : Value)
    (h : decBody c b bs = .ok (v, [])) : decodeFull c b bs = .ok v := by
  unfold decodeFull; simp [h, Outcome.bind]

/-- the payload size minus its modifier must not go below zero: `LengthError` -/
theorem payload_size_below_modifier (c : Cfg) (m sz : Nat) (bs : Bytes) (st : DState)
    (hs : st.ctx.get (.size "_payload_") = some sz) (h : sz < m) :
    decItem c (.payload (.sized m)) bs st = .err .length := by
  simp [decItem, hs, h]

/-- a size-delimited payload that claims more than remains: `LengthError` -/
theorem payload_size_beyond_input (c : Cfg) (m sz : Nat) (bs : Bytes) (st : DState)
    (hs : st.ctx.get (.size "_payload_") = some sz) (hm : m ≤ sz) (h : bs.length < sz - m) :
    decItem c (.payload (.sized m)) bs st = .err .length := by
  have : ¬ sz < m := by omega
  simp [decItem, hs, this, h]

/-- non-vacuity: on `packet P { _fixed_ = 7 : 8 }` the byte 08 is a FixedValueError -/
example : decBody { e := .little } (.root "P" (.cons (.chunk [.fixed 8 7]) .nil)) [8] = .err .fixedValue := by rfl

end Pdlv
