/-
  C04 — the Rust decoder accepts exactly the reference language and names each fault.

  Fault-classification theorems over the decoder model (`Pdlv.decBody`), one per DecodeError
  variant; acceptance and canonical re-encoding against the reference (`Pdlv.Ref`, ideal mode)
  are decided per run by `bin/check C04`.
-/
import Pdlv.Wire
import Pdlv.Runtime
import Pdlv.Lemmas.Exact
import Pdlv.Thm.C02

namespace Pdlv

/-- **truncated** — a bit-field group that is cut short is a `LengthError`, never a read -/
theorem truncated_chunk_is_length_error (e : Endian) (ideal : Bool) (fs : List BitField) (bs : Bytes)
    (st : DState) (h : bs.length < chunkBits fs / 8) :
    decChunk e ideal fs bs st = .err .length := by
  unfold decChunk; simp [h]

/-- **fixed field flipped** — a fixed field whose bits differ from its constant is a
    `FixedValueError`, wherever it stands in its group -/
theorem fixed_mismatch_is_fixed_value_error (ideal : Bool) (w c shift chunk : Nat) (fs : List BitField)
    (st : DState) (h : (chunk / 2 ^ shift) % 2 ^ w ≠ c) :
    decChunkFields ideal (.fixed w c :: fs) shift chunk st = .err .fixedValue := by
  simp [decChunkFields, BitField.width, h]

/-- **undeclared enum value** — a value the enum does not declare (closed enum) is an
    `EnumValueError` -/
theorem undeclared_enum_is_enum_value_error (ideal : Bool) (id ty : String) (en : Enum.Decl)
    (shift chunk : Nat) (fs : List BitField) (st : DState)
    (h : Enum.spec en ((chunk / 2 ^ shift) % 2 ^ en.width) = .err) :
    decChunkFields ideal (.enumTy id ty en :: fs) shift chunk st = .err .enumValue := by
  simp [decChunkFields, BitField.width, enumOk, h]

/-- … and a declared one is accepted and bound -/
theorem declared_enum_is_accepted (ideal : Bool) (id ty : String) (en : Enum.Decl)
    (shift chunk : Nat) (fs : List BitField) (st : DState)
    (h : Enum.spec en ((chunk / 2 ^ shift) % 2 ^ en.width) ≠ .err) :
    decChunkFields ideal (.enumTy id ty en :: fs) shift chunk st =
      decChunkFields ideal fs (shift + en.width) chunk
        { st with ctx := (.val id, (chunk / 2 ^ shift) % 2 ^ en.width) :: st.ctx,
                  fields := st.fields ++ [(id, .int ((chunk / 2 ^ shift) % 2 ^ en.width))] } := by
  simp [decChunkFields, BitField.width, enumOk, h]

/-- **extended** — bytes left over after a successful decode are a `TrailingBytesError` -/
theorem extra_bytes_is_trailing_bytes_error (c : Cfg) (b : Body) (bs : Bytes) (v : Value) (r : Bytes)
    (h : decBody c b bs = .ok (v, r)) (hr : r ≠ []) : decodeFull c b bs = .err .trailingBytes := by
  unfold decodeFull
  simp only [h, Outcome.bind]
  cases r with
  | nil => exact absurd rfl hr
  | cons x xs => simp

/-- and an exactly consumed input is accepted with decode's value -/
theorem exact_input_is_accepted (c : Cfg) (b : Body) (bs : Bytes) (v : Value)
    (h : decBody c b bs = .ok (v, [])) : decodeFull c b bs = .ok v := by
  unfold decodeFull; simp [h, Outcome.bind]

/-- the payload size minus its modifier must not go below zero: `LengthError` -/
theorem payload_size_below_modifier (c : Cfg) (m sz : Nat) (bs : Bytes) (st : DState)
    (hs : st.ctx.get (.size "_payload_") = some sz) (h : sz < m) :
    decItem c (.payload (.sized m)) bs st = .err .length := by
  simp [decItem, hs, h]

/-- a size-delimited payload that claims more than remains: `LengthError` -/
theorem payload_size_beyond_input (c : Cfg) (m sz : Nat) (bs : Bytes) (st : DState)
    (hs : st.ctx.get (.size "_payload_") = some sz) (hm : m ≤ sz) (h : bs.length < sz - m) :
    decItem c (.payload (.sized m)) bs st = .err .length := by
  have : ¬ sz < m := by omega
  simp [decItem, hs, this, h]

/-- non-vacuity: on `packet P { _fixed_ = 7 : 8 }` the byte 08 is a FixedValueError -/
example : decBody { e := .little } (.root "P" (.cons (.chunk [.fixed 8 7]) .nil)) [8] = .err .fixedValue := by rfl


/-! ### the decoder accepts nothing but reference encodings (slack-free class) -/

theorem fromBytes_lt (e : Endian) (h : Bytes) : rdInt e h < 2 ^ (8 * h.length) := by
  cases e with
  | little => exact fromLE_lt h
  | big => exact fromBE_lt h

theorem getUint_ok (e : Endian) (w : Nat) (bs : Bytes) (x : Nat) (r : Bytes) (h : getUint e w bs = .ok (x, r)) :
    x = rdInt e (bs.take (w / 8)) ∧ r = bs.drop (w / 8) ∧
      (bs.take (w / 8)).length = w / 8 := by
  simp only [getUint] at h
  split at h
  · cases h
  · rename_i hlen
    simp only [Outcome.ok.injEq, Prod.mk.injEq] at h
    exact ⟨by rw [← h.1]; cases e <;> rfl, h.2.symm, by rw [List.length_take]; omega⟩

theorem hasPayload_false_of_modes : ∀ (is : Items), payloadModes is = [] → is.hasPayload = false
  | .nil, _ => rfl
  | .cons i r, h => by
    cases i with
    | payload m => simp [payloadModes] at h
    | chunk fs => simpa [Items.hasPayload] using hasPayload_false_of_modes r (by simpa [payloadModes] using h)
    | array a b c d e => simpa [Items.hasPayload] using hasPayload_false_of_modes r (by simpa [payloadModes] using h)
    | typedef a b c => simpa [Items.hasPayload] using hasPayload_false_of_modes r (by simpa [payloadModes] using h)
    | optional a b c d => simpa [Items.hasPayload] using hasPayload_false_of_modes r (by simpa [payloadModes] using h)

/-- inversion of a successful optional field, with the flag that governed it -/
theorem optional_inv (c : Cfg) (id : String) (ty : Ty) (cid : String) (cval : Nat) (bs : Bytes)
    (st st' : DState) (r : Bytes) (h : decItem c (.optional id ty cid cval) bs st = .ok (st', r)) :
    ∃ cv, st.ctx.get (.val cid) = some cv ∧
      ((cv = cval ∧ ∃ x, decTy c ty bs = .ok (x, r) ∧ st' = { st with fields := st.fields ++ [(id, x)] }) ∨
       (cv ≠ cval ∧ r = bs ∧ st' = { st with fields := st.fields ++ [(id, .null)] })) := by
  simp only [decItem] at h
  cases hctx : st.ctx.get (.val cid) with
  | none => simp [hctx] at h
  | some cv =>
    refine ⟨cv, rfl, ?_⟩
    simp only [hctx] at h
    by_cases hcv : cv = cval
    · simp only [hcv, ↓reduceIte] at h
      have fin : (Outcome.bind (decTy c ty bs) fun x =>
          Outcome.ok ({ ctx := st.ctx, fields := st.fields ++ [(id, x.fst)], payload := st.payload }, x.snd))
            = .ok (st', r) →
          ∃ x, decTy c ty bs = .ok (x, r) ∧ st' = { st with fields := st.fields ++ [(id, x)] } := by
        intro hb
        obtain ⟨⟨x, r'⟩, h1, h2⟩ := bind_ok _ _ _ hb
        simp only [Outcome.ok.injEq, Prod.mk.injEq] at h2
        exact ⟨x, by rw [h1, h2.2], h2.1.symm⟩
      refine Or.inl ⟨hcv, ?_⟩
      cases ty with
      | scalar w =>
        simp only at h
        split at h
        · cases h
        · exact fin h
      | enumTy nm en =>
        simp only at h
        split at h
        · cases h
        · exact fin h
      | custom nm w =>
        simp only [Bool.false_eq_true, ↓reduceIte] at h
        exact fin h
      | struct nm b =>
        simp only [Bool.false_eq_true, ↓reduceIte] at h
        exact fin h
    · simp only [hcv, ↓reduceIte, Outcome.ok.injEq, Prod.mk.injEq] at h
      exact Or.inr ⟨hcv, h.2.symm, h.1.symm⟩

/-- a decoded field value is never the absent value -/
theorem decTy_not_null (c : Cfg) (ty : Ty) (hw : exactWfTy ty = true) (bs : Bytes) (x : Value) (r : Bytes)
    (h : decTy c ty bs = .ok (x, r)) : x ≠ .null := by
  cases ty with
  | scalar w =>
    simp only [decTy] at h
    obtain ⟨⟨n, r'⟩, _, h2⟩ := bind_ok _ _ _ h
    simp only [Outcome.ok.injEq, Prod.mk.injEq] at h2
    rw [← h2.1]; simp
  | enumTy nm en =>
    simp only [decTy] at h
    obtain ⟨⟨n, r'⟩, _, h2⟩ := bind_ok _ _ _ h
    simp only at h2
    split at h2
    · simp only [Outcome.ok.injEq, Prod.mk.injEq] at h2
      rw [← h2.1]; simp
    · cases h2
  | custom nm w =>
    simp only [decTy] at h
    split at h
    · cases h
    · obtain ⟨⟨n, r'⟩, _, h2⟩ := bind_ok _ _ _ h
      simp only [Outcome.ok.injEq, Prod.mk.injEq] at h2
      rw [← h2.1]; simp
  | struct nm b =>
    cases b with
    | root nm' items =>
      simp only [decTy, decBody] at h
      obtain ⟨⟨fin, r'⟩, _, h2⟩ := bind_ok _ _ _ h
      simp only [Outcome.ok.injEq, Prod.mk.injEq] at h2
      rw [← h2.1]; simp
    | derived a b c d e => simp [exactWfTy] at hw

/-- the encoder's inlined optional scalar writes what the element encoder writes (reference mode) -/
theorem encOptional_of_encTy (c : Cfg) (hc : c.mode = .ideal) (all : Items) (pe : Enc Bytes) (pl : Nat) (v : Value)
    (id : String) (ty : Ty) (cid : String) (cval : Nat) (x : Value) (hx : x ≠ .null) (hg : v.get? id = some x)
    (es : Bytes) (h : encTy c ty x = .ok es) :
    encItem c all pe pl v (.optional id ty cid cval) = .ok es := by
  cases x with
  | null => exact absurd rfl hx
  | int n =>
    cases ty with
    | scalar w =>
      simp only [encTy, elemOutOfRange, hc] at h
      simp only [encItem, hg]
      split at h
      · cases h
      · rename_i h1
        split at h
        · cases h
        · rename_i h2
          simp only [decide_eq_true_eq] at h2
          rw [if_neg h1, if_neg (fun hh => h2 hh.2)]; exact h
    | _ => simpa [encItem, hg] using h
  | arr vs =>
    cases ty with
    | scalar w => simp [encTy] at h
    | _ => simpa [encItem, hg] using h
  | obj fs =>
    cases ty with
    | scalar w => simp [encTy] at h
    | _ => simpa [encItem, hg] using h

theorem Fact_of_optItems (all is is' : Items) (pl : Nat) (v : Value) (k : Key) (y : Nat)
    (h : optItems is' = optItems is) (hf : Fact all is pl v k y) : Fact all is' pl v k y := by
  cases k <;> simp only [Fact, h] at hf ⊢ <;> exact hf


mutual
/-- field and element types: what the decoder consumed is the reference encoding of what it returned -/
theorem ty_exact (ce cd : Cfg) (hce : ce.mode = .ideal) (hee : ce.e = cd.e) : ∀ (ty : Ty), exactWfTy ty = true →
    ElemExact (encTy ce ty) (decTy cd ty)
  | .scalar w, hw => by
    intro bs x rest hd
    simp only [exactWfTy, Bool.and_eq_true, beq_iff_eq, decide_eq_true_eq] at hw
    simp only [decTy] at hd
    obtain ⟨⟨n, r⟩, h1, h2⟩ := bind_ok _ _ _ hd
    simp only [Outcome.ok.injEq, Prod.mk.injEq] at h2
    obtain ⟨rfl, rfl⟩ := h2
    obtain ⟨hn, hr, hl⟩ := getUint_ok cd.e w bs n r h1
    have h8 : 8 * (w / 8) = w := by omega
    have hlt : n < 2 ^ w := by
      have := fromBytes_lt cd.e (bs.take (w / 8))
      rw [hl, h8, ← hn] at this; exact this
    have hb := Nat.pow_le_pow_right (by decide : 2 > 0) (backingOf_ge w hw.2)
    refine ⟨bs.take (w / 8), ?_, by rw [hr]; exact (List.take_append_drop _ _).symm⟩
    simp only [encTy]
    rw [if_neg (by omega)]
    have hmask : ¬ (n > maskBits w) := by simp only [maskBits]; omega
    have : elemOutOfRange ce.mode w n = false := by
      simp only [elemOutOfRange, hce]; exact decide_eq_false hmask
    simp only [this, Bool.false_eq_true, ↓reduceIte, Outcome.ok.injEq]
    rw [hn, hee]; exact putUint_getBytes cd.e w _ hl
  | .enumTy nm en, hw => by
    intro bs x rest hd
    simp only [exactWfTy, Bool.and_eq_true, beq_iff_eq, decide_eq_true_eq] at hw
    simp only [decTy] at hd
    obtain ⟨⟨n, r⟩, h1, h2⟩ := bind_ok _ _ _ hd
    simp only at h2
    split at h2
    · rename_i hok
      simp only [Outcome.ok.injEq, Prod.mk.injEq] at h2
      obtain ⟨rfl, rfl⟩ := h2
      obtain ⟨hn, hr, hl⟩ := getUint_ok cd.e en.width bs n r h1
      refine ⟨bs.take (en.width / 8), ?_, by rw [hr]; exact (List.take_append_drop _ _).symm⟩
      simp only [encTy, hok, ↓reduceIte, Outcome.ok.injEq]
      rw [hn, hee]; exact putUint_getBytes cd.e en.width _ hl
    · cases h2
  | .custom nm w, hw => by
    intro bs x rest hd
    simp only [exactWfTy, beq_iff_eq] at hw
    simp only [decTy] at hd
    split at hd
    · cases hd
    · obtain ⟨⟨n, r⟩, h1, h2⟩ := bind_ok _ _ _ hd
      simp only [Outcome.ok.injEq, Prod.mk.injEq] at h2
      obtain ⟨rfl, rfl⟩ := h2
      obtain ⟨hn, hr, hl⟩ := getUint_ok cd.e w bs n r h1
      have h8 : 8 * (w / 8) = w := by omega
      have hlt : n < 2 ^ w := by
        have := fromBytes_lt cd.e (bs.take (w / 8))
        rw [hl, h8, ← hn] at this; exact this
      refine ⟨bs.take (w / 8), ?_, by rw [hr]; exact (List.take_append_drop _ _).symm⟩
      simp only [encTy, hlt, ↓reduceIte, Outcome.ok.injEq]
      rw [hn, hee]; exact putUint_getBytes cd.e w _ hl
  | .struct _ (.root nm items), hw => by
    intro bs x rest hd
    simp only [exactWfTy, exactLevel, Bool.and_eq_true, decide_eq_true_eq, Bool.not_eq_true', List.contains_eq_mem,
      decide_eq_false_iff_not] at hw
    obtain ⟨hwi, ⟨⟨⟨⟨hnd, hpm⟩, hkb⟩, hids⟩, hnop⟩⟩ := hw
    simp only [decTy, decBody] at hd
    obtain ⟨⟨fin, r⟩, h1, h2⟩ := bind_ok _ _ _ hd
    simp only [Outcome.ok.injEq, Prod.mk.injEq] at h2
    obtain ⟨rfl, rfl⟩ := h2
    obtain ⟨hkeys, hpsome⟩ := decItems_ids cd items bs r DState.empty fin h1
    simp only [DState.empty, List.map_nil, List.nil_append] at hkeys
    -- the decoded value, and lookups in it
    have hag : ∀ id y, (id, y) ∈ fin.fields →
        (Value.obj (fin.fields ++ (match fin.payload with
          | some p => [("payload", Value.ofBytes p)] | none => []))).get? id = some y := by
      intro id y hm
      simp only [Value.get?, Value.fields]
      rw [List.lookup_append, lookup_of_mem_nodup fin.fields id y (by rw [hkeys]; exact hids) hm]; rfl
    have hex := items_exact ce cd hce hee items (fin.payload.getD []) _ hnd fin hag
      (by intro p' hp'; simp [hp']) items bs r DState.empty hwi hkb hpm (fun t ht => ht)
      (payloadMode_of_modes items hpm) h1
    obtain ⟨⟨es, he, hbs⟩, _⟩ := hex
    refine ⟨es, ?_, hbs⟩
    simp only [encTy, encBody]
    by_cases hh : items.hasPayload = true
    · obtain ⟨p, hp⟩ := hpsome hh
      have hlk : fin.fields.lookup "payload" = none := by
        rw [List.lookup_eq_none_iff]
        intro kv hkv
        simp only [bne_iff_ne, ne_eq]
        intro hk
        apply hnop
        rw [← hkeys]
        exact List.mem_map.mpr ⟨kv, hkv, hk.symm⟩
      simp only [hh, ↓reduceIte, hp, Value.get?, Value.fields]
      rw [List.lookup_append, hlk]
      simp only [Option.none_or, List.lookup, BEq.rfl, Option.bind_some, valBytes_ofBytes]
      simpa [hp] using he
    · have hh' : items.hasPayload = false := by simpa using hh
      have hpn : fin.payload = none := by
        rw [(decItems_mono cd items bs r DState.empty fin h1).2.1 hh']; rfl
      simp only [hh', Bool.false_eq_true, ↓reduceIte]
      simpa [hpn] using he
  | .struct _ (.derived ..), hw => by simp [exactWfTy] at hw

/-- **the field list, decoder to encoder**: when the items `is` decode to the final state `fin`, the
    reference-mode encoder applied to the decoded value writes exactly the octets consumed, and every
    context entry the items consumed (a size or count) is the one the encoder recomputes -/
theorem items_exact (ce cd : Cfg) (hce : ce.mode = .ideal) (hee : ce.e = cd.e) (all : Items) (p : Bytes) (v : Value)
    (hnd : (arrayIds all).Nodup) (fin : DState) (hag : ∀ id x, (id, x) ∈ fin.fields → v.get? id = some x)
    (hpay : ∀ p', fin.payload = some p' → p' = p) :
    ∀ (is : Items) (bs rest : Bytes) (st : DState),
      exactWfItems is = true → (keysBound is).Nodup → (payloadModes is).length ≤ 1 →
      (∀ t ∈ arrayItems is, t ∈ arrayItems all) → (∀ md ∈ payloadModes is, payloadMode all = some md) →
      decItems cd is bs st = .ok (fin, rest) →
      (∃ es, encItems ce all (.ok p) p.length v is = .ok es ∧ bs = es ++ rest) ∧
      (∀ k y, st.ctx.get k = some y → k ∉ keysBound is → consumes is k = true → Fact all is p.length v k y)
  | .nil, bs, rest, st, _, _, _, _, _, hd => by
    simp only [decItems, Outcome.ok.injEq, Prod.mk.injEq] at hd
    refine ⟨⟨[], by simp [encItems], by simp [hd.2]⟩, ?_⟩
    intro k y _ _ hc
    cases k with
    | val id => simp [Fact, optItems]
    | _ => simp [consumes, arrayShape, payloadMode] at hc
  | .cons i r, bs, rest, st, hw, hkb, hpl, harr, hpm, hd => by
    simp only [exactWfItems, Bool.and_eq_true] at hw
    obtain ⟨hwi, hwr⟩ := hw
    simp only [decItems] at hd
    obtain ⟨⟨st1, b1⟩, h1, h2⟩ := bind_ok _ _ _ hd
    have hkb_r : (keysBound r).Nodup := by
      cases i with
      | chunk fs => simp only [keysBound, List.nodup_append] at hkb; exact hkb.2.1
      | _ => simpa [keysBound] using hkb
    have hpl_r : (payloadModes r).length ≤ 1 := by
      cases i with
      | payload m => simp only [payloadModes, List.length_cons] at hpl; omega
      | _ => simpa [payloadModes] using hpl
    have harr_r : ∀ t ∈ arrayItems r, t ∈ arrayItems all := by
      intro t ht; apply harr
      cases i <;> simp [arrayItems, ht]
    have hpm_r : ∀ md ∈ payloadModes r, payloadMode all = some md := by
      intro md hmd; apply hpm
      cases i <;> simp [payloadModes, hmd]
    obtain ⟨⟨es2, he2, hb2⟩, hfacts⟩ := items_exact ce cd hce hee all p v hnd fin hag hpay r b1 rest st1 hwr hkb_r hpl_r
      harr_r hpm_r h2
    obtain ⟨⟨ext, hext⟩, hpk, hck⟩ := decItems_mono cd r b1 rest st1 fin h2
    have hag1 : ∀ id x, (id, x) ∈ st1.fields → v.get? id = some x :=
      fun id x hm => hag id x (by rw [hext]; exact List.mem_append_left _ hm)
    -- assembling the two halves
    have fin1 : ∀ es1, encItem ce all (.ok p) p.length v i = .ok es1 → bs = es1 ++ b1 →
        ∃ es, encItems ce all (.ok p) p.length v (.cons i r) = .ok es ∧ bs = es ++ rest := by
      intro es1 q1 q2
      exact ⟨es1 ++ es2, by simp [encItems, q1, he2, Outcome.bind], by rw [q2, hb2, List.append_assoc]⟩
    cases i with
    | optional id ty cid cval =>
      simp only [exactWfItem] at hwi
      obtain ⟨cv, hcv, hcase⟩ := optional_inv cd id ty cid cval bs st st1 b1 h1
      have hctx1 : st1.ctx = st.ctx := by
        rcases hcase with ⟨_, x, _, rfl⟩ | ⟨_, _, rfl⟩ <;> rfl
      -- presence of the field against the flag
      have hpres : isPresent v id = true ↔ cv = cval := by
        rcases hcase with ⟨hc, x, hx, rfl⟩ | ⟨hc, _, rfl⟩
        · have hget : v.get? id = some x := hag1 id x (by simp)
          have hnn := decTy_not_null cd ty hwi bs x b1 hx
          refine ⟨fun _ => hc, fun _ => ?_⟩
          cases x <;> first | exact absurd rfl hnn | simp [isPresent, hget]
        · have hget : v.get? id = some .null := hag1 id .null (by simp)
          refine ⟨fun h => ?_, fun h => absurd h hc⟩
          simp [isPresent, hget] at h
      refine ⟨?_, ?_⟩
      · rcases hcase with ⟨hc, x, hx, rfl⟩ | ⟨hc, hb, rfl⟩
        · obtain ⟨es1, q1, q2⟩ := ty_exact ce cd hce hee ty hwi bs x b1 hx
          have hget : v.get? id = some x := hag1 id x (by simp)
          exact fin1 es1 (encOptional_of_encTy ce hce all _ _ v id ty cid cval x
            (decTy_not_null cd ty hwi bs x b1 hx) hget es1 q1) q2
        · have hget : v.get? id = some .null := hag1 id .null (by simp)
          exact fin1 [] (by simp [encItem, hget]) (by simp [hb])
      · intro k y hy hnk hc
        have hc' : consumes r k = true := by
          cases k <;> first | rfl | simpa [consumes, arrayShape, payloadMode] using hc
        have hf := hfacts k y (by rw [hctx1]; exact hy) (by simpa [keysBound] using hnk) hc'
        cases k with
        | val k' =>
          simp only [Fact, optItems, List.mem_cons, Prod.mk.injEq] at hf ⊢
          intro oid cv' hm
          rcases hm with ⟨rfl, rfl, rfl⟩ | hm
          · rw [hcv] at hy
            simp only [Option.some.injEq] at hy
            subst hy; exact hpres
          · exact hf oid cv' hm
        | size t => exact hf
        | count t => exact hf
        | esize t => exact hf
    | chunk fs =>
      simp only [exactWfItem, Bool.and_eq_true, beq_iff_eq, List.all_eq_true] at hwi
      obtain ⟨hbits, hbf⟩ := hwi
      simp only [keysBound, List.nodup_append] at hkb
      obtain ⟨hndc, _, hdisj⟩ := hkb
      simp only [decItem, decChunk] at h1
      split at h1
      · cases h1
      · rename_i hlen
        obtain ⟨stc, hc1, hc2⟩ := bind_ok _ _ _ h1
        simp only [Outcome.ok.injEq, Prod.mk.injEq] at hc2
        obtain ⟨rfl, rfl⟩ := hc2
        have hc1' : decChunkFields (cd.mode == .ideal) fs 0 (rdInt cd.e (bs.take (chunkBits fs / 8))) st = .ok stc := by
          cases hE : cd.e <;> simpa [rdInt, hE] using hc1
        have hfact1 : ∀ k ∈ chunkKeys fs, ∀ y, stc.ctx.get k = some y → Fact all r p.length v k y := by
          intro k hk y hy
          rcases bfExact_consumes r fs k hbf hk with ⟨id, rfl⟩ | hc
          · exact hfacts _ y hy (fun hkr => hdisj _ hk _ hkr rfl) rfl
          · exact hfacts k y hy (fun hkr => hdisj k hk k hkr rfl) hc
        have hce' := chunk_exact (cd.mode == .ideal) all r p.length v
          (fun md h => hpm_r md (payloadMode_mem r md h)) fs 0 _ 0 st stc hbf hndc hc1' hag1 hfact1
        have hl : (bs.take (chunkBits fs / 8)).length = chunkBits fs / 8 := by rw [List.length_take]; omega
        have hlt := fromBytes_lt cd.e (bs.take (chunkBits fs / 8))
        have h8 : 8 * (chunkBits fs / 8) = chunkBits fs := by omega
        rw [hl, h8] at hlt
        simp only [Nat.pow_zero, Nat.div_one, Nat.mul_one, Nat.zero_add, Nat.mod_eq_of_lt hlt] at hce'
        refine ⟨fin1 (bs.take (chunkBits fs / 8)) ?_ (List.take_append_drop _ _).symm, ?_⟩
        · simp only [encItem, hce, BEq.rfl, hce', Outcome.bind, Outcome.ok.injEq]
          rw [hee]; exact putUint_getBytes cd.e _ _ hl
        · intro k y hy hnk hc
          simp only [keysBound, List.mem_append, not_or] at hnk
          have hmono := (decChunkFields_mono _ fs _ _ st stc hc1').2.2 k hnk.1
          have hc' : consumes r k = true := by
            cases k <;> first | rfl | simpa [consumes, arrayShape, payloadMode] using hc
          exact Fact_of_optItems all r _ _ v k y (by simp [optItems])
            (hfacts k y (by rw [hmono]; exact hy) hnk.2 hc')
    | typedef id ty sb =>
      simp only [exactWfItem] at hwi
      obtain ⟨x, hx, rfl⟩ := typedef_ok cd id ty sb bs st st1 b1 h1
      obtain ⟨es1, q1, q2⟩ := ty_exact ce cd hce hee ty hwi bs x b1 hx
      have hget : v.get? id = some x := hag1 id x (by simp)
      refine ⟨fin1 es1 (by simp only [encItem, hget]; exact q1) q2, ?_⟩
      intro k y hy hnk hc
      have hc' : consumes r k = true := by
        cases k <;> first | rfl | simpa [consumes, arrayShape, payloadMode] using hc
      exact Fact_of_optItems all r _ _ v k y (by simp [optItems])
        (hfacts k y hy (by simpa [keysBound] using hnk) hc')
    | payload mode =>
      obtain ⟨p', rfl, hbs, hsz⟩ := payload_item_ok cd mode bs b1 st st1 h1
      have hr0 : payloadModes r = [] := by
        simp only [payloadModes, List.length_cons] at hpl
        cases hr : payloadModes r with
        | nil => rfl
        | cons _ _ => simp [hr] at hpl
      have hpp : p' = p := hpay p' (by rw [hpk (hasPayload_false_of_modes r hr0)])
      subst hpp
      refine ⟨fin1 p' (by simp [encItem]) hbs, ?_⟩
      intro k y hy hnk hc
      have hall : payloadMode all = some mode := hpm mode (by simp [payloadModes])
      cases k with
      | size t =>
        by_cases ht : t = "_payload_"
        · subst ht
          simp only [consumes, BEq.rfl, ↓reduceIte, payloadMode] at hc
          cases mode with
          | sized m =>
            obtain ⟨sz, hsz1, hsz2⟩ := hsz m rfl
            rw [hsz1] at hy
            simp only [Option.some.injEq] at hy
            subst hy
            refine ⟨fun _ m' hm' => ?_, fun hne => absurd rfl hne⟩
            rw [hall] at hm'
            simp only [Option.some.injEq, PayloadMode.sized.injEq] at hm'
            subst hm'; exact hsz2
          | last => simp at hc
          | beforeStatic k => simp at hc
          | undelimited => simp at hc
        · have hb : (t == "_payload_") = false := by simpa using ht
          have hc' : consumes r (.size t) = true := by simpa [consumes, hb, arrayShape] using hc
          exact hfacts _ y hy (by simpa [keysBound] using hnk) hc'
      | count t =>
        have hc' : consumes r (.count t) = true := by simpa [consumes, arrayShape] using hc
        exact hfacts _ y hy (by simpa [keysBound] using hnk) hc'
      | esize t => simp [consumes] at hc
      | val id =>
        exact Fact_of_optItems all r _ _ v _ y (by simp [optItems])
          (hfacts _ y hy (by simpa [keysBound] using hnk) rfl)
    | array id elem ew shape pad =>
      simp only [exactWfItem, Bool.and_eq_true, Option.isNone_iff_eq_none, bne_iff_ne, ne_eq] at hwi
      obtain ⟨⟨⟨⟨⟨hpad, hwt⟩, hlw⟩, hidp⟩, hidb⟩, hew⟩ := hwi
      subst hpad
      obtain ⟨vs, hda, rfl⟩ := array_item_ok cd id elem ew shape bs b1 st st1 h1
      have hget : v.get? id = some (.arr vs) := hag1 id _ (by simp)
      have hnotdyn : ew ≠ .dynamic := by
        intro h; subst h; simp at hew
      obtain ⟨es1, q1, q2, qn, qc, qs⟩ := array_exact cd.mode (encTy ce elem) (decTy cd elem)
        (ty_exact ce cd hce hee elem hwt) ew shape _ _ _ bs vs b1 hnotdyn
        (fun w hs x b hx => by
          subst hs
          exact encTy_static ce elem x b w (by simpa using hew) hx) hda
      have hlen : es1.length = sumLen (lenTy elem) vs :=
        encListWith_length (encTy ce elem) (lenTy elem) (fun x b hx => encTy_len ce elem x b hlw hx) vs es1 q1
      refine ⟨fin1 es1 ?_ q2, ?_⟩
      · have hcc : checkCount shape vs.length = .ok () := by
          cases shape with
          | static n => simp [checkCount, qn n rfl]
          | _ => rfl
        simp only [encItem, listField, hget, Outcome.bind, hcc, checkPad, q1, padTo]
      · intro k y hy hnk hc
        have hfa := firstArray_of_mem all id elem ew (harr _ (by simp [arrayItems])) hnd
        cases k with
        | count t =>
          by_cases ht : id = t
          · subst ht
            simp only [consumes, arrayShape, BEq.rfl, ↓reduceIte, beq_iff_eq, Option.some.injEq] at hc
            have := qc hc
            rw [this] at hy
            simp only [Option.some.injEq] at hy
            exact ⟨vs, by simp [listField, hget], hy⟩
          · have hb : (id == t) = false := by simpa using ht
            have hc' : consumes r (.count t) = true := by simpa [consumes, arrayShape, hb] using hc
            exact hfacts _ y hy (by simpa [keysBound] using hnk) hc'
        | size t =>
          by_cases htp : t = "_payload_"
          · subst htp
            have hc' : consumes r (.size "_payload_") = true := by simpa [consumes, payloadMode] using hc
            exact hfacts _ y hy (by simpa [keysBound] using hnk) hc'
          · have hbp : (t == "_payload_") = false := by simpa using htp
            by_cases ht : id = t
            · subst ht
              simp only [consumes, hbp, Bool.false_eq_true, ↓reduceIte, arrayShape, BEq.rfl, beq_iff_eq,
                Option.some.injEq] at hc
              have := qs hc
              rw [this] at hy
              simp only [Option.some.injEq] at hy
              refine ⟨fun h => absurd h htp, fun _ => ?_⟩
              have hbb : (id == "_body_") = false := by simpa using hidb
              simp only [sizeOfTarget, hbp, hbb, Bool.or_self, Bool.false_eq_true, ↓reduceIte]
              rw [sizeFind_of_firstArray v all id elem ew vs hfa hget, ← hy, hlen]
            · have hb : (id == t) = false := by simpa using ht
              have hc' : consumes r (.size t) = true := by simpa [consumes, hbp, arrayShape, hb] using hc
              exact hfacts _ y hy (by simpa [keysBound] using hnk) hc'
        | esize t => simp [consumes] at hc
        | val id' =>
          exact Fact_of_optItems all r _ _ v _ y (by simp [optItems])
            (hfacts _ y hy (by simpa [keysBound] using hnk) rfl)
end


/-- **C04, "accepts only the reference language".**  For every packet or struct without parent in the
    slack-free class (`exactWfBody`: decidable, evaluated by the check on every generated layout — no reserved
    bits, padding, element-size fields, array size modifiers; every size / count field delimits a later array
    or the payload; every condition flag governs optional fields that follow it), both byte orders, the decoder model in either mode and EVERY byte string: if
    `decode` returns `(v, rest)` then the reference-mode encoder accepts `v` and writes exactly the octets that
    were consumed — closed enums, fixed fields, size / count fields, array element sizes all checked on the way
    in are exactly what the encoder writes on the way out.  No bound on lengths, counts, nesting. -/
theorem decode_exact (e : Endian) (m : Mode) (nm : String) (items : Items) (hw : exactWfBody (.root nm items) = true)
    (bs : Bytes) (v : Value) (rest : Bytes) (hd : decBody { e := e, mode := m } (.root nm items) bs = .ok (v, rest)) :
    ∃ es, encBody { e := e, mode := .ideal } (.root nm items) v = .ok es ∧ bs = es ++ rest := by
  have := ty_exact { e := e, mode := .ideal } { e := e, mode := m } rfl rfl (.struct nm (.root nm items))
    (by simpa [exactWfTy, exactWfBody] using hw) bs v rest (by simpa [decTy] using hd)
  simpa [encTy] using this

/-- `decode_full` accepts `bs` only if `bs` is the reference encoding of the value it returns -/
theorem decode_full_exact (e : Endian) (m : Mode) (nm : String) (items : Items)
    (hw : exactWfBody (.root nm items) = true) (bs : Bytes) (v : Value)
    (hd : decodeFull { e := e, mode := m } (.root nm items) bs = .ok v) :
    encBody { e := e, mode := .ideal } (.root nm items) v = .ok bs := by
  simp only [decodeFull] at hd
  obtain ⟨⟨v', r⟩, h1, h2⟩ := bind_ok _ _ _ hd
  simp only at h2
  split at h2
  · rename_i hr
    simp only [Outcome.ok.injEq] at h2
    subst h2
    obtain ⟨es, q1, q2⟩ := decode_exact e m nm items hw bs v' r h1
    have : r = [] := by simpa using hr
    rw [this, List.append_nil] at q2
    rw [q2]; exact q1
  · cases h2

/-- … and those octets are the bit-level reference encoding of doc/reference.md -/
theorem accepted_is_reference (e : Endian) (m : Mode) (nm : String) (items : Items)
    (hw : exactWfBody (.root nm items) = true) (hr : refWfBody (.root nm items) = true) (bs : Bytes) (v : Value)
    (hd : decodeFull { e := e, mode := m } (.root nm items) bs = .ok v) :
    Ref.encode e (.root nm items) v = some bs :=
  encode_ideal_eq_ref e _ hr v bs (decode_full_exact e m nm items hw bs v hd)

/-- **C04, both directions** on the intersection of the slack-free and the round-trippable class:
    `decode_full` accepts `bs` with value `v` exactly when `v` is in normal form and `bs` is the
    reference-mode encoding of `v` -/
theorem decode_full_iff (e : Endian) (m : Mode) (nm : String) (items : Items)
    (hw : exactWfBody (.root nm items) = true) (hrt : rtWfBody (.root nm items) = true) (bs : Bytes) (v : Value)
    (hb : bs.length < usizeMax) :
    decodeFull { e := e, mode := m } (.root nm items) bs = .ok v ↔
      (encBody { e := e, mode := .ideal } (.root nm items) v = .ok bs ∧ canonBody (.root nm items) v = v) := by
  constructor
  · intro hd
    have he := decode_full_exact e m nm items hw bs v hd
    have hrt' := roundtrip_full e m nm items hrt v bs he hb
    rw [hd] at hrt'
    simp only [Outcome.ok.injEq] at hrt'
    exact ⟨he, hrt'.symm⟩
  · intro ⟨he, hc⟩
    exact roundtrip_id e m nm items hrt v hc bs he hb

/-! non-vacuity: `packet P { _count_(x): 8, t: 8, x: 16[], _size_(_payload_): 8, _payload_ }` is in the slack-free
    class, and its decoder accepts `02 07 01 00 02 00 01 aa` -/
example :
    let items : Items := .cons (.chunk [.count "x" 8, .scalar "t" 8])
      (.cons (.array "x" (.scalar 16) (.static 2) .countField none)
      (.cons (.chunk [.size "_payload_" 8 0]) (.cons (.payload (.sized 0)) .nil)))
    exactWfBody (.root "P" items) = true ∧
    (decodeFull { e := .little } (.root "P" items) [2, 7, 1, 0, 2, 0, 1, 0xaa]).isOk = true := by
  refine ⟨by decide, by rfl⟩

/-! … and so is `packet Q { c: 1, d: 1, t: 6, a: 8 if c = 1, b: 16 if d = 0 }`, whose decoder accepts `41 09`
    (a present, b absent) -/
example :
    let items : Items := .cons (.chunk [.flag "c" [("a", 1)], .flag "d" [("b", 0)], .scalar "t" 6])
      (.cons (.optional "a" (.scalar 8) "c" 1) (.cons (.optional "b" (.scalar 16) "d" 0) .nil))
    exactWfBody (.root "Q" items) = true ∧
    decodeFull { e := .little } (.root "Q" items) [0x43, 9] =
      .ok (.obj [("t", .int 16), ("a", .int 9), ("b", .null)]) := by
  refine ⟨by decide, by rfl⟩

/-- **KF-C04-esize-narrow-static**: `struct Rec1 { body: 8[4] } packet Es1 { _elementsize_(r1): 2, fl1: 6, r1: Rec1[] }`
    (big-endian).  An element-size field is not consulted for elements of static size: `c7 94 b3 f1 c1` (element size 3
    announced, one element of 4 octets present) is accepted by the reference decoder and by the model of the emitted decoder
    alike, but the value cannot be written back — element size 4 does not fit the 2-bit field — so the clause
    `encode(decode_full(b)) = b` is false of this layout for both; the layout is outside `exactWfBody` -/
theorem esize_too_narrow_accepted_but_unencodable :
    let rec1 : Body := .root "Rec1" (.cons (.array "body" (.scalar 8) (.static 1) (.static 4) none) .nil)
    let items : Items := .cons (.chunk [.elemSize "r1" 2, .scalar "fl1" 6])
      (.cons (.array "r1" (.struct "Rec1" rec1) (.static 4) .unknown none) .nil)
    let v : Value := .obj [("fl1", .int 49), ("r1", .arr [.obj [("body", .arr [.int 148, .int 179, .int 241, .int 193])]])]
    exactWfBody (.root "Es1" items) = false ∧
    decodeFull { e := .big, mode := .ideal } (.root "Es1" items) [0xc7, 0x94, 0xb3, 0xf1, 0xc1] = .ok v ∧
    decodeFull { e := .big, mode := .rust } (.root "Es1" items) [0xc7, 0x94, 0xb3, 0xf1, 0xc1] = .ok v ∧
    encBody { e := .big, mode := .ideal } (.root "Es1" items) v = .err .sizeOverflow ∧
    encBody { e := .big, mode := .rust } (.root "Es1" items) v = .err .sizeOverflow := by
  refine ⟨by decide, by rfl, by rfl, by rfl, by rfl⟩


end Pdlv
