/-
  C19 — what the Java back end emits for bit-field groups (model: `Pdlv.Java`, tied to the emitted classes by
  differential execution on every packet made of bit-fields) against the reference encoding.
-/
import Pdlv.Lemmas.JavaChunk
import Pdlv.Lemmas.JavaArrays
import Pdlv.Lemmas.JavaEnumArrays
import Pdlv.Lemmas.JavaSerChild
import Pdlv.JavaStruct
import Pdlv.Lemmas.JavaStructSame
import Pdlv.Thm.C03

namespace Pdlv
namespace Java


theorem items_ref (en : Endian) (all : Items) (p : Bytes) (v : Value) : ∀ (is : Items) (bs : Bytes),
    wfItems is = true → Pdlv.encItems { e := en, mode := .ideal } all (.ok p) p.length v is = .ok bs →
      Java.encItems en all p v is = .ok bs
  | .nil, bs, _, h => by simpa [Pdlv.encItems, Java.encItems] using h
  | .cons i r, bs, hw, h => by
    cases i with
    | chunk fs =>
      simp only [wfItems, Bool.and_eq_true] at hw
      simp only [Pdlv.encItems] at h
      obtain ⟨a, ha, h2⟩ := bind_ok _ _ _ h
      obtain ⟨b, hb, h3⟩ := bind_ok _ _ _ h2
      simp only [Pdlv.encItem, BEq.rfl] at ha
      obtain ⟨X, hX, h4⟩ := bind_ok _ _ _ ha
      simp only [Outcome.ok.injEq] at h4
      simp only [Java.encItems, chunk_ref en all p.length v fs (by simp only [chunkWf, Bool.and_eq_true, decide_eq_true_eq] at hw; exact ⟨bfOkE_of_J fs hw.1.1, hw.1.2⟩) X hX, Outcome.bind, items_ref en all p v r b hw.2 hb, h4]
      exact h3
    | typedef a b c => simp [wfItems] at hw
    | optional a b c d => simp [wfItems] at hw
    | payload m => simp [wfItems] at hw
    | array a b c d e => simp [wfItems] at hw

/-- **C19, bit-field groups.**  For every packet or struct without parent made of scalars, enums, fixed values and
    reserved bits in groups of at most 32 bits (`Java.wfBody`: decidable, evaluated per run), both byte orders, and every
    value the reference assigns an encoding to: the model of the emitted `toBytes()` — each field widened without sign,
    shifted to its offset in `int`, the shifted fields OR-ed and cast to the group's type — writes exactly the reference
    encoding.  Java's signed types, the masked shift distances and the casts `ExprTree` inserts lose nothing below
    33 bits. -/
theorem java_packs_groups_up_to_32_bits (c : Cfg) (nm : String) (items : Items) (hw : wfBody (.root nm items) = true)
    (hr : refWfBody (.root nm items) = true) (v : Value) (bs : Bytes)
    (h : Pdlv.encBody { e := c.e, mode := .ideal } (.root nm items) v = .ok bs) :
    Java.encBody c (.root nm items) v = .ok bs ∧ Ref.encode c.e (.root nm items) v = some bs := by
  refine ⟨?_, encode_ideal_eq_ref c.e _ hr v bs h⟩
  simp only [wfBody] at hw
  simp only [Pdlv.encBody] at h
  simp only [Java.encBody]
  split at h
  · cases h
  · rename_i p hp
    simp only [hp]
    exact items_ref c.e items p v items bs hw h

/-- **C19, size and count fields, arrays, payloads (serializer).**  For every packet or struct without parent made of bit-field
    groups of at most 32 bits — size and count fields with their modifiers among them —, arrays of scalars of whole octets and
    payloads (`Java.encWfItems`: decidable, evaluated per run), both byte orders, and every value the reference assigns an
    encoding to: the model of the emitted `toBytes()` — the size expression summed in `int`, the `fieldWidth`-style range
    check, `encode_bytes` per element — writes exactly the reference encoding. -/
theorem java_writes_arrays_and_payloads (c : Cfg) (nm : String) (items : Items) (hw : encWfItems items = true)
    (hr : refWfBody (.root nm items) = true) (v : Value) (bs : Bytes)
    (h : Pdlv.encBody { e := c.e, mode := .ideal } (.root nm items) v = .ok bs) :
    Java.encBody c (.root nm items) v = .ok bs ∧ Ref.encode c.e (.root nm items) v = some bs := by
  refine ⟨?_, encode_ideal_eq_ref c.e _ hr v bs h⟩
  simp only [Pdlv.encBody] at h
  simp only [Java.encBody]
  split at h
  · cases h
  · rename_i p hp
    simp only [hp]
    exact items_refE c.e items p v items bs hw h

/-- **C19, serializer of child classes.**  For every child packet whose own fields and whose ancestors' fields are in the
    serializer class, with one payload per ancestor and static annotations that agree with the types (`Java.encWfChild`:
    decidable, evaluated per run), both byte orders, and every value the reference-mode encoder assigns an encoding to: the
    model of the emitted `toBytes()` — own fields into a buffer, then `super.toBytes(buf)` per ancestor, every payload size
    field computed from `payload.limit()`, constrained members holding the constants of the child's builder — writes exactly
    the reference's bytes. -/
theorem java_child_serializer_writes_reference (c : Cfg) (nm : String) (parent : Body) (cs allCs : List (String × Nat))
    (items : Items) (hw : encWfChild (.derived nm parent cs allCs items) = true) (v : Value) (bs : Bytes)
    (he : Pdlv.encBody { e := c.e, mode := .ideal } (.derived nm parent cs allCs items) v = .ok bs) :
    Java.encBody c (.derived nm parent cs allCs items) v = .ok bs :=
  child_ideal_to_java c nm parent cs allCs items hw v bs he

/-! non-vacuity: `packet R { k: 8, _size_(_payload_): 8, _payload_ }`, `packet C : R (k = 2) { y: 16 }` -/
example :
    let root : Body := .root "R" (.cons (.chunk [.scalar "k" 8, .size "_payload_" 8 0]) (.cons (.payload (.sized 0)) .nil))
    let ch : Body := .derived "C" root [("k", 2)] [("k", 2)] (.cons (.chunk [.scalar "y" 16]) .nil)
    encWfChild ch = true ∧ Java.encBody { e := .little } ch (.obj [("y", .int 0x1234)]) = .ok [2, 2, 0x34, 0x12] := by
  refine ⟨by decide, by rfl⟩

/-- **C19, bit-field groups, parser side.**  For every packet or struct without parent made of bit-fields in groups of
    exactly 8, 16 or 32 bits (`Java.decWfItems`), both byte orders and EVERY byte string: the model of the emitted
    `fromBytes(byte[])` — the group read with `get` / `getShort` / `getInt`, each field `(group >>> offset) & mask` after an
    unsigned widening, a field that is the whole group taken as the raw (signed) variable — returns an object exactly
    when the reference `decode_full` accepts, with the same field values (as bit patterns of the declared widths). -/
theorem java_reads_groups_of_8_16_32_bits (c : Cfg) (nm : String) (items : Items) (hw : decWfItems items = true)
    (bs : Bytes) (v : Value) :
    Java.decodeFull c (.root nm items) bs = .ok v ↔
      Pdlv.decodeFull { e := c.e, mode := .ideal } (.root nm items) bs = .ok v :=
  decode_same c nm items hw bs v

/-- **C19, parser with arrays and payloads.**  For every packet or struct without parent made of bit-field groups of 8, 16
    or 32 bits — among them size and count fields that are NOT exactly as wide as a Java integral type, without modifier —,
    arrays of 8-, 16-, 32- or 64-bit scalars and enums (closed or open: an undeclared value of a closed enum is the exception
    `fromX` throws) of every shape (static count, count field, size field, rest of the packet) and a
    payload (sized, before static fields, or last) (`Java.decWfItems2`), both byte orders and EVERY byte string a Java array can
    hold (fewer than 2^31 octets): the model of the emitted `fromBytes(byte[])` returns an object exactly when the reference
    `decode_full` accepts, with the same field values — the sizes read as Java `int`s, the element count derived from a size by
    division after the alignment test, the `BufferUnderflowException` of a read past the end, the slice of the payload. -/
theorem java_reads_arrays_and_payloads (c : Cfg) (nm : String) (items : Items) (hw : decWfItems2 items = true)
    (bs : Bytes) (hb : bs.length < 2 ^ 31) (v : Value) :
    Java.decodeFull c (.root nm items) bs = .ok v ↔
      Pdlv.decodeFull { e := c.e, mode := .ideal } (.root nm items) bs = .ok v :=
  decode_same2 c nm items hw bs hb v

/-- **C19, parser with struct-typed fields.**  The class of `java_reads_arrays_and_payloads` extended by fields typed by a
    struct without payload, of static size, whose own fields are in that class (`Java.decWfItems3`): the model of the emitted
    `fromBytes` — the struct parsed from `buf.slice()`, the buffer then advanced by the struct's constant `width()` — accepts
    exactly what the reference `decode_full` accepts, with the same (nested) field values, for every byte string below 2^31
    octets.  (The reference continues where the struct's parser stopped; that is `width()` octets on: `decItems_exact_len`,
    `decItems_suffix`.) -/
theorem java_reads_struct_fields (c : Cfg) (nm : String) (items : Items) (hw : decWfItems3 items = true)
    (bs : Bytes) (hb : bs.length < 2 ^ 31) (v : Value) :
    Java.decodeFullS c (.root nm items) bs = .ok v ↔
      Pdlv.decodeFull { e := c.e, mode := .ideal } (.root nm items) bs = .ok v :=
  decode_same3 c nm items hw bs hb v

/-- **C19, serializer with struct-typed fields.**  The class of `java_writes_arrays_and_payloads` extended by fields typed by a
    struct whose own fields are in that class (`Java.encWfItems3`): `buf.put(x.toBytes())` writes the reference encoding of
    the struct value in place. -/
theorem java_writes_struct_fields (c : Cfg) (nm : String) (items : Items) (hw : encWfItems3 items = true)
    (hr : refWfBody (.root nm items) = true) (v : Value) (bs : Bytes)
    (h : Pdlv.encBody { e := c.e, mode := .ideal } (.root nm items) v = .ok bs) :
    Java.encBodyS c (.root nm items) v = .ok bs ∧ Ref.encode c.e (.root nm items) v = some bs := by
  refine ⟨?_, encode_ideal_eq_ref c.e _ hr v bs h⟩
  simp only [Pdlv.encBody] at h
  simp only [Java.encBodyS, Java.encStructS]
  split at h
  · cases h
  · rename_i p hp
    simp only [hp]
    exact items_refE3 c.e items p v items bs hw h

/-- the class of `java_reads_struct_fields` contains the class of `java_reads_arrays_and_payloads` (so the former subsumes the
    latter; both are kept because they are about `decodeFullS` and `decodeFull` respectively, which agree there) -/
theorem struct_field_class_contains_the_array_class (items : Items) (h : decWfItems2 items = true) :
    decWfItems3 items = true :=
  decWfItems3_of_2 items h

/-- the model the driver runs against the emitted classes also covers struct-typed fields (`Pdlv.JavaStruct`: the struct parsed
    from `buf.slice()`, the buffer advanced by its `width()`; compared by execution, no theorem of their own); on the classes of
    the two theorems above it IS the model they are about -/
theorem java_struct_model_is_the_same_on_the_classes (c : Cfg) (nm : String) (items : Items) :
    (decWfItems2 items = true → ∀ bs, Java.decodeFullS c (.root nm items) bs = Java.decodeFull c (.root nm items) bs) ∧
    (encWfItems items = true → ∀ v, Java.encBodyS c (.root nm items) v = Java.encBody c (.root nm items) v) :=
  ⟨fun hw bs => decodeFullS_eq c nm items hw bs, fun hw v => encBodyS_eq c nm items hw v⟩

/-! `struct S { a: 8, b: 16 } packet P { k: 8, s: S, t: 8 }`: `01 02 34 12 09` is read with `s = { a: 2, b: 0x1234 }` -/
example :
    let sb : Body := .root "S" (.cons (.chunk [.scalar "a" 8]) (.cons (.chunk [.scalar "b" 16]) .nil))
    let items : Items := .cons (.chunk [.scalar "k" 8]) (.cons (.typedef "s" (.struct "S" sb) (some 3)) (.cons (.chunk [.scalar "t" 8]) .nil))
    decWfItems3 items = true ∧ encWfItems3 items = true ∧
    Java.decodeFullS { e := .little } (.root "P" items) [1, 2, 0x34, 0x12, 9] =
      .ok (.obj [("k", .int 1), ("s", .obj [("a", .int 2), ("b", .int 0x1234)]), ("t", .int 9)]) ∧
    Java.encBodyS { e := .little } (.root "P" items)
      (.obj [("k", .int 1), ("s", .obj [("a", .int 2), ("b", .int 0x1234)]), ("t", .int 9)]) = .ok [1, 2, 0x34, 0x12, 9] := by
  refine ⟨by decide, by decide, by rfl, by rfl⟩

/-- **KF-C19-int-chunk**: `packet P { a: 9, b: 2, c: 29 }` (one group of 40 bits, every field at most 32 bits wide) with
    `c = 0x1fffffff`: `c << 11` is computed in `int` and loses its high bits; the emitted bytes are `01 fa ff ff 00`
    where the reference writes `01 fa ff ff ff` -/
theorem int_chunk_loses_bits :
    let items : Items := .cons (.chunk [.scalar "a" 9, .scalar "b" 2, .scalar "c" 29]) .nil
    let v : Value := .obj [("a", .int 1), ("b", .int 1), ("c", .int 0x1fffffff)]
    Java.encBody { e := .little } (.root "P" items) v = .ok [0x01, 0xfa, 0xff, 0xff, 0x00] ∧
    Pdlv.encBody { e := .little, mode := .ideal } (.root "P" items) v = .ok [0x01, 0xfa, 0xff, 0xff, 0xff] := by
  refine ⟨by rfl, by rfl⟩

/-- **KF-C19-get24**: `packet P { a: 24 }`: `Utils.get24` combines the octets with `>>>`: `56 34 12` is read back as
    `a = 0x56` where the reference reads `0x123456` -/
theorem get24_keeps_the_low_octet :
    let items : Items := .cons (.chunk [.scalar "a" 24]) .nil
    Java.decodeFull { e := .little } (.root "P" items) [0x56, 0x34, 0x12] = .ok (.obj [("a", .int 0x56)]) ∧
    Pdlv.decodeFull { e := .little, mode := .ideal } (.root "P" items) [0x56, 0x34, 0x12] = .ok (.obj [("a", .int 0x123456)]) := by
  refine ⟨by rfl, by rfl⟩

/-- **KF-C19-signed-size**: `packet P { _size_(a): 8, a: 8[] }` — the size field is the whole 8-bit group, so the emitted
    parser takes the raw `byte`: a size of 200 is `-56`, and the back end rejects its own output (`c8` followed by 200
    octets), which the reference accepts -/
theorem signed_size_rejects_own_output :
    let items : Items := .cons (.chunk [.size "a" 8 0]) (.cons (.array "a" (.scalar 8) (.static 1) .sizeField none) .nil)
    (Java.decodeFull { e := .little } (.root "P" items) (200 :: List.replicate 200 7)).isOk = false ∧
    (Pdlv.decodeFull { e := .little, mode := .ideal } (.root "P" items) (200 :: List.replicate 200 7)).isOk = true := by
  refine ⟨by decide +kernel, by decide +kernel⟩

/-! non-vacuity: `packet P { t: 1, _size_(a): 7, a: 16[], _count_(b): 4, u: 4, b: 8[], _payload_ }` is in the extended class -/
example :
    let items : Items := .cons (.chunk [.scalar "t" 1, .size "a" 7 0]) (.cons (.array "a" (.scalar 16) (.static 2) .sizeField none)
      (.cons (.chunk [.count "b" 4, .scalar "u" 4]) (.cons (.array "b" (.scalar 8) (.static 1) .countField none)
      (.cons (.payload .last) .nil))))
    decWfItems2 items = true ∧
    (Java.decodeFull { e := .little } (.root "P" items) [0x09, 0x34, 0x12, 0x78, 0x56, 0x32, 9, 8, 0xaa]).isOk = true := by
  refine ⟨by decide, by rfl⟩

/-! non-vacuity: `packet P { t: 1, _size_(a): 7, a: 16[], _count_(b): 4, u: 4, b: 8[], _payload_ }` is in the serializer's
    extended class too -/
example :
    let items : Items := .cons (.chunk [.scalar "t" 1, .size "a" 7 0]) (.cons (.array "a" (.scalar 16) (.static 2) .sizeField none)
      (.cons (.chunk [.count "b" 4, .scalar "u" 4]) (.cons (.array "b" (.scalar 8) (.static 1) .countField none)
      (.cons (.payload .last) .nil))))
    encWfItems items = true ∧
    Java.encBody { e := .little } (.root "P" items) (.obj [("t", .int 1), ("a", .arr [.int 0x1234, .int 0x5678]), ("u", .int 3),
      ("b", .arr [.int 9, .int 8]), ("payload", .arr [.int 0xaa])]) = .ok [0x09, 0x34, 0x12, 0x78, 0x56, 0x32, 9, 8, 0xaa] := by
  refine ⟨by decide, by rfl⟩

/-! non-vacuity: `enum E : 8 { A = 1, B = 2 } packet P { _count_(x): 4, u: 4, x: E[] }` is in the extended class; `12 01 02` is
    read as `x = [A, B]`, and `11 07` (an undeclared value) is rejected by the emitted parser and by the reference -/
example :
    let e : Enum.Decl := { width := 8, tags := [.value { id := "A", value := 1 }, .value { id := "B", value := 2 }] }
    let items : Items := .cons (.chunk [.count "x" 4, .scalar "u" 4]) (.cons (.array "x" (.enumTy "E" e) (.static 1) .countField none) .nil)
    decWfItems2 items = true ∧
    Java.decodeFull { e := .little } (.root "P" items) [0x12, 1, 2] = .ok (.obj [("u", .int 1), ("x", .arr [.int 1, .int 2])]) ∧
    (Java.decodeFull { e := .little } (.root "P" items) [0x11, 7]).isOk = false ∧
    (Pdlv.decodeFull { e := .little, mode := .ideal } (.root "P" items) [0x11, 7]).isOk = false := by
  refine ⟨by decide, by rfl, by rfl, by rfl⟩

/-! non-vacuity: `packet P { a: 3, _fixed_ = 5 : 5, e: 16, _reserved_ : 8 }` is in the class -/
example :
    let items : Items := .cons (.chunk [.scalar "a" 3, .fixed 5 5]) (.cons (.chunk [.scalar "e" 16, .reserved 8]) .nil)
    wfBody (.root "P" items) = true ∧
    Java.encBody { e := .big } (.root "P" items) (.obj [("a", .int 6), ("e", .int 0x1234)]) = .ok [0x2e, 0x00, 0x12, 0x34] := by
  refine ⟨by decide, by rfl⟩

end Java
end Pdlv
