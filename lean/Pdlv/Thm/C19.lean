/-
  C19 — Java back end: the reference it is compared with.

  The back end is not modelled in Lean; its conformance is decided by differential execution against
  the reference (`Pdlv.Ref` for bytes, the ideal-mode decoder for parsing).  The statements below
  are the properties of that reference the comparison relies on.
-/
import Pdlv.Thm.C13
import Pdlv.Thm.C04
import Pdlv.Thm.C01

namespace Pdlv
namespace C19Ref

/-- the reference decoder never "panics" on a well-formed layout step: bit-field groups are total -/
theorem ref_chunk_total (e : Endian) (fs : List BitField) (bs : Bytes) (st : DState) :
    (decChunk e true fs bs st).isPanic = false :=
  decChunk_no_panic e true fs bs st

/-- a group that is cut short is rejected by the reference (`LengthError`) -/
theorem ref_truncated_group (e : Endian) (fs : List BitField) (bs : Bytes) (st : DState)
    (h : bs.length < chunkBits fs / 8) : decChunk e true fs bs st = .err .length :=
  truncated_chunk_is_length_error e true fs bs st h

/-- the reference writes a scalar of width 8k on k octets in the file's byte order -/
theorem ref_scalar (e : Endian) (k x : Nat) (h : Ref.fits (8 * k) x = true) :
    Ref.encTy e (.scalar (8 * k)) (.int x) = some (putUint e (8 * k) x) :=
  Ref.encTy_scalar_eq_putUint e k x h

/-- both byte orders give the same length -/
theorem ref_group_length (bits : List Bool) :
    (Ref.groupBytes .little bits).length = (Ref.groupBytes .big bits).length := by
  rw [Ref.groupBytes_length, Ref.groupBytes_length]

end C19Ref
end Pdlv
