/-
  C05 — the Rust encoder never truncates: out-of-range is an error, length as promised.

  Statements about the encoder model `Pdlv.encBody` / `Pdlv.lenBody` (Pdlv/Wire.lean), which is
  compared with the emitted encoders on every run (`bin/check C05`).
-/
import Pdlv.Wire
import Pdlv.Lemmas.Bits

namespace Pdlv

/-- every integer write produces exactly `w / 8` octets -/
theorem putUint_length (e : Endian) (w v : Nat) : (putUint e w v).length = w / 8 := by
  cases e <;> simp [putUint, toLE_length, toBE_length]

/-- a bit-field group is written as exactly `bits / 8` octets — whatever its fields are -/
theorem encChunk_length (c : Cfg) (all : Items) (p : Enc Bytes) (n : Nat) (v : Value) (fs : List BitField)
    (bs : Bytes) (h : encItem c all p n v (.chunk fs) = .ok bs) :
    bs.length = lenItem (.chunk fs) v := by
  simp only [encItem, Outcome.bind] at h
  cases hx : encChunkFields (c.mode == .ideal) all n v fs 0 0 with
  | ok x =>
    simp only [hx, Outcome.ok.injEq] at h
    rw [← h, putUint_length]; rfl
  | err e => simp [hx] at h
  | panic p => simp [hx] at h

/-- the payload is written verbatim -/
theorem encPayload_verbatim (c : Cfg) (all : Items) (p : Bytes) (n : Nat) (v : Value) (m : PayloadMode) :
    encItem c all (.ok p) n v (.payload m) = .ok p := by
  simp only [encItem]

/-- element loops: if every element's encoding has the length `g` promises, the array's
    encoding has the summed length (`iter().map(encoded_len).sum()`) -/
theorem encListWith_length (f : Value → Enc Bytes) (g : Value → Nat)
    (hf : ∀ v bs, f v = .ok bs → bs.length = g v) :
    ∀ vs bs, encListWith f vs = .ok bs → bs.length = sumLen g vs := by
  intro vs
  induction vs with
  | nil => intro bs h; simp [encListWith] at h; simp [← h, sumLen]
  | cons v vs ih =>
    intro bs h
    simp only [encListWith, Outcome.bind] at h
    cases hv : f v with
    | ok a =>
      simp only [hv] at h
      cases hr : encListWith f vs with
      | ok b =>
        simp only [hr, Outcome.ok.injEq] at h
        rw [← h, List.length_append, hf v a hv, ih b hr, sumLen]
      | err e => simp [hr] at h
      | panic p => simp [hr] at h
    | err e => simp [hv] at h
    | panic p => simp [hv] at h

/-- scalars, enums and custom fields are written on exactly their declared width -/
theorem encTy_scalar_length (c : Cfg) (w : Nat) (v : Value) (bs : Bytes)
    (h : encTy c (.scalar w) v = .ok bs) : bs.length = lenTy (.scalar w) v := by
  cases v with
  | int x =>
    simp only [encTy] at h
    split at h
    · cases h
    · split at h
      · cases h
      · simp only [Outcome.ok.injEq] at h; rw [← h, putUint_length]; rfl
  | arr _ => simp [encTy] at h
  | obj _ => simp [encTy] at h
  | null => simp [encTy] at h

/-- **A scalar that exceeds its declared width is an error, not truncated bits** (bit-fields). -/
theorem scalar_out_of_range_is_error (ideal : Bool) (items : Items) (n : Nat) (v : Value)
    (id : String) (w x shift acc : Nat) (fs : List BitField)
    (hv : v.get? id = some (.int x)) (hb : x < 2 ^ backingOf w) (hw : backingOf w > w)
    (hx : x > maskBits w) :
    encChunkFields ideal items n v (.scalar id w :: fs) shift acc = .err .invalidScalarValue := by
  simp only [encChunkFields, natField, hv, Outcome.bind]
  have : ¬ x ≥ 2 ^ backingOf w := by omega
  simp [this, hw, hx]

/-! ### Negation witnesses on the pinned tree -/

/-- H5 (repaired by a `fix:` commit): `_count_(a): 8` — 256 elements are `CountOverflow`,
    in the model of the emitted code as in the reference. -/
theorem count_overflow_is_error (ideal : Bool) (vs : List Value) (h : vs.length = 256) :
    encChunkFields ideal (.cons (.array "a" (.scalar 8) (.static 1) .countField none) .nil) 0
      (.obj [("a", .arr vs)]) [.count "a" 8] 0 0 = .err .countOverflow := by
  simp [encChunkFields, listField, Value.get?, Value.fields, List.lookup, Outcome.bind, h, maskBits]

/-- every count that does not fit its field is an error (any width below 64, both modes) -/
theorem count_out_of_range_is_error (ideal : Bool) (items : Items) (n : Nat) (v : Value)
    (t : String) (w shift acc : Nat) (fs : List BitField) (vs : List Value)
    (hv : v.get? t = some (.arr vs)) (hw : w < 64) (hx : vs.length > maskBits w) :
    encChunkFields ideal items n v (.count t w :: fs) shift acc = .err .countOverflow := by
  simp [encChunkFields, listField, hv, Outcome.bind, hw, hx]

/-- H25: elements of `x: 24[]` live in `u32`; the emitted `put_uint(elem, 3)` keeps the low 24
    bits of an out-of-range element without any check. -/
theorem array_elem_truncates_rust :
    encTy { e := .little, mode := .rust } (.scalar 24) (.int 0x1000001) = .ok [1, 0, 0] := by rfl

theorem array_elem_error_ideal :
    encTy { e := .little, mode := .ideal } (.scalar 24) (.int 0x1000001) = .err .invalidScalarValue := by
  rfl

end Pdlv
