/-
  C05 — the Rust encoder never truncates: out-of-range is an error, length as promised.

  Statements about the encoder model `Pdlv.encBody` / `Pdlv.lenBody` (Pdlv/Wire.lean), which is
  compared with the emitted encoders on every run (`bin/check C05`).
-/
import Pdlv.Wire
import Pdlv.Lemmas.Bits
import Pdlv.Lemmas.Enc
import Pdlv.Thm.C16

namespace Pdlv

/-- **A scalar that exceeds its declared width is an error, not truncated bits** (bit-fields). -/
theorem scalar_out_of_range_is_error (ideal : Bool) (items : Items) (n : Nat) (v : Value)
    (id : String) (w x shift acc : Nat) (fs : List BitField)
    (hv : v.get? id = some (.int x)) (hb : x < 2 ^ backingOf w) (hw : backingOf w > w)
    (hx : x > maskBits w) :
    encChunkFields ideal items n v (.scalar id w :: fs) shift acc = .err .invalidScalarValue := by
  simp only [encChunkFields, natField, hv, Outcome.bind]
  have : ¬ x ≥ 2 ^ backingOf w := by omega
  simp [this, hw, hx]

/-! ### Negation witnesses on the pinned tree -/

/-- H5 (repaired by a `fix:` commit): `_count_(a): 8` — 256 elements are `CountOverflow`,
    in the model of the emitted code as in the reference. -/
theorem count_overflow_is_error (ideal : Bool) (vs : List Value) (h : vs.length = 256) :
    encChunkFields ideal (.cons (.array "a" (.scalar 8) (.static 1) .countField none) .nil) 0
      (.obj [("a", .arr vs)]) [.count "a" 8] 0 0 = .err .countOverflow := by
  simp [encChunkFields, listField, Value.get?, Value.fields, List.lookup, Outcome.bind, h, maskBits]

/-- every count that does not fit its field is an error (any width below 64, both modes) -/
theorem count_out_of_range_is_error (ideal : Bool) (items : Items) (n : Nat) (v : Value)
    (t : String) (w shift acc : Nat) (fs : List BitField) (vs : List Value)
    (hv : v.get? t = some (.arr vs)) (hw : w < 64) (hx : vs.length > maskBits w) :
    encChunkFields ideal items n v (.count t w :: fs) shift acc = .err .countOverflow := by
  simp [encChunkFields, listField, hv, Outcome.bind, hw, hx]

/-- H25: elements of `x: 24[]` live in `u32`; the emitted `put_uint(elem, 3)` keeps the low 24
    bits of an out-of-range element without any check. -/
theorem array_elem_truncates_rust :
    encTy { e := .little, mode := .rust } (.scalar 24) (.int 0x1000001) = .ok [1, 0, 0] := by rfl

theorem array_elem_error_ideal :
    encTy { e := .little, mode := .ideal } (.scalar 24) (.int 0x1000001) = .err .invalidScalarValue := by
  rfl

end Pdlv

namespace Pdlv

/-! ### `encoded_len` is the length of what `encode` writes — whole packets -/

/-- the hypothesis of the length theorems (decidable; evaluated by the check on every layout) -/
def LenWFTy (t : Ty) : Prop := lenWfTy t = true
def LenWFItem (i : Item) : Prop := lenWfItem i = true
def LenWFItems (is : Items) : Prop := lenWfItems is = true
def LenWFBody (b : Body) : Prop := lenWfBody b = true

theorem lenItemsP_payloadLen (v : Value) : ∀ (is : Items),
    lenItemsP is v (((v.get? "payload").bind Value.asList?).getD []).length = lenItems is v
  | .nil => by simp [lenItemsP, lenItems]
  | .cons i r => by
    have ih := lenItemsP_payloadLen v r
    cases i <;> simp [lenItemsP, lenItems, lenItem, ih]

theorem lenItemsP_noPayload (v : Value) (n : Nat) : ∀ (is : Items), is.hasPayload = false →
    lenItemsP is v n = lenItems is v
  | .nil, _ => by simp [lenItemsP, lenItems]
  | .cons i r, h => by
    cases i with
    | payload m => simp [Items.hasPayload] at h
    | chunk fs =>
      have ih := lenItemsP_noPayload v n r (by simpa [Items.hasPayload] using h)
      simp [lenItemsP, lenItems, ih]
    | array id elem ew shape pad =>
      have ih := lenItemsP_noPayload v n r (by simpa [Items.hasPayload] using h)
      simp [lenItemsP, lenItems, ih]
    | typedef id ty sb =>
      have ih := lenItemsP_noPayload v n r (by simpa [Items.hasPayload] using h)
      simp [lenItemsP, lenItems, ih]
    | optional id ty ci cv =>
      have ih := lenItemsP_noPayload v n r (by simpa [Items.hasPayload] using h)
      simp [lenItemsP, lenItems, ih]

theorem mapM_some_length {α β : Type} (f : α → Option β) : ∀ (l : List α) (r : List β),
    l.mapM f = some r → r.length = l.length
  | [], r, h => by simp at h; simp [← h]
  | a :: l, r, h => by
    simp only [List.mapM_cons] at h
    cases ha : f a with
    | none => simp [ha] at h
    | some b =>
      cases hl : l.mapM f with
      | none => simp [ha, hl] at h
      | some bs =>
        simp [ha, hl] at h
        rw [← h, List.length_cons, List.length_cons, mapM_some_length f l bs hl]

theorem valBytes_length (v : Value) (p : Bytes) (h : valBytes v = some p) :
    p.length = (((some v).bind Value.asList?).getD []).length := by
  cases v with
  | arr vs =>
    simp only [valBytes] at h
    simp only [Option.bind_some, Value.asList?, Option.getD_some]
    exact mapM_some_length _ vs p h
  | int _ => simp [valBytes] at h
  | obj _ => simp [valBytes] at h
  | null => simp [valBytes] at h

/-- the child's bytes are needed wherever a level has a payload item -/
theorem encItems_inner_needed (c : Cfg) (all : Items) (inner : Enc Bytes) (pl : Nat) (v : Value) :
    ∀ (is : Items) (bs : Bytes), is.hasPayload = true → encItems c all inner pl v is = .ok bs →
      ∃ ib, inner = .ok ib
  | .nil, _, h, _ => by simp [Items.hasPayload] at h
  | .cons i r, bs, h, he => by
    simp only [encItems, Outcome.bind] at he
    cases hi : encItem c all inner pl v i with
    | err e => simp [hi] at he
    | panic q => simp [hi] at he
    | ok a =>
      simp only [hi] at he
      cases hr : encItems c all inner pl v r with
      | err e => simp [hr] at he
      | panic q => simp [hr] at he
      | ok b =>
        cases i with
        | payload m => simp only [encItem] at hi; exact ⟨a, hi⟩
        | chunk fs => exact encItems_inner_needed c all inner pl v r b (by simpa [Items.hasPayload] using h) hr
        | array id elem ew shape pad => exact encItems_inner_needed c all inner pl v r b (by simpa [Items.hasPayload] using h) hr
        | typedef id ty sb => exact encItems_inner_needed c all inner pl v r b (by simpa [Items.hasPayload] using h) hr
        | optional id ty ci cv => exact encItems_inner_needed c all inner pl v r b (by simpa [Items.hasPayload] using h) hr

mutual
theorem encTy_len (c : Cfg) : ∀ (t : Ty) (v : Value) (bs : Bytes),
    LenWFTy t → encTy c t v = .ok bs → bs.length = lenTy t v
  | .scalar w, v, bs, _, he => encTy_scalar_length c w v bs he
  | .enumTy nm en, v, bs, _, he => by
    rw [encTy_static c (.enumTy nm en) v bs (en.width / 8) rfl he]; rfl
  | .custom nm w, v, bs, _, he => by
    rw [encTy_static c (.custom nm w) v bs (w / 8) rfl he]; rfl
  | .struct _ (.root nm items), v, bs, hw, he => by
    simp only [LenWFTy, lenWfTy] at hw
    simp only [encTy, encBody] at he
    simp only [lenTy, lenBody]
    split at he
    · cases he
    · rename_i p hp
      rw [encItems_len c items p p.length v items bs hw he]
      by_cases hpay : items.hasPayload = true
      · simp only [hpay, ↓reduceIte] at hp
        cases hg : v.get? "payload" with
        | none => simp [hg] at hp
        | some pv =>
          simp only [hg, Option.bind_some] at hp
          rw [valBytes_length pv p hp, ← hg]
          exact lenItemsP_payloadLen v items
      · have hpay' : items.hasPayload = false := by simpa using hpay
        exact lenItemsP_noPayload v p.length items hpay'
  | .struct _ (.derived ..), v, bs, hw, he => by simp [LenWFTy, lenWfTy] at hw

theorem encItem_len (c : Cfg) (all : Items) (ib : Bytes) (pl : Nat) (v : Value) :
    ∀ (i : Item) (bs : Bytes), LenWFItem i → encItem c all (.ok ib) pl v i = .ok bs →
      bs.length = lenItemsP (.cons i .nil) v ib.length
  | .chunk fs, bs, _, he => by
    simp only [lenItemsP, Nat.add_zero]
    exact encChunk_length c all (.ok ib) pl v fs bs he
  | .payload m, bs, _, he => by
    simp only [encItem, Outcome.ok.injEq] at he
    simp [lenItemsP, he]
  | .typedef id ty sb, bs, hw, he => by
    simp only [LenWFItem, lenWfItem, Bool.and_eq_true] at hw
    simp only [lenItemsP, Nat.add_zero, lenItem]
    simp only [encItem] at he
    cases hv : v.get? id with
    | none => simp [hv] at he
    | some x =>
      simp only [hv] at he
      cases sb with
      | some n => exact encTy_static c ty x bs n (by simpa using hw.1) he
      | none => simpa using encTy_len c ty x bs hw.2 he
  | .optional id ty ci cv, bs, hw, he => by
    simp only [LenWFItem, lenWfItem] at hw
    simp only [lenItemsP, Nat.add_zero, lenItem]
    simp only [encItem] at he
    cases hv : v.get? id with
    | none => simp [hv] at he; simp [← he]
    | some x =>
      cases x with
      | null => simp [hv] at he; simp [← he]
      | int n =>
        simp only [hv] at he
        cases ty with
        | scalar w =>
          simp only at he
          split at he
          · cases he
          · split at he
            · cases he
            · simp only [Outcome.ok.injEq] at he
              simp [← he, putUint_length, lenTy]
        | enumTy nm en => simpa using encTy_len c (.enumTy nm en) (.int n) bs hw he
        | custom nm w => simpa using encTy_len c (.custom nm w) (.int n) bs hw he
        | struct nm b => simpa using encTy_len c (.struct nm b) (.int n) bs hw he
      | arr l =>
        simp only [hv] at he
        cases ty with
        | scalar w => simp at he
        | enumTy nm en => simpa using encTy_len c (.enumTy nm en) (.arr l) bs hw he
        | custom nm w => simpa using encTy_len c (.custom nm w) (.arr l) bs hw he
        | struct nm b => simpa using encTy_len c (.struct nm b) (.arr l) bs hw he
      | obj l =>
        simp only [hv] at he
        cases ty with
        | scalar w => simp at he
        | enumTy nm en => simpa using encTy_len c (.enumTy nm en) (.obj l) bs hw he
        | custom nm w => simpa using encTy_len c (.custom nm w) (.obj l) bs hw he
        | struct nm b => simpa using encTy_len c (.struct nm b) (.obj l) bs hw he
  | .array id elem ew shape pad, bs, hw, he => by
    simp only [LenWFItem, lenWfItem, Bool.and_eq_true] at hw
    simp only [lenItemsP, Nat.add_zero, lenItem]
    simp only [encItem, Outcome.bind] at he
    cases hl : listField v id with
    | err e => simp [hl] at he
    | panic h => simp [hl] at he
    | ok vs =>
      have hget : v.get? id = some (.arr vs) := by
        simp only [listField] at hl
        split at hl
        · rename_i ws hws; simp only [Outcome.ok.injEq] at hl; rw [hws, hl]
        · cases hl
      simp only [hl] at he
      cases hc : checkCount shape vs.length with
      | err e => simp [hc] at he
      | panic h => simp [hc] at he
      | ok u =>
        simp only [hc] at he
        cases hp : checkPad pad (arrSize ew (lenTy elem) vs) with
        | err e => simp [hp] at he
        | panic h => simp [hp] at he
        | ok u2 =>
          simp only [hp] at he
          cases hel : encListWith (encTy c elem) vs with
          | err e => simp [hel] at he
          | panic h => simp [hel] at he
          | ok es =>
            simp only [hel] at he
            cases pad with
            | some q =>
              simp only [padTo] at he
              split at he
              · simp only [Outcome.ok.injEq] at he
                rw [← he, List.length_append]; simp [zeros]; omega
              · cases he
            | none =>
              simp only [padTo, Outcome.ok.injEq] at he
              subst he
              simp only [hget, Option.bind_some, Value.asList?, Option.getD_some]
              cases ew with
              | static w =>
                have hst : staticTy elem = some w := by simpa using hw.1
                have := encListWith_length (encTy c elem) (fun _ => w)
                  (fun x b hx => encTy_static c elem x b w hst hx) vs es hel
                simp only [this, sumLen_const]
              | dynamic =>
                exact encListWith_length (encTy c elem) (lenTy elem)
                  (fun x b hx => encTy_len c elem x b hw.2 hx) vs es hel
              | unknown =>
                exact encListWith_length (encTy c elem) (lenTy elem)
                  (fun x b hx => encTy_len c elem x b hw.2 hx) vs es hel

theorem encItems_len (c : Cfg) (all : Items) (ib : Bytes) (pl : Nat) (v : Value) :
    ∀ (is : Items) (bs : Bytes), LenWFItems is → encItems c all (.ok ib) pl v is = .ok bs →
      bs.length = lenItemsP is v ib.length
  | .nil, bs, _, he => by
    simp only [encItems, Outcome.ok.injEq] at he
    simp [lenItemsP, ← he]
  | .cons i r, bs, hw, he => by
    simp only [LenWFItems, lenWfItems, Bool.and_eq_true] at hw
    simp only [encItems, Outcome.bind] at he
    cases hi : encItem c all (.ok ib) pl v i with
    | err e => simp [hi] at he
    | panic q => simp [hi] at he
    | ok a =>
      simp only [hi] at he
      cases hr : encItems c all (.ok ib) pl v r with
      | err e => simp [hr] at he
      | panic q => simp [hr] at he
      | ok b =>
        simp only [hr, Outcome.ok.injEq] at he
        have h1 := encItem_len c all ib pl v i a hw.1 hi
        have h2 := encItems_len c all ib pl v r b hw.2 hr
        rw [← he, List.length_append, h1, h2]
        cases i <;> simp [lenItemsP]
end

/-- the ancestors' items around the child's bytes: `inner` must have succeeded and the result is
    `aroundLen` octets long -/
theorem encAround_len (c : Cfg) : ∀ (b : Body) (v : Value) (inner : Enc Bytes) (len : Nat) (bs : Bytes),
    LenWFBody b → b.hasPayload = true → encAround c b v inner len = .ok bs →
      ∃ ib, inner = .ok ib ∧ bs.length = aroundLen b v ib.length
  | .root _ items, v, inner, len, bs, hw, hp, he => by
    simp only [encAround] at he
    simp only [LenWFBody, lenWfBody] at hw
    obtain ⟨ib, rfl⟩ := encItems_inner_needed c items inner len v items bs hp he
    exact ⟨ib, rfl, encItems_len c items ib len v items bs hw he⟩
  | .derived _ parent _ _ items, v, inner, len, bs, hw, hp, he => by
    simp only [encAround] at he
    simp only [LenWFBody, lenWfBody, Bool.and_eq_true] at hw
    obtain ⟨ib', hib', hlen⟩ := encAround_len c parent v _ _ bs hw.1.2 hw.2 he
    obtain ⟨ib, rfl⟩ := encItems_inner_needed c items inner len v items ib' hp hib'
    have := encItems_len c items ib len v items ib' hw.1.1 hib'
    exact ⟨ib, rfl, by rw [hlen, this]; rfl⟩

/-- **`encode` writes exactly `encoded_len()` octets** — for every layout whose static annotations
    agree with its types (`LenWFBody`, what `Schema` guarantees; C16), every value, both byte
    orders, in the model of the emitted code and in the reference mode alike.  Root packets,
    structs and inheriting packets at any depth. -/
theorem encBody_len (c : Cfg) : ∀ (b : Body) (v : Value) (bs : Bytes),
    LenWFBody b → encBody c b v = .ok bs → bs.length = encLen b v
  | .root nm items, v, bs, hw, he => by
    have := encTy_len c (.struct nm (.root nm items)) v bs (by simpa [LenWFTy, LenWFBody, lenWfTy, lenWfBody] using hw)
      (by simpa [encTy] using he)
    simpa [lenTy, lenBody, encLen] using this
  | .derived nm parent cs allCs items, v, bs, hw, he => by
    simp only [LenWFBody, lenWfBody, Bool.and_eq_true] at hw
    simp only [encBody] at he
    split at he
    · cases he
    · rename_i p hp
      obtain ⟨ib, hib, hlen⟩ := encAround_len c parent (withConstants allCs v) _ _ bs hw.1.2 hw.2 he
      have h1 := encItems_len c items p p.length (withConstants allCs v) items ib hw.1.1 hib
      simp only [encLen]
      rw [hlen, h1]
      congr 1
      by_cases hpay : items.hasPayload = true
      · simp only [hpay, ↓reduceIte] at hp
        cases hg : v.get? "payload" with
        | none => simp [hg] at hp
        | some pv =>
          simp only [hg, Option.bind_some] at hp
          have hg' : (withConstants allCs v).get? "payload" = some pv := by
            simp only [withConstants, Value.get?, Value.fields] at hg ⊢
            rw [List.lookup_append, hg]; rfl
          rw [valBytes_length pv p hp, ← hg']
          exact lenItemsP_payloadLen _ items
      · have hpay' : items.hasPayload = false := by simpa using hpay
        exact lenItemsP_noPayload _ p.length items hpay'

/-- for a packet or struct without parent this is the model's `lenBody` (what the check compares
    with the emitted `encoded_len()`) -/
theorem encLen_root (nm : String) (items : Items) (v : Value) :
    encLen (.root nm items) v = lenBody (.root nm items) v := by
  simp [encLen, lenBody]

/-! non-vacuity: `packet P { a: 3, b: 13, x: 16[], _payload_ }` meets `LenWFBody` -/
example : LenWFBody (.root "P" (.cons (.chunk [.scalar "a" 3, .scalar "b" 13])
    (.cons (.array "x" (.scalar 16) (.static 2) .unknown none) (.cons (.payload .last) .nil)))) := by
  simp [LenWFBody, lenWfBody, lenWfItems, lenWfItem, lenWfTy, staticTy]

end Pdlv
