/-
  C05 — the Rust encoder never truncates: out-of-range is an error, length as promised.

  Statements about the encoder model `Pdlv.encBody` / `Pdlv.lenBody` (Pdlv/Wire.lean), which is
  compared with the emitted encoders on every run (`bin/check C05`).
-/
import Pdlv.Wire
import Pdlv.Lemmas.Bits
import Pdlv.Lemmas.Enc
import Pdlv.Thm.C16

namespace Pdlv

/-- **A scalar that exceeds its declared width is an error, not truncated bits** (bit-fields). -/
theorem scalar_out_of_range_is_error (ideal : Bool) (items : Items) (n : Nat) (v : Value)
    (id : String) (w x shift acc : Nat) (fs : List BitField)
    (hv : v.get? id = some (.int x)) (hb : x < 2 ^ backingOf w) (hw : backingOf w > w)
    (hx : x > maskBits w) :
    encChunkFields ideal items n v (.scalar id w :: fs) shift acc = .err .invalidScalarValue := by
  simp only [encChunkFields, natField, hv, Outcome.bind]
  have : ¬ x ≥ 2 ^ backingOf w := by omega
  simp [this, hw, hx]

/-! ### Negation witnesses on the pinned tree -/

/-- H5 (repaired by a `fix:` commit): `_count_(a): 8` — 256 elements are `CountOverflow`,
    in the model of the emitted code as in the reference. -/
theorem count_overflow_is_error (ideal : Bool) (vs : List Value) (h : vs.length = 256) :
    encChunkFields ideal (.cons (.array "a" (.scalar 8) (.static 1) .countField none) .nil) 0
      (.obj [("a", .arr vs)]) [.count "a" 8] 0 0 = .err .countOverflow := by
  simp [encChunkFields, listField, Value.get?, Value.fields, List.lookup, Outcome.bind, h, maskBits]

/-- every count that does not fit its field is an error (any width below 64, both modes) -/
theorem count_out_of_range_is_error (ideal : Bool) (items : Items) (n : Nat) (v : Value)
    (t : String) (w shift acc : Nat) (fs : List BitField) (vs : List Value)
    (hv : v.get? t = some (.arr vs)) (hw : w < 64) (hx : vs.length > maskBits w) :
    encChunkFields ideal items n v (.count t w :: fs) shift acc = .err .countOverflow := by
  simp [encChunkFields, listField, hv, Outcome.bind, hw, hx]

/-- H25: elements of `x: 24[]` live in `u32`; the emitted `put_uint(elem, 3)` keeps the low 24
    bits of an out-of-range element without any check. -/
theorem array_elem_truncates_rust :
    encTy { e := .little, mode := .rust } (.scalar 24) (.int 0x1000001) = .ok [1, 0, 0] := by rfl

theorem array_elem_error_ideal :
    encTy { e := .little, mode := .ideal } (.scalar 24) (.int 0x1000001) = .err .invalidScalarValue := by
  rfl

end Pdlv

namespace Pdlv

/-! ### `encoded_len` is the length of what `encode` writes — whole packets -/

/-- the hypothesis of the length theorems (decidable; evaluated by the check on every layout) -/
def LenWFTy (t : Ty) : Prop := lenWfTy t = true
def LenWFItem (i : Item) : Prop := lenWfItem i = true
def LenWFItems (is : Items) : Prop := lenWfItems is = true
def LenWFBody (b : Body) : Prop := lenWfBody b = true

theorem lenItemsP_payloadLen (v : Value) : ∀ (is : Items),
    lenItemsP is v (((v.get? "payload").bind Value.asList?).getD []).length = lenItems is v
  | .nil => by simp [lenItemsP, lenItems]
  | .cons i r => by
    have ih := lenItemsP_payloadLen v r
    cases i <;> simp [lenItemsP, lenItems, lenItem, ih]

theorem lenItemsP_noPayload (v : Value) (n : Nat) : ∀ (is : Items), is.hasPayload = false →
    lenItemsP is v n = lenItems is v
  | .nil, _ => by simp [lenItemsP, lenItems]
  | .cons i r, h => by
    cases i with
    | payload m => simp [Items.hasPayload] at h
    | chunk fs =>
      have ih := lenItemsP_noPayload v n r (by simpa [Items.hasPayload] using h)
      simp [lenItemsP, lenItems, ih]
    | array id elem ew shape pad =>
      have ih := lenItemsP_noPayload v n r (by simpa [Items.hasPayload] using h)
      simp [lenItemsP, lenItems, ih]
    | typedef id ty sb =>
      have ih := lenItemsP_noPayload v n r (by simpa [Items.hasPayload] using h)
      simp [lenItemsP, lenItems, ih]
    | optional id ty ci cv =>
      have ih := lenItemsP_noPayload v n r (by simpa [Items.hasPayload] using h)
      simp [lenItemsP, lenItems, ih]

theorem mapM_some_length {α β : Type} (f : α → Option β) : ∀ (l : List α) (r : List β),
    l.mapM f = some r → r.length = l.length
  | [], r, h => by simp at h; simp [← h]
  | a :: l, r, h => by
    simp only [List.mapM_cons] at h
    cases ha : f a with
    | none => simp [ha] at h
    | some b =>
      cases hl : l.mapM f with
      | none => simp [ha, hl] at h
      | some bs =>
        simp [ha, hl] at h
        rw [← h, List.length_cons, List.length_cons, mapM_some_length f l bs hl]

theorem valBytes_length (v : Value) (p : Bytes) (h : valBytes v = some p) :
    p.length = (((some v).bind Value.asList?).getD []).length := by
  cases v with
  | arr vs =>
    simp only [valBytes] at h
    simp only [Option.bind_some, Value.asList?, Option.getD_some]
    exact mapM_some_length _ vs p h
  | int _ => simp [valBytes] at h
  | obj _ => simp [valBytes] at h
  | null => simp [valBytes] at h

/-- the child's bytes are needed wherever a level has a payload item -/
theorem encItems_inner_needed (c : Cfg) (all : Items) (inner : Enc Bytes) (pl : Nat) (v : Value) :
    ∀ (is : Items) (bs : Bytes), is.hasPayload = true → encItems c all inner pl v is = .ok bs →
      ∃ ib, inner = .ok ib
  | .nil, _, h, _ => by simp [Items.hasPayload] at h
  | .cons i r, bs, h, he => by
    simp only [encItems, Outcome.bind] at he
    cases hi : encItem c all inner pl v i with
    | err e => simp [hi] at he
    | panic q => simp [hi] at he
    | ok a =>
      simp only [hi] at he
      cases hr : encItems c all inner pl v r with
      | err e => simp [hr] at he
      | panic q => simp [hr] at he
      | ok b =>
        cases i with
        | payload m => simp only [encItem] at hi; exact ⟨a, hi⟩
        | chunk fs => exact encItems_inner_needed c all inner pl v r b (by simpa [Items.hasPayload] using h) hr
        | array id elem ew shape pad => exact encItems_inner_needed c all inner pl v r b (by simpa [Items.hasPayload] using h) hr
        | typedef id ty sb => exact encItems_inner_needed c all inner pl v r b (by simpa [Items.hasPayload] using h) hr
        | optional id ty ci cv => exact encItems_inner_needed c all inner pl v r b (by simpa [Items.hasPayload] using h) hr

mutual
theorem encTy_len (c : Cfg) : ∀ (t : Ty) (v : Value) (bs : Bytes),
    LenWFTy t → encTy c t v = .ok bs → bs.length = lenTy t v
  | .scalar w, v, bs, _, he => encTy_scalar_length c w v bs he
  | .enumTy nm en, v, bs, _, he => by
    rw [encTy_static c (.enumTy nm en) v bs (en.width / 8) rfl he]; rfl
  | .custom nm w, v, bs, _, he => by
    rw [encTy_static c (.custom nm w) v bs (w / 8) rfl he]; rfl
  | .struct _ (.root nm items), v, bs, hw, he => by
    simp only [LenWFTy, lenWfTy] at hw
    simp only [encTy, encBody] at he
    simp only [lenTy, lenBody]
    split at he
    · cases he
    · rename_i p hp
      rw [encItems_len c items p p.length v items bs hw he]
      by_cases hpay : items.hasPayload = true
      · simp only [hpay, ↓reduceIte] at hp
        cases hg : v.get? "payload" with
        | none => simp [hg] at hp
        | some pv =>
          simp only [hg, Option.bind_some] at hp
          rw [valBytes_length pv p hp, ← hg]
          exact lenItemsP_payloadLen v items
      · have hpay' : items.hasPayload = false := by simpa using hpay
        exact lenItemsP_noPayload v p.length items hpay'
  | .struct _ (.derived ..), v, bs, hw, he => by simp [LenWFTy, lenWfTy] at hw

theorem encItem_len (c : Cfg) (all : Items) (ib : Bytes) (pl : Nat) (v : Value) :
    ∀ (i : Item) (bs : Bytes), LenWFItem i → encItem c all (.ok ib) pl v i = .ok bs →
      bs.length = lenItemsP (.cons i .nil) v ib.length
  | .chunk fs, bs, _, he => by
    simp only [lenItemsP, Nat.add_zero]
    exact encChunk_length c all (.ok ib) pl v fs bs he
  | .payload m, bs, _, he => by
    simp only [encItem, Outcome.ok.injEq] at he
    simp [lenItemsP, he]
  | .typedef id ty sb, bs, hw, he => by
    simp only [LenWFItem, lenWfItem, Bool.and_eq_true] at hw
    simp only [lenItemsP, Nat.add_zero, lenItem]
    simp only [encItem] at he
    cases hv : v.get? id with
    | none => simp [hv] at he
    | some x =>
      simp only [hv] at he
      cases sb with
      | some n => exact encTy_static c ty x bs n (by simpa using hw.1) he
      | none => simpa using encTy_len c ty x bs hw.2 he
  | .optional id ty ci cv, bs, hw, he => by
    simp only [LenWFItem, lenWfItem] at hw
    simp only [lenItemsP, Nat.add_zero, lenItem]
    simp only [encItem] at he
    cases hv : v.get? id with
    | none => simp [hv] at he; simp [← he]
    | some x =>
      cases x with
      | null => simp [hv] at he; simp [← he]
      | int n =>
        simp only [hv] at he
        cases ty with
        | scalar w =>
          simp only at he
          split at he
          · cases he
          · split at he
            · cases he
            · simp only [Outcome.ok.injEq] at he
              simp [← he, putUint_length, lenTy]
        | enumTy nm en => simpa using encTy_len c (.enumTy nm en) (.int n) bs hw he
        | custom nm w => simpa using encTy_len c (.custom nm w) (.int n) bs hw he
        | struct nm b => simpa using encTy_len c (.struct nm b) (.int n) bs hw he
      | arr l =>
        simp only [hv] at he
        cases ty with
        | scalar w => simp at he
        | enumTy nm en => simpa using encTy_len c (.enumTy nm en) (.arr l) bs hw he
        | custom nm w => simpa using encTy_len c (.custom nm w) (.arr l) bs hw he
        | struct nm b => simpa using encTy_len c (.struct nm b) (.arr l) bs hw he
      | obj l =>
        simp only [hv] at he
        cases ty with
        | scalar w => simp at he
        | enumTy nm en => simpa using encTy_len c (.enumTy nm en) (.obj l) bs hw he
        | custom nm w => simpa using encTy_len c (.custom nm w) (.obj l) bs hw he
        | struct nm b => simpa using encTy_len c (.struct nm b) (.obj l) bs hw he
  | .array id elem ew shape pad, bs, hw, he => by
    simp only [LenWFItem, lenWfItem, Bool.and_eq_true] at hw
    simp only [lenItemsP, Nat.add_zero, lenItem]
    simp only [encItem, Outcome.bind] at he
    cases hl : listField v id with
    | err e => simp [hl] at he
    | panic h => simp [hl] at he
    | ok vs =>
      have hget : v.get? id = some (.arr vs) := by
        simp only [listField] at hl
        split at hl
        · rename_i ws hws; simp only [Outcome.ok.injEq] at hl; rw [hws, hl]
        · cases hl
      simp only [hl] at he
      cases hc : checkCount shape vs.length with
      | err e => simp [hc] at he
      | panic h => simp [hc] at he
      | ok u =>
        simp only [hc] at he
        cases hp : checkPad pad (arrSize ew (lenTy elem) vs) with
        | err e => simp [hp] at he
        | panic h => simp [hp] at he
        | ok u2 =>
          simp only [hp] at he
          cases hel : encListWith (encTy c elem) vs with
          | err e => simp [hel] at he
          | panic h => simp [hel] at he
          | ok es =>
            simp only [hel] at he
            cases pad with
            | some q =>
              simp only [padTo] at he
              split at he
              · simp only [Outcome.ok.injEq] at he
                rw [← he, List.length_append]; simp [zeros]; omega
              · cases he
            | none =>
              simp only [padTo, Outcome.ok.injEq] at he
              subst he
              simp only [hget, Option.bind_some, Value.asList?, Option.getD_some]
              cases ew with
              | static w =>
                have hst : staticTy elem = some w := by simpa using hw.1
                have := encListWith_length (encTy c elem) (fun _ => w)
                  (fun x b hx => encTy_static c elem x b w hst hx) vs es hel
                simp only [this, sumLen_const]
              | dynamic =>
                exact encListWith_length (encTy c elem) (lenTy elem)
                  (fun x b hx => encTy_len c elem x b hw.2 hx) vs es hel
              | unknown =>
                exact encListWith_length (encTy c elem) (lenTy elem)
                  (fun x b hx => encTy_len c elem x b hw.2 hx) vs es hel

theorem encItems_len (c : Cfg) (all : Items) (ib : Bytes) (pl : Nat) (v : Value) :
    ∀ (is : Items) (bs : Bytes), LenWFItems is → encItems c all (.ok ib) pl v is = .ok bs →
      bs.length = lenItemsP is v ib.length
  | .nil, bs, _, he => by
    simp only [encItems, Outcome.ok.injEq] at he
    simp [lenItemsP, ← he]
  | .cons i r, bs, hw, he => by
    simp only [LenWFItems, lenWfItems, Bool.and_eq_true] at hw
    simp only [encItems, Outcome.bind] at he
    cases hi : encItem c all (.ok ib) pl v i with
    | err e => simp [hi] at he
    | panic q => simp [hi] at he
    | ok a =>
      simp only [hi] at he
      cases hr : encItems c all (.ok ib) pl v r with
      | err e => simp [hr] at he
      | panic q => simp [hr] at he
      | ok b =>
        simp only [hr, Outcome.ok.injEq] at he
        have h1 := encItem_len c all ib pl v i a hw.1 hi
        have h2 := encItems_len c all ib pl v r b hw.2 hr
        rw [← he, List.length_append, h1, h2]
        cases i <;> simp [lenItemsP]
end

/-- the ancestors' items around the child's bytes: `inner` must have succeeded and the result is
    `aroundLen` octets long -/
theorem encAround_len (c : Cfg) : ∀ (b : Body) (v : Value) (inner : Enc Bytes) (len : Nat) (bs : Bytes),
    LenWFBody b → b.hasPayload = true → encAround c b v inner len = .ok bs →
      ∃ ib, inner = .ok ib ∧ bs.length = aroundLen b v ib.length
  | .root _ items, v, inner, len, bs, hw, hp, he => by
    simp only [encAround] at he
    simp only [LenWFBody, lenWfBody] at hw
    obtain ⟨ib, rfl⟩ := encItems_inner_needed c items inner len v items bs hp he
    exact ⟨ib, rfl, encItems_len c items ib len v items bs hw he⟩
  | .derived _ parent _ _ items, v, inner, len, bs, hw, hp, he => by
    simp only [encAround] at he
    simp only [LenWFBody, lenWfBody, Bool.and_eq_true] at hw
    obtain ⟨ib', hib', hlen⟩ := encAround_len c parent v _ _ bs hw.1.2 hw.2 he
    obtain ⟨ib, rfl⟩ := encItems_inner_needed c items inner len v items ib' hp hib'
    have := encItems_len c items ib len v items ib' hw.1.1 hib'
    exact ⟨ib, rfl, by rw [hlen, this]; rfl⟩

/-- **`encode` writes exactly `encoded_len()` octets** — for every layout whose static annotations
    agree with its types (`LenWFBody`, what `Schema` guarantees; C16), every value, both byte
    orders, in the model of the emitted code and in the reference mode alike.  Root packets,
    structs and inheriting packets at any depth. -/
theorem encBody_len (c : Cfg) : ∀ (b : Body) (v : Value) (bs : Bytes),
    LenWFBody b → encBody c b v = .ok bs → bs.length = encLen b v
  | .root nm items, v, bs, hw, he => by
    have := encTy_len c (.struct nm (.root nm items)) v bs (by simpa [LenWFTy, LenWFBody, lenWfTy, lenWfBody] using hw)
      (by simpa [encTy] using he)
    simpa [lenTy, lenBody, encLen] using this
  | .derived nm parent cs allCs items, v, bs, hw, he => by
    simp only [LenWFBody, lenWfBody, Bool.and_eq_true] at hw
    simp only [encBody] at he
    split at he
    · cases he
    · rename_i p hp
      obtain ⟨ib, hib, hlen⟩ := encAround_len c parent (withConstants allCs v) _ _ bs hw.1.2 hw.2 he
      have h1 := encItems_len c items p p.length (withConstants allCs v) items ib hw.1.1 hib
      simp only [encLen]
      rw [hlen, h1]
      congr 1
      by_cases hpay : items.hasPayload = true
      · simp only [hpay, ↓reduceIte] at hp
        cases hg : v.get? "payload" with
        | none => simp [hg] at hp
        | some pv =>
          simp only [hg, Option.bind_some] at hp
          have hg' : (withConstants allCs v).get? "payload" = some pv := by
            simp only [withConstants, Value.get?, Value.fields] at hg ⊢
            rw [List.lookup_append, hg]; rfl
          rw [valBytes_length pv p hp, ← hg']
          exact lenItemsP_payloadLen _ items
      · have hpay' : items.hasPayload = false := by simpa using hpay
        exact lenItemsP_noPayload _ p.length items hpay'

/-- for a packet or struct without parent this is the model's `lenBody` (what the check compares
    with the emitted `encoded_len()`) -/
theorem encLen_root (nm : String) (items : Items) (v : Value) :
    encLen (.root nm items) v = lenBody (.root nm items) v := by
  simp [encLen, lenBody]


/-! ### encode never panics -/

theorem sizeFind_no_panic (v : Value) : ∀ (is : Items) (t : String) (vs : List Value),
    (firstArray is t).isSome = true → v.get? t = some (.arr vs) → ∃ s, sizeOfTarget.find t v is = .ok s
  | .nil, t, vs, h, _ => by simp [firstArray] at h
  | .cons i r, t, vs, h, hg => by
    cases i with
    | array id el ew shape pad =>
      simp only [firstArray] at h
      simp only [sizeOfTarget.find]
      by_cases hid : (id == t) = true
      · have hid' : id = t := by simpa using hid
        subst hid'
        simp only [BEq.rfl, ↓reduceIte, listField, hg, Outcome.bind]
        cases el <;> exact ⟨_, rfl⟩
      · have hid' : (id == t) = false := by simpa using hid
        simp only [hid', Bool.false_eq_true, ↓reduceIte] at h ⊢
        exact sizeFind_no_panic v r t vs h hg
    | chunk fs => simp only [firstArray] at h; simp only [sizeOfTarget.find]; exact sizeFind_no_panic v r t vs h hg
    | typedef id ty sb => simp only [firstArray] at h; simp only [sizeOfTarget.find]; exact sizeFind_no_panic v r t vs h hg
    | optional id ty ci cv => simp only [firstArray] at h; simp only [sizeOfTarget.find]; exact sizeFind_no_panic v r t vs h hg
    | payload md => simp only [firstArray] at h; simp only [sizeOfTarget.find]; exact sizeFind_no_panic v r t vs h hg

theorem elemTy_of_firstArray : ∀ (is : Items) (t : String), (firstArray is t).isSome = true →
    (encChunkFields.elemTy t is).isSome = true
  | .nil, t, h => by simp [firstArray] at h
  | .cons i r, t, h => by
    cases i with
    | array id el ew shape pad =>
      simp only [firstArray] at h
      simp only [encChunkFields.elemTy]
      by_cases hid : (id == t) = true
      · simp [hid]
      · have hid' : (id == t) = false := by simpa using hid
        simp only [hid', Bool.false_eq_true, ↓reduceIte] at h ⊢
        exact elemTy_of_firstArray r t h
    | chunk fs => simp only [firstArray] at h; simp only [encChunkFields.elemTy]; exact elemTy_of_firstArray r t h
    | typedef id ty sb => simp only [firstArray] at h; simp only [encChunkFields.elemTy]; exact elemTy_of_firstArray r t h
    | optional id ty ci cv => simp only [firstArray] at h; simp only [encChunkFields.elemTy]; exact elemTy_of_firstArray r t h
    | payload md => simp only [firstArray] at h; simp only [encChunkFields.elemTy]; exact elemTy_of_firstArray r t h

/-- the checks and the packing of one bit-field group never panic on a value of the generated type -/
theorem encChunkFields_no_panic (ideal : Bool) (all : Items) (pl : Nat) (v : Value) :
    ∀ (fs : List BitField) (shift acc : Nat), fs.all (typedBf all v) = true →
      (encChunkFields ideal all pl v fs shift acc).isPanic = false
  | [], _, _, _ => by simp [encChunkFields, Outcome.isPanic]
  | f :: fs, shift, acc, h => by
    simp only [List.all_cons, Bool.and_eq_true] at h
    obtain ⟨hf, hr⟩ := h
    have ih := fun s a => encChunkFields_no_panic ideal all pl v fs s a hr
    unfold encChunkFields
    cases f with
    | scalar id w =>
      simp only [typedBf] at hf
      split at hf
      · rename_i x hx
        simp only [decide_eq_true_eq] at hf
        simp only [natField, hx, Outcome.bind]
        rw [if_neg (by omega)]
        split
        · rfl
        · exact ih _ _
      · cases hf
    | flag id opts =>
      simp only [typedBf, Bool.not_eq_true', List.isEmpty_eq_false_iff] at hf
      cases opts with
      | nil => exact absurd rfl hf
      | cons o rest =>
        obtain ⟨oid, setv⟩ := o
        simp only
        split
        · rfl
        · exact ih _ _
    | enumTy id ty e =>
      simp only [typedBf] at hf
      split at hf
      · rename_i x hx
        simp only [natField, hx, Outcome.bind, hf, ↓reduceIte]
        exact ih _ _
      · cases hf
    | fixed w c => exact ih _ _
    | reserved w => exact ih _ _
    | size t w m =>
      simp only [typedBf, Bool.or_eq_true, beq_iff_eq] at hf
      have hs : ∃ s, sizeOfTarget all t pl v = .ok s := by
        simp only [sizeOfTarget]
        rcases hf with (ht | ht) | hfa
        · subst ht; exact ⟨pl, by simp⟩
        · subst ht; exact ⟨pl, by simp⟩
        · by_cases hpb : (t == "_payload_" || t == "_body_") = true
          · exact ⟨pl, by simp [hpb]⟩
          · simp only [hpb, Bool.false_eq_true, ↓reduceIte]
            split at hfa
            · rename_i x vs hfa1 hget
              exact sizeFind_no_panic v all t vs (by simp [hfa1]) hget
            · cases hfa
      obtain ⟨s0, hs0⟩ := hs
      simp only [hs0, Outcome.bind]
      repeat' split
      all_goals first | rfl | exact ih _ _
    | count t w =>
      simp only [typedBf] at hf
      split at hf
      · rename_i vs hget
        simp only [listField, hget, Outcome.bind]
        split
        · rfl
        · exact ih _ _
      · cases hf
    | elemSize t w =>
      simp only [typedBf] at hf
      split at hf
      · rename_i x vs hfa1 hget
        simp only [listField, hget, Outcome.bind]
        have := elemTy_of_firstArray all t (by simp [hfa1])
        cases hel : encChunkFields.elemTy t all with
        | none => simp [hel] at this
        | some ty =>
          simp only
          repeat' split
          all_goals first | rfl | exact ih _ _
      · cases hf

theorem encListWith_no_panic (f : Value → Enc Bytes) : ∀ (vs : List Value), (∀ x ∈ vs, (f x).isPanic = false) →
    (encListWith f vs).isPanic = false
  | [], _ => rfl
  | x :: vs, h => by
    simp only [encListWith]
    have h1 := h x (List.mem_cons_self ..)
    have h2 := encListWith_no_panic f vs (fun y hy => h y (List.mem_cons_of_mem _ hy))
    cases hx : f x with
    | panic q => simp [hx, Outcome.isPanic] at h1
    | err e => rfl
    | ok a =>
      simp only [Outcome.bind]
      cases hr : encListWith f vs with
      | panic q => simp [hr, Outcome.isPanic] at h2
      | err e => rfl
      | ok b => rfl


theorem encList_len_arrSize (c : Cfg) (elem : Ty) (ew : ElemWidth)
    (hw : (match ew with | .static w => staticTy elem == some w | _ => true) = true ∧ lenWfTy elem = true)
    (vs : List Value) (es : Bytes) (hel : encListWith (encTy c elem) vs = .ok es) :
    es.length = arrSize ew (lenTy elem) vs := by
  cases ew with
  | static w =>
    have hst : staticTy elem = some w := by simpa using hw.1
    have := encListWith_length (encTy c elem) (fun _ => w) (fun x b hx => encTy_static c elem x b w hst hx) vs es hel
    simp only [arrSize, this, sumLen_const]
  | dynamic => exact encListWith_length (encTy c elem) (lenTy elem) (fun x b hx => encTy_len c elem x b hw.2 hx) vs es hel
  | unknown => exact encListWith_length (encTy c elem) (lenTy elem) (fun x b hx => encTy_len c elem x b hw.2 hx) vs es hel

theorem isPanic_bind_false {α β : Type} (x : Enc α) (f : α → Enc β) (hx : x.isPanic = false)
    (hf : ∀ a, x = .ok a → (f a).isPanic = false) : (x.bind f).isPanic = false := by
  cases x with
  | ok a => exact hf a rfl
  | err e => rfl
  | panic q => simp [Outcome.isPanic] at hx

mutual
theorem encTy_no_panic (c : Cfg) : ∀ (t : Ty) (v : Value), LenWFTy t → typedTy t v = true →
    (encTy c t v).isPanic = false
  | .scalar w, v, _, ht => by
    simp only [typedTy] at ht
    split at ht
    · rename_i x
      simp only [decide_eq_true_eq] at ht
      simp only [encTy]
      rw [if_neg (by omega)]
      split <;> rfl
    · cases ht
  | .enumTy nm en, v, _, ht => by
    simp only [typedTy] at ht
    split at ht
    · simp [encTy, ht, Outcome.isPanic]
    · cases ht
  | .custom nm w, v, _, ht => by
    simp only [typedTy] at ht
    split at ht
    · simp only [decide_eq_true_eq] at ht
      simp [encTy, ht, Outcome.isPanic]
    · cases ht
  | .struct nm b, v, hw, ht => by
    simp only [typedTy] at ht
    simp only [encTy]
    cases b with
    | root nm' items => exact encBody_no_panic c (.root nm' items) v (by simpa [LenWFTy, LenWFBody, lenWfTy, lenWfBody] using hw) ht
    | derived _ _ _ _ _ => simp [LenWFTy, lenWfTy] at hw

theorem encItem_no_panic (c : Cfg) (all : Items) (inner : Enc Bytes) (hin : inner.isPanic = false) (pl : Nat) (v : Value) :
    ∀ (i : Item), LenWFItem i → typedItem all v i = true → (encItem c all inner pl v i).isPanic = false
  | .chunk fs, _, ht => by
    simp only [typedItem] at ht
    simp only [encItem]
    exact isPanic_bind_false _ _ (encChunkFields_no_panic _ all pl v fs 0 0 ht) (fun _ _ => rfl)
  | .typedef id ty sb, hw, ht => by
    simp only [LenWFItem, lenWfItem, Bool.and_eq_true] at hw
    simp only [typedItem] at ht
    simp only [encItem]
    split at ht
    · rename_i x hx
      simp only [hx]
      exact encTy_no_panic c ty x hw.2 ht
    · cases ht
  | .optional id ty cid cval, hw, ht => by
    simp only [LenWFItem, lenWfItem] at hw
    simp only [typedItem] at ht
    simp only [encItem]
    cases hg : v.get? id with
    | none => rfl
    | some y =>
      simp only [hg] at ht
      cases y with
      | null => rfl
      | int n =>
        cases ty with
        | scalar w =>
          simp only [typedTy, decide_eq_true_eq] at ht
          simp only
          rw [if_neg (by omega)]
          split <;> rfl
        | enumTy nm en => exact encTy_no_panic c _ _ hw ht
        | custom nm w => exact encTy_no_panic c _ _ hw ht
        | struct nm b => exact encTy_no_panic c _ _ hw ht
      | arr l =>
        cases ty with
        | scalar w => simp [typedTy] at ht
        | enumTy nm en => exact encTy_no_panic c _ _ hw ht
        | custom nm w => exact encTy_no_panic c _ _ hw ht
        | struct nm b => exact encTy_no_panic c _ _ hw ht
      | obj l =>
        cases ty with
        | scalar w => simp [typedTy] at ht
        | enumTy nm en => exact encTy_no_panic c _ _ hw ht
        | custom nm w => exact encTy_no_panic c _ _ hw ht
        | struct nm b => exact encTy_no_panic c _ _ hw ht
  | .payload md, _, _ => by simpa [encItem] using hin
  | .array id elem ew shape pad, hw, ht => by
    simp only [LenWFItem, lenWfItem, Bool.and_eq_true] at hw
    simp only [typedItem] at ht
    simp only [encItem]
    split at ht
    · rename_i vs hget
      simp only [Bool.and_eq_true, List.all_eq_true] at ht
      simp only [listField, hget, Outcome.bind]
      have hcc : checkCount shape vs.length = .ok () := by
        cases shape with
        | static n => simp only [beq_iff_eq] at ht; simp [checkCount, ht.2]
        | _ => rfl
      simp only [hcc]
      cases hp : checkPad pad (arrSize ew (lenTy elem) vs) with
      | err e => rfl
      | panic q =>
        simp only [checkPad] at hp
        split at hp
        · cases hp
        · split at hp <;> cases hp
      | ok u =>
        simp only
        have hnl := encListWith_no_panic (encTy c elem) vs (fun x hx => encTy_no_panic c elem x hw.2 (ht.1 x hx))
        cases hel : encListWith (encTy c elem) vs with
        | panic q => simp [hel, Outcome.isPanic] at hnl
        | err e => rfl
        | ok es =>
          simp only
          have hlen := encList_len_arrSize c elem ew hw vs es hel
          cases pad with
          | none => rfl
          | some q =>
            simp only [checkPad] at hp
            split at hp
            · cases hp
            · rename_i hle
              simp only [padTo]
              rw [if_pos (by omega)]
              rfl
    · cases ht

theorem encItems_no_panic (c : Cfg) (all : Items) (inner : Enc Bytes) (hin : inner.isPanic = false) (pl : Nat) (v : Value) :
    ∀ (is : Items), LenWFItems is → typedItems all v is = true → (encItems c all inner pl v is).isPanic = false
  | .nil, _, _ => rfl
  | .cons i r, hw, ht => by
    simp only [LenWFItems, lenWfItems, Bool.and_eq_true] at hw
    simp only [typedItems, Bool.and_eq_true] at ht
    simp only [encItems]
    refine isPanic_bind_false _ _ (encItem_no_panic c all inner hin pl v i hw.1 ht.1) (fun a _ => ?_)
    exact isPanic_bind_false _ _ (encItems_no_panic c all inner hin pl v r hw.2 ht.2) (fun _ _ => rfl)

/-- **`encode` never panics** — for every layout whose static annotations agree with its types (`LenWFBody`),
    both byte orders, the model of the emitted encoder and the reference mode alike, and every value of the
    generated type (`typedBody`: what the Rust type system and serde admit): the outcome is bytes or an
    `EncodeError`; in particular the padding subtraction `padding_octets - array_size` never underflows
    (it is dominated by the `SizeOverflow` check).  Root packets, structs, inheriting packets at any depth. -/
theorem encBody_no_panic (c : Cfg) : ∀ (b : Body) (v : Value), LenWFBody b → typedBody b v = true →
    (encBody c b v).isPanic = false
  | .root nm items, v, hw, ht => by
    simp only [LenWFBody, lenWfBody] at hw
    simp only [typedBody, Bool.and_eq_true, Bool.or_eq_true, Bool.not_eq_true'] at ht
    simp only [encBody]
    split
    · rename_i hp
      rcases ht.2 with h | h
      · simp [h] at hp
      · cases hh : items.hasPayload with
        | false => simp [hh] at hp
        | true =>
          simp only [hh, ↓reduceIte] at hp
          rw [hp] at h; cases h
    · rename_i p hp
      exact encItems_no_panic c items (.ok p) rfl p.length v items hw ht.1
  | .derived nm parent cs allCs items, v, hw, ht => by
    simp only [LenWFBody, lenWfBody, Bool.and_eq_true] at hw
    simp only [typedBody, Bool.and_eq_true, Bool.or_eq_true, Bool.not_eq_true'] at ht
    simp only [encBody]
    split
    · rename_i hp
      rcases ht.1.2 with h | h
      · simp [h] at hp
      · cases hh : items.hasPayload with
        | false => simp [hh] at hp
        | true =>
          simp only [hh, ↓reduceIte] at hp
          rw [hp] at h; cases h
    · rename_i p hp
      exact encAround_no_panic c parent _ _ _ hw.1.2 ht.2
        (encItems_no_panic c items (.ok p) rfl p.length _ items hw.1.1 ht.1.1)

theorem encAround_no_panic (c : Cfg) : ∀ (b : Body) (v : Value) (inner : Enc Bytes) (len : Nat), LenWFBody b →
    typedAround b v = true → inner.isPanic = false → (encAround c b v inner len).isPanic = false
  | .root nm items, v, inner, len, hw, ht, hin => by
    simp only [LenWFBody, lenWfBody] at hw
    simp only [typedAround] at ht
    simp only [encAround]
    exact encItems_no_panic c items inner hin len v items hw ht
  | .derived nm parent cs allCs items, v, inner, len, hw, ht, hin => by
    simp only [LenWFBody, lenWfBody, Bool.and_eq_true] at hw
    simp only [typedAround, Bool.and_eq_true] at ht
    simp only [encAround]
    exact encAround_no_panic c parent v _ _ hw.1.2 ht.2 (encItems_no_panic c items inner hin len v items hw.1.1 ht.1)
end

/-! non-vacuity: the value `{ a: 9, b: 9000, x: [1, 2], payload: [7] }` is a value of the type generated for
    `packet P { a: 3, b: 13, x: 16[], _payload_ }` (and is out of range: `encode` returns an error, no panic) -/
example : typedBody (.root "P" (.cons (.chunk [.scalar "a" 3, .scalar "b" 13])
    (.cons (.array "x" (.scalar 16) (.static 2) .unknown none) (.cons (.payload .last) .nil))))
    (.obj [("a", .int 9), ("b", .int 9000), ("x", .arr [.int 1, .int 2]), ("payload", .arr [.int 7])]) = true := by
  decide

/-! non-vacuity: `packet P { a: 3, b: 13, x: 16[], _payload_ }` meets `LenWFBody` -/
example : LenWFBody (.root "P" (.cons (.chunk [.scalar "a" 3, .scalar "b" 13])
    (.cons (.array "x" (.scalar 16) (.static 2) .unknown none) (.cons (.payload .last) .nil)))) := by
  simp [LenWFBody, lenWfBody, lenWfItems, lenWfItem, lenWfTy, staticTy]

end Pdlv
