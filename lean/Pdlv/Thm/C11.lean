/-
  C11 — compilation is a deterministic pure function of the source.

  The real compiler keeps several intermediates in `HashMap`s whose iteration order changes from
  process to process (Scope::typedef, the constraint maps of `generate_specialize_impl`, the
  condition map of `desugar_flags`).  The emitted text is deterministic because every such map is
  either only *looked up*, or re-ordered through a `BTreeSet` / `BTreeMap` before emission, or
  filled and read in declaration / field order.  The theorems state exactly that about the model:

  * `sortDedup_congr` — the identifier list the `specialize()` match is built from depends only on
    the SET of identifiers gathered, not on the order (or multiplicity) in which they were met;
  * `lookup_insertC`, `insertC_comm`, `tupleOf_congr` — a constraint map is determined by its
    look-ups; inserting two different keys in either order gives the same map, hence the same
    match tuple.

  Byte identity of whole outputs across processes is observed by the check (k fresh processes per
  description and back end), not proved.
-/
import Pdlv.Inherit
import Pdlv.Analyzer

namespace Pdlv
namespace Inherit

/-! ### sorted, duplicate-free identifier lists are canonical -/

theorem str_tri (a b : String) : a < b ∨ a = b ∨ b < a := by
  by_cases h1 : a < b
  · exact Or.inl h1
  · by_cases h2 : b < a
    · exact Or.inr (Or.inr h2)
    · exact Or.inr (Or.inl (String.le_antisymm (String.not_lt.mp h2) (String.not_lt.mp h1)))

theorem mem_insertStr (a x : String) (l : List String) : x ∈ insertStr a l ↔ x = a ∨ x ∈ l := by
  induction l with
  | nil => simp [insertStr]
  | cons b l ih =>
    unfold insertStr
    split
    · simp
    · split
      · rename_i h
        have hab : a = b := by simpa using h
        subst hab
        simp
      · simp only [List.mem_cons, ih]
        constructor
        · rintro (h | h | h)
          · exact Or.inr (Or.inl h)
          · exact Or.inl h
          · exact Or.inr (Or.inr h)
        · rintro (h | h | h)
          · exact Or.inr (Or.inl h)
          · exact Or.inl h
          · exact Or.inr (Or.inr h)

theorem mem_foldl_insertStr (x : String) (l acc : List String) :
    x ∈ l.foldl (fun acc a => insertStr a acc) acc ↔ x ∈ acc ∨ x ∈ l := by
  induction l generalizing acc with
  | nil => simp
  | cons a l ih =>
    simp only [List.foldl_cons, ih, mem_insertStr, List.mem_cons]
    constructor
    · rintro ((h | h) | h)
      · exact Or.inr (Or.inl h)
      · exact Or.inl h
      · exact Or.inr (Or.inr h)
    · rintro (h | h | h)
      · exact Or.inl (Or.inr h)
      · exact Or.inl (Or.inl h)
      · exact Or.inr h

theorem mem_sortDedup (x : String) (l : List String) : x ∈ sortDedup l ↔ x ∈ l := by
  unfold sortDedup
  simp [mem_foldl_insertStr]

def Sorted (l : List String) : Prop := l.Pairwise (· < ·)

theorem insertStr_sorted (a : String) (l : List String) (h : Sorted l) : Sorted (insertStr a l) := by
  induction l with
  | nil => simp [insertStr, Sorted]
  | cons b l ih =>
    unfold Sorted at h ih ⊢
    rw [List.pairwise_cons] at h
    unfold insertStr
    split
    · rename_i hab
      rw [List.pairwise_cons]
      refine ⟨?_, List.pairwise_cons.mpr h⟩
      intro y hy
      rcases List.mem_cons.mp hy with rfl | hy
      · exact hab
      · exact String.lt_trans hab (h.1 y hy)
    · split
      · exact List.pairwise_cons.mpr h
      · rename_i hab hne
        have hne' : a ≠ b := by simpa using hne
        have hba : b < a := by
          rcases str_tri a b with h1 | h1 | h1
          · exact absurd h1 hab
          · exact absurd h1 hne'
          · exact h1
        rw [List.pairwise_cons]
        refine ⟨?_, ih h.2⟩
        intro y hy
        rcases (mem_insertStr a y l).mp hy with rfl | hy
        · exact hba
        · exact h.1 y hy

theorem foldl_insertStr_sorted (l acc : List String) (h : Sorted acc) :
    Sorted (l.foldl (fun acc a => insertStr a acc) acc) := by
  induction l generalizing acc with
  | nil => simpa using h
  | cons a l ih => exact ih _ (insertStr_sorted a acc h)

theorem sortDedup_sorted (l : List String) : Sorted (sortDedup l) :=
  foldl_insertStr_sorted l [] (by simp [Sorted])

/-- two strictly sorted lists with the same members are equal -/
theorem sorted_ext (l1 l2 : List String) (h1 : Sorted l1) (h2 : Sorted l2)
    (h : ∀ x, x ∈ l1 ↔ x ∈ l2) : l1 = l2 := by
  induction l1 generalizing l2 with
  | nil =>
    cases l2 with
    | nil => rfl
    | cons b l2 => exact absurd ((h b).mpr (List.mem_cons_self ..)) (by simp)
  | cons a l1 ih =>
    cases l2 with
    | nil => exact absurd ((h a).mp (List.mem_cons_self ..)) (by simp)
    | cons b l2 =>
      unfold Sorted at h1 h2
      rw [List.pairwise_cons] at h1 h2
      have hab : a = b := by
        rcases List.mem_cons.mp ((h a).mp (List.mem_cons_self ..)) with e | ha
        · exact e
        · rcases List.mem_cons.mp ((h b).mpr (List.mem_cons_self ..)) with e | hb
          · exact e.symm
          · exact absurd (h1.1 b hb) (String.lt_asymm (h2.1 a ha))
      subst hab
      congr 1
      apply ih l2 h1.2 h2.2
      intro x
      constructor
      · intro hx
        rcases List.mem_cons.mp ((h x).mp (List.mem_cons_of_mem _ hx)) with e | hx2
        · subst e; exact absurd (h1.1 x hx) (String.lt_irrefl x)
        · exact hx2
      · intro hx
        rcases List.mem_cons.mp ((h x).mpr (List.mem_cons_of_mem _ hx)) with e | hx1
        · subst e; exact absurd (h2.1 x hx) (String.lt_irrefl x)
        · exact hx1

/-- **order independence of the identifier list**: however the constraint identifiers (or child
    identifiers) were gathered — any order, any repetition, as a `HashMap` iteration may produce —
    the sorted list the match is emitted from is the same. -/
theorem sortDedup_congr (l1 l2 : List String) (h : ∀ x, x ∈ l1 ↔ x ∈ l2) : sortDedup l1 = sortDedup l2 :=
  sorted_ext _ _ (sortDedup_sorted l1) (sortDedup_sorted l2) (by
    intro x; rw [mem_sortDedup, mem_sortDedup]; exact h x)

theorem sortDedup_perm (l1 l2 : List String) (h : l1.Perm l2) : sortDedup l1 = sortDedup l2 :=
  sortDedup_congr l1 l2 (fun _ => h.mem_iff)

/-! ### constraint maps are determined by their look-ups -/

theorem lookup_filter_ne (cs : List (String × Nat)) (k k' : String) :
    List.lookup k' (cs.filter (·.1 != k)) = if k' == k then none else List.lookup k' cs := by
  induction cs with
  | nil => simp [List.lookup]
  | cons p cs ih =>
    obtain ⟨a, v⟩ := p
    by_cases hak : a = k
    · subst hak
      simp only [List.filter_cons, bne_self_eq_false, Bool.false_eq_true, ↓reduceIte, ih]
      by_cases hk : k' = a
      · subst hk; simp
      · have : (k' == a) = false := by simpa using hk
        simp [List.lookup, this]
    · have hne : (a != k) = true := by simpa using hak
      simp only [List.filter_cons, hne, ↓reduceIte]
      by_cases hk : k' = a
      · subst hk
        have : (k' == k) = false := by simpa using hak
        simp [List.lookup, this]
      · have h2 : (k' == a) = false := by simpa using hk
        simp [List.lookup, h2, ih]

/-- `HashMap::insert` as modelled: the new binding wins, every other key is unaffected -/
theorem lookup_insertC (cs : List (String × Nat)) (k k' : String) (v : Nat) :
    List.lookup k' (insertC cs k v) = if k' == k then some v else List.lookup k' cs := by
  unfold insertC
  by_cases hk : k' = k
  · subst hk; simp [List.lookup]
  · have h2 : (k' == k) = false := by simpa using hk
    simp [List.lookup, h2, lookup_filter_ne]

/-- inserting two different keys in either order gives maps with the same look-ups -/
theorem insertC_comm (cs : List (String × Nat)) (k1 k2 : String) (v1 v2 : Nat) (h : k1 ≠ k2) (k : String) :
    List.lookup k (insertC (insertC cs k1 v1) k2 v2) = List.lookup k (insertC (insertC cs k2 v2) k1 v1) := by
  simp only [lookup_insertC]
  by_cases a : k = k1 <;> by_cases b : k = k2
  · exact absurd (a.symm.trans b) h
  · subst a
    have : (k == k2) = false := by simpa using b
    simp [this]
  · subst b
    have : (k == k1) = false := by simpa using a
    simp [this]
  · have h1 : (k == k1) = false := by simpa using a
    have h2 : (k == k2) = false := by simpa using b
    simp [h1, h2]

/-- the tuple a case contributes to the match depends only on the look-ups of its constraint map -/
theorem tupleOf_congr (ids : List String) (c c' : SpecCase)
    (h : ∀ k, List.lookup k c.constraints = List.lookup k c'.constraints) : tupleOf ids c = tupleOf ids c' := by
  unfold tupleOf
  exact List.map_congr_left (fun k _ => h k)

/-! ### non-vacuity -/
example : sortDedup ["b", "a", "b", "c"] = sortDedup ["c", "b", "a"] :=
  sortDedup_congr _ _ (by intro x; simp only [List.mem_cons, List.mem_nil_iff, or_false]; grind)

end Inherit
end Pdlv
