/-
  C07 — all back ends agree on the wire format.

  The reference is the hub: the per-back-end properties (C03/C04 Rust, C13 Python, C14 C++, C19 Java)
  state agreement with it; agreement with each other and interoperability follow.
-/
import Pdlv.Thm.C13

namespace Pdlv
namespace Interop

/-- a back end, abstractly: a serializer and a (full) parser over the same value space -/
structure BackEnd where
  enc : Value → Option Bytes
  dec : Bytes → Option Value

/-- the back end writes the reference encoding of v -/
def AgreesEnc (ref : Value → Option Bytes) (A : BackEnd) (v : Value) : Prop := A.enc v = ref v
/-- the back end parses b as the reference does -/
def AgreesDec (refDec : Bytes → Option Value) (A : BackEnd) (b : Bytes) : Prop := A.dec b = refDec b

/-- **identical bytes**: two serializers that write the reference encoding write the same bytes -/
theorem serializers_agree (ref : Value → Option Bytes) (A B : BackEnd) (v : Value)
    (hA : AgreesEnc ref A v) (hB : AgreesEnc ref B v) : A.enc v = B.enc v := by
  rw [hA, hB]

/-- **parsers agree** on acceptance and on every field value -/
theorem parsers_agree (refDec : Bytes → Option Value) (A B : BackEnd) (b : Bytes)
    (hA : AgreesDec refDec A b) (hB : AgreesDec refDec B b) : A.dec b = B.dec b := by
  rw [hA, hB]

/-- **interoperability**: a packet written by code generated for one language is read back unchanged
    by code generated for any other, whenever the reference round-trips the value -/
theorem interop (ref : Value → Option Bytes) (refDec : Bytes → Option Value) (A B : BackEnd)
    (v : Value) (bs : Bytes)
    (hA : AgreesEnc ref A v) (href : ref v = some bs) (hrt : refDec bs = some v)
    (hB : AgreesDec refDec B bs) : ∃ out, A.enc v = some out ∧ B.dec out = some v := by
  refine ⟨bs, ?_, ?_⟩
  · rw [hA, href]
  · rw [hB, hrt]

/-- the relation is symmetric in the two back ends (no privileged writer) -/
theorem interop_symm (ref : Value → Option Bytes) (refDec : Bytes → Option Value) (A B : BackEnd)
    (v : Value) (bs : Bytes)
    (hA : AgreesEnc ref A v) (hB : AgreesEnc ref B v) (href : ref v = some bs) (hrt : refDec bs = some v)
    (hdA : AgreesDec refDec A bs) (hdB : AgreesDec refDec B bs) :
    (∃ out, A.enc v = some out ∧ B.dec out = some v) ∧ (∃ out, B.enc v = some out ∧ A.dec out = some v) :=
  ⟨interop ref refDec A B v bs hA href hrt hdB, interop ref refDec B A v bs hB href hrt hdA⟩

/-- non-vacuity: the reference itself, as a back end, satisfies the hypotheses on a concrete packet -/
example :
    let b : Body := .root "P" (.cons (.chunk [.scalar "a" 8]) .nil)
    let ref := fun v => Ref.encode .little b v
    AgreesEnc ref { enc := ref, dec := fun _ => none } (.obj [("a", .int 7)]) := rfl

end Interop
end Pdlv
