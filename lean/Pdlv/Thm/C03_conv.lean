/-
  C03 / C05 — the converse of `encode_ideal_eq_ref` (kept in a file of its own because its lemmas build on the
  forward theorem and on the decoder-side lemmas): the reference-mode encoder succeeds exactly on the values
  the bit-level reference `Pdlv.Ref` assigns an encoding to, and writes that encoding.
-/
import Pdlv.Lemmas.RefConv

namespace Pdlv

/-- **C03, converse.**  For every packet or struct without parent in `convWfBody` (C03's hypotheses plus
    bit-field and scalar widths of at most 64; decidable, evaluated per run), both byte orders and every value:
    if doc/reference.md (`Ref.encode`) assigns the value an encoding, the reference-mode encoder succeeds with
    exactly those bytes — no range check, size / count / element-size computation, flag-consistency check or
    padding bound of the encoder rejects a value the reference can encode. -/
theorem reference_encoding_is_written (e : Endian) (nm : String) (items : Items)
    (hw : convWfBody (.root nm items) = true) (v : Value) (bs : Bytes)
    (h : Ref.encode e (.root nm items) v = some bs) :
    encBody { e := e, mode := .ideal } (.root nm items) v = .ok bs :=
  ref_to_encode e nm items hw v bs h

/-- **C03 / C05, both directions** (`encode_ok_iff`): the encoder succeeds with `bs` iff `bs` is the reference
    encoding; in particular it fails (with an EncodeError — it never panics, `encBody_no_panic`) exactly on the
    values the reference cannot encode -/
theorem encode_succeeds_iff_reference (e : Endian) (nm : String) (items : Items)
    (hw : convWfBody (.root nm items) = true) (v : Value) (bs : Bytes) :
    encBody { e := e, mode := .ideal } (.root nm items) v = .ok bs ↔ Ref.encode e (.root nm items) v = some bs :=
  encode_iff_ref e nm items hw v bs

/-- and away from array size modifiers the same holds of the model of the EMITTED encoder, in the direction
    that matters: every value the reference encodes is written with the reference bytes -/
theorem reference_encoding_is_written_rust (e : Endian) (nm : String) (items : Items)
    (hw : convWfBody (.root nm items) = true) (hn : noModBody (.root nm items) = true) (v : Value) (bs : Bytes)
    (h : Ref.encode e (.root nm items) v = some bs) :
    encBody { e := e, mode := .rust } (.root nm items) v = .ok bs :=
  encBody_ideal_to_rust e _ v bs hn (ref_to_encode e nm items hw v bs h)

/-- non-vacuity: `packet P { _count_(x): 8, f: 1, _reserved_: 7, x: 16[], o: 8 if f = 1, _payload_ }` is in the class -/
example : convWfBody (.root "P" (.cons (.chunk [.count "x" 8, .flag "f" [("o", 1)], .reserved 7])
    (.cons (.array "x" (.scalar 16) (.static 2) .countField none)
    (.cons (.optional "o" (.scalar 8) "f" 1) (.cons (.payload .last) .nil))))) = true := by decide

end Pdlv
