/-
  C12 — parser fidelity: the AST is what was written, with truthful source ranges.

  The grammar and tree-to-AST conversion are modelled in `Pdlv.Syntax` (a PEG interpreter with
  pest's semantics over the transcribed grammar) and compared with the real parser on every
  run; the grammar itself is re-translated from parser.rs on every run and compared with the
  transcription.  The theorems here are about the two pure functions every source range and every
  integer value goes through (`SourceLocation::new`, `as_usize`) and about the interpreter, for every
  grammar and every input: every node's range lies within the file, is ordered, and nests.
-/
import Pdlv.Syntax
import Pdlv.Lemmas.Peg

namespace Pdlv
namespace Syntax

/-! ### SourceLocation::new -/

theorem go_spec (off : Nat) : ∀ (rest : List Nat) (k : Nat) (acc : SrcLoc),
    rest.Pairwise (· < ·) →
    (srcLocNew.go off k acc rest = acc ∧ ∀ s, rest.head? = some s → off < s) ∨
    (∃ i s, rest[i]? = some s ∧ s ≤ off ∧
        srcLocNew.go off k acc rest = { offset := off, line := k + i, column := off - s } ∧
        ∀ j s', i < j → rest[j]? = some s' → off < s') := by
  intro rest
  induction rest with
  | nil => intro k acc _; left; simp [srcLocNew.go]
  | cons s rest ih =>
    intro k acc hs
    simp only [srcLocNew.go]
    by_cases hgt : s > off
    · left; simp [hgt]
    · simp only [hgt, ↓reduceIte]
      have hs' : rest.Pairwise (· < ·) := (List.pairwise_cons.mp hs).2
      have hall : ∀ x ∈ rest, s < x := (List.pairwise_cons.mp hs).1
      rcases ih (k + 1) { offset := off, line := k, column := off - s } hs' with ⟨heq, hhead⟩ | ⟨i, s2, hi, hle, heq, hlater⟩
      · right
        refine ⟨0, s, by simp, by omega, by simp [heq], ?_⟩
        intro j s' hj hget
        cases j with
        | zero => omega
        | succ j =>
          simp only [List.getElem?_cons_succ] at hget
          -- every later start is ≥ the head of `rest`, which is > off
          cases rest with
          | nil => simp at hget
          | cons r0 rest' =>
            have h0 : off < r0 := hhead r0 (by simp)
            cases j with
            | zero => simp at hget; omega
            | succ j' =>
              simp only [List.getElem?_cons_succ] at hget
              have hmem : s' ∈ rest' := List.mem_of_getElem? hget
              have := (List.pairwise_cons.mp hs').1 s' hmem
              omega
      · right
        refine ⟨i + 1, s2, by simpa using hi, hle, ?_, ?_⟩
        · rw [heq]; congr 1; omega
        · intro j s' hj hget
          cases j with
          | zero => omega
          | succ j =>
            simp only [List.getElem?_cons_succ] at hget
            exact hlater j s' (by omega) hget

/-- **line/column are consistent with the byte offset**: for strictly increasing line starts
    beginning with 0, `SourceLocation::new(off, line_starts)` returns the unique line whose start
    is ≤ off with every later line starting after off, `column = off − start of that line`, and
    the offset itself unchanged. -/
theorem srcloc_correct (off : Nat) (ls : List Nat) (hs : ls.Pairwise (· < ·)) (h0 : ls.head? = some 0) :
    ∃ s, ls[(srcLocNew off ls).line]? = some s ∧ s ≤ off ∧
      (srcLocNew off ls).column = off - s ∧ (srcLocNew off ls).offset = off ∧
      ∀ j s', (srcLocNew off ls).line < j → ls[j]? = some s' → off < s' := by
  unfold srcLocNew
  rcases go_spec off ls 0 { offset := off, line := 0, column := off } hs with ⟨_, hhead⟩ | ⟨i, s, hi, hle, heq, hl⟩
  · have := hhead 0 h0; omega
  · rw [heq]
    exact ⟨s, by simpa using hi, hle, rfl, rfl, by simpa using hl⟩

/-- with no line starts at all the location degrades to line 0, column = offset (the case the
    repository's own unit test pins) -/
theorem srcloc_empty (off : Nat) : srcLocNew off [] = { offset := off, line := 0, column := off } := rfl

/-! ### integer literals -/

/-- decimal and `0x` literals are evaluated by the same Horner scheme, digit by digit -/
theorem fromStrRadix_snoc (radix : Nat) (ds : List Char) (d : Char) (n k : Nat)
    (hds : ds ≠ []) (h : fromStrRadix radix ds = some n) (hd : digitVal d = some k)
    (hk : k < radix) (hfit : n * radix + k < 2 ^ 64) :
    fromStrRadix radix (ds ++ [d]) = some (n * radix + k) := by
  unfold fromStrRadix at *
  have hne : (ds ++ [d]).isEmpty = false := by simp
  have hne2 : ds.isEmpty = false := by simpa using hds
  simp only [hne, hne2, Bool.false_eq_true, ↓reduceIte, List.foldl_append, List.foldl_cons, List.foldl_nil] at *
  rw [h]
  simp [hd, hk, hfit]

/-- a `0x` literal is read in radix 16, anything else in radix 10 -/
theorem asUsize_hex (hs : List Char) : asUsize (String.ofList ('0' :: 'x' :: hs)) = fromStrRadix 16 hs := by
  simp [asUsize]

theorem asUsize_hex_upper (hs : List Char) : asUsize (String.ofList ('0' :: 'X' :: hs)) = fromStrRadix 16 hs := by
  simp [asUsize]

/-- **radix independence**: `0x` and `0X` literals with the same digits have the same value -/
theorem int_radix_prefix_case (hs : List Char) :
    asUsize (String.ofList ('0' :: 'x' :: hs)) = asUsize (String.ofList ('0' :: 'X' :: hs)) := by
  rw [asUsize_hex, asUsize_hex_upper]

/-- all spellings of the same number have the same value -/
example : asUsize "0x1f" = some 31 ∧ asUsize "31" = some 31 ∧ asUsize "0x1F" = some 31 ∧ asUsize "0x001f" = some 31 ∧
          asUsize "0X1f" = some 31 ∧ asUsize "0031" = some 31 := by
  refine ⟨by rfl, by rfl, by rfl, by rfl, by rfl, by rfl⟩

/-- the largest 64-bit value is accepted, the next one is not (no silent wrap-around) -/
example : asUsize "18446744073709551615" = some (2 ^ 64 - 1) ∧ asUsize "18446744073709551616" = none ∧
          asUsize "0xffffffffffffffff" = some (2 ^ 64 - 1) ∧ asUsize "0x10000000000000000" = none := by
  refine ⟨by rfl, by rfl, by rfl, by rfl⟩


/-! ### source ranges of the parse tree -/

open Peg in
/-- **Every node's source range lies within the file, is ordered, and nests** — for every grammar, every start
    rule and every input, whatever tree the PEG interpreter returns: top-level nodes are consecutive
    (`chain`: each starts at or after the end of the previous one) between offset 0 and the length of the
    input; every node has `start ≤ stop`, and its children are consecutive within `[start, stop]`,
    recursively (`Pair.within`). -/
theorem parse_ranges (g : Grammar) (start : String) (input : Array UInt8) (ps : List Pair)
    (h : Peg.parse g start input = some ps) : chain ps 0 input.size = true := by
  simp only [Peg.parse, Option.map_eq_some_iff] at h
  obtain ⟨st', hr, rfl⟩ := h
  have := run_ok g input defaultFuel _ _ _ _ st' 0 hr (by simp) (by simp [chain])
  exact chain_mono st'.pairs 0 st'.pos 0 input.size this.2.2 (Nat.le_refl _) this.2.1

open Peg in
/-- what `within` says, spelled out: the span is ordered and inside the enclosing one, and every child lies
    inside its parent -/
theorem within_spec (p : Pair) (lo hi : Nat) (h : p.within lo hi = true) :
    lo ≤ p.start ∧ p.start ≤ p.stop ∧ p.stop ≤ hi ∧ chain p.children p.start p.stop = true := by
  cases p with
  | mk r s e cs =>
    simp only [Pair.within, Bool.and_eq_true, decide_eq_true_eq] at h
    exact ⟨h.1.1.1, h.1.1.2, h.1.2, h.2⟩

open Peg in
/-- … and what `chain` says: every member lies in `[lo, hi]`, and siblings do not overlap -/
theorem chain_spec : ∀ (ps : List Pair) (lo hi : Nat), chain ps lo hi = true →
    (∀ p ∈ ps, p.within lo hi = true) ∧ ps.Pairwise (fun a b => a.stop ≤ b.start)
  | [], _, _, _ => ⟨by simp, List.Pairwise.nil⟩
  | p :: ps, lo, hi, h => by
    simp only [chain, Bool.and_eq_true] at h
    obtain ⟨ih1, ih2⟩ := chain_spec ps p.stop hi h.2
    have hp := within_stop p lo hi h.1
    refine ⟨?_, List.Pairwise.cons ?_ ih2⟩
    · intro q hq
      rcases List.mem_cons.mp hq with rfl | hq
      · exact h.1
      · exact within_mono q p.stop hi lo hi (ih1 q hq) hp.1 (Nat.le_refl _)
    · intro q hq
      exact (within_spec q p.stop hi (ih1 q hq)).1

/-- the theorem applies to the transcribed PDL grammar: a successful parse of any text has one root node
    spanning a range inside the text -/
theorem pdl_root_range (input : Array UInt8) (root : Peg.Pair)
    (h : Peg.parse grammar "file" input = some [root]) : root.start ≤ root.stop ∧ root.stop ≤ input.size := by
  have := parse_ranges grammar "file" input [root] h
  simp only [Peg.chain, Bool.and_eq_true] at this
  have := within_spec root 0 input.size this.1
  exact ⟨this.2.1, this.2.2.1⟩

end Syntax
end Pdlv
