/-
  C13 / C14 / C19 — the back ends other than Rust are judged against the reference
  (`Pdlv.Ref`, bit level).  This file holds the facts about the reference that those checks rely
  on: every group / scalar occupies exactly its declared number of octets, scalars are written as
  the emitted `put_uint` writes them, and `size` (the length of the reference encoding) is
  additive over a field list.
-/
import Pdlv.Thm.C03

namespace Pdlv
namespace Ref

theorem bytesOfBits_length (k : Nat) (bits : List Bool) : (bytesOfBits k bits).length = k := by
  induction k generalizing bits with
  | zero => rfl
  | succ k ih => simp [bytesOfBits, ih]

/-- a byte-aligned group of n bits is n / 8 octets, in either byte order -/
theorem groupBytes_length (e : Endian) (bits : List Bool) : (groupBytes e bits).length = bits.length / 8 := by
  unfold groupBytes
  cases e <;> simp [bytesOfBits_length]

/-- a scalar / enum / custom value of width 8k is written by the reference exactly as
    `put_uint{_le}` writes it -/
theorem encTy_scalar_eq_putUint (e : Endian) (k x : Nat) (h : fits (8 * k) x = true) :
    encTy e (.scalar (8 * k)) (.int x) = some (putUint e (8 * k) x) := by
  simp only [encTy, h, ↓reduceIte, groupBytes_eq_putUint]

/-- … and occupies k octets -/
theorem encTy_scalar_length (e : Endian) (k x : Nat) (bs : Bytes)
    (h : encTy e (.scalar (8 * k)) (.int x) = some bs) : bs.length = k := by
  simp only [encTy] at h
  split at h
  · simp only [Option.some.injEq] at h
    rw [← h, groupBytes_length, bitsOf_length]; omega
  · cases h

/-- `size` is additive: the encoding of a field list is the concatenation of the encodings of
    its fields (so its length is the sum of theirs) -/
theorem encItems_cons (e : Endian) (arrs : List ArrInfo) (p : Bytes) (v : Value) (i : Item) (r : Items)
    (a b : Bytes) (ha : encItem e arrs p v i = some a) (hb : encItems e arrs p v r = some b) :
    encItems e arrs p v (.cons i r) = some (a ++ b) := by
  simp [encItems, ha, hb]

theorem encItems_length_cons (e : Endian) (arrs : List ArrInfo) (p : Bytes) (v : Value) (i : Item) (r : Items)
    (a b bs : Bytes) (ha : encItem e arrs p v i = some a) (hb : encItems e arrs p v r = some b)
    (h : encItems e arrs p v (.cons i r) = some bs) : bs.length = a.length + b.length := by
  rw [encItems_cons e arrs p v i r a b ha hb] at h
  simp only [Option.some.injEq] at h
  rw [← h, List.length_append]

/-- the payload occupies exactly its bytes -/
theorem encItem_payload (e : Endian) (arrs : List ArrInfo) (p : Bytes) (v : Value) (m : PayloadMode) :
    encItem e arrs p v (.payload m) = some p := by simp [encItem]

/-- an absent optional field occupies nothing -/
theorem encItem_optional_absent (e : Endian) (arrs : List ArrInfo) (p : Bytes) (v : Value)
    (id : String) (ty : Ty) (cid : String) (cv : Nat) (h : v.get? id = some .null) :
    encItem e arrs p v (.optional id ty cid cv) = some [] := by simp [encItem, h]

/-- non-vacuity -/
example : encTy .big (.scalar 24) (.int 0x010203) = some [1, 2, 3] := by rfl

end Ref
end Pdlv
