/-
  C13 / C14 / C19 — the back ends other than Rust are judged against the reference
  (`Pdlv.Ref`, bit level).  This file holds the facts about the reference that those checks rely
  on: every group / scalar occupies exactly its declared number of octets, scalars are written as
  the emitted `put_uint` writes them, and `size` (the length of the reference encoding) is
  additive over a field list.

  The parser the Python back end emits is modelled in `Pdlv.Py` (static runs behind one length check,
  `parse_all` on static slices, unguarded payload size modifier, …) and compared with the emitted parser
  on every input of every run; `python_parser_agrees_with_reference` relates the model to the reference
  decoder for every input, and the recorded deviations of python.rs are exhibited as theorems about it.
-/
import Pdlv.Thm.C03
import Pdlv.Lemmas.PyAgree
import Pdlv.Lemmas.PySer

namespace Pdlv
namespace Ref

theorem bytesOfBits_length (k : Nat) (bits : List Bool) : (bytesOfBits k bits).length = k := by
  induction k generalizing bits with
  | zero => rfl
  | succ k ih => simp [bytesOfBits, ih]

/-- a byte-aligned group of n bits is n / 8 octets, in either byte order -/
theorem groupBytes_length (e : Endian) (bits : List Bool) : (groupBytes e bits).length = bits.length / 8 := by
  unfold groupBytes
  cases e <;> simp [bytesOfBits_length]

/-- a scalar / enum / custom value of width 8k is written by the reference exactly as
    `put_uint{_le}` writes it -/
theorem encTy_scalar_eq_putUint (e : Endian) (k x : Nat) (h : fits (8 * k) x = true) :
    encTy e (.scalar (8 * k)) (.int x) = some (putUint e (8 * k) x) := by
  simp only [encTy, h, ↓reduceIte, groupBytes_eq_putUint]

/-- … and occupies k octets -/
theorem encTy_scalar_length (e : Endian) (k x : Nat) (bs : Bytes)
    (h : encTy e (.scalar (8 * k)) (.int x) = some bs) : bs.length = k := by
  simp only [encTy] at h
  split at h
  · simp only [Option.some.injEq] at h
    rw [← h, groupBytes_length, bitsOf_length]; omega
  · cases h

/-- `size` is additive: the encoding of a field list is the concatenation of the encodings of
    its fields (so its length is the sum of theirs) -/
theorem encItems_cons (e : Endian) (arrs : List ArrInfo) (p : Bytes) (v : Value) (i : Item) (r : Items)
    (a b : Bytes) (ha : encItem e arrs p v i = some a) (hb : encItems e arrs p v r = some b) :
    encItems e arrs p v (.cons i r) = some (a ++ b) := by
  simp [encItems, ha, hb]

theorem encItems_length_cons (e : Endian) (arrs : List ArrInfo) (p : Bytes) (v : Value) (i : Item) (r : Items)
    (a b bs : Bytes) (ha : encItem e arrs p v i = some a) (hb : encItems e arrs p v r = some b)
    (h : encItems e arrs p v (.cons i r) = some bs) : bs.length = a.length + b.length := by
  rw [encItems_cons e arrs p v i r a b ha hb] at h
  simp only [Option.some.injEq] at h
  rw [← h, List.length_append]

/-- the payload occupies exactly its bytes -/
theorem encItem_payload (e : Endian) (arrs : List ArrInfo) (p : Bytes) (v : Value) (m : PayloadMode) :
    encItem e arrs p v (.payload m) = some p := by simp [encItem]

/-- an absent optional field occupies nothing -/
theorem encItem_optional_absent (e : Endian) (arrs : List ArrInfo) (p : Bytes) (v : Value)
    (id : String) (ty : Ty) (cid : String) (cv : Nat) (h : v.get? id = some .null) :
    encItem e arrs p v (.optional id ty cid cv) = some [] := by simp [encItem, h]

/-- non-vacuity -/
example : encTy .big (.scalar 24) (.int 0x010203) = some [1, 2, 3] := by rfl

end Ref
end Pdlv

namespace Pdlv
namespace Py

/-- **C13, parser side** (see `Py.parse_all_agrees_with_reference`): on the class `Py.wfBody` the model of the
    emitted `parse_all` accepts exactly the inputs the reference `decode_full` accepts, with the same value -/
theorem python_parser_agrees_with_reference (c : Cfg) (nm : String) (items : Items)
    (hw : wfBody (.root nm items) = true) (bs : Bytes) (v : Value) :
    Py.decodeFull c (.root nm items) bs = .ok v ↔
      Pdlv.decodeFull { e := c.e, mode := .ideal } (.root nm items) bs = .ok v :=
  parse_all_agrees_with_reference c nm items hw bs v

/-- **C13, serializer side**: for every packet or struct without parent in `Py.serWfBody` (no element-size or custom
    fields, widths up to 64) that meets the hypotheses of C03, both byte orders, and every value the reference
    assigns an encoding to (through the reference-mode encoder): the model of the emitted `serialize()` succeeds
    and writes exactly `Ref.encode` — it performs fewer checks than the reference encoder (no flag consistency,
    no padding overflow, no enum validation), never different arithmetic -/
theorem python_serializer_writes_reference (c : Cfg) (b : Body) (hs : serWfBody b = true) (hr : refWfBody b = true)
    (v : Value) (bs : Bytes) (h : Pdlv.encBody { e := c.e, mode := .ideal } b v = .ok bs) :
    Py.encBody c b v = .ok bs ∧ Ref.encode c.e b v = some bs :=
  ⟨body_ideal_to_py c b v bs hs h, encode_ideal_eq_ref c.e b hr v bs h⟩

/-- deviation 1 (KF-C13-py-reserved8): `packet P { _size_(x): 8, x: 8[], _reserved_: 8 }` — the emitted parser
    accepts `00` (the reserved octet is missing), the reference rejects it; the layout is outside `wfBody` -/
theorem reserved_octet_unchecked :
    let items : Items := .cons (.chunk [.size "x" 8 0]) (.cons (.array "x" (.scalar 8) (.static 1) .sizeField none)
      (.cons (.chunk [.reserved 8]) .nil))
    (Py.decodeFull { e := .little } (.root "P" items) [0]).isOk = true ∧
    (Pdlv.decodeFull { e := .little, mode := .ideal } (.root "P" items) [0]).isOk = false ∧
    wfBody (.root "P" items) = false := by
  refine ⟨by rfl, by rfl, by rfl⟩

/-- deviation 2 (KF-C13-py-payload-modifier): `packet P { _size_(_payload_): 8, _payload_: [+3], t: 8 }` — a size
    below the modifier slices from the end: `02 aa bb` is accepted, the reference rejects it -/
theorem payload_modifier_unguarded :
    let items : Items := .cons (.chunk [.size "_payload_" 8 3]) (.cons (.payload (.sized 3)) (.cons (.chunk [.scalar "t" 8]) .nil))
    (Py.decodeFull { e := .little } (.root "P" items) [2, 0xaa, 0xbb]).isOk = true ∧
    (Pdlv.decodeFull { e := .little, mode := .ideal } (.root "P" items) [2, 0xaa, 0xbb]).isOk = false ∧
    wfBody (.root "P" items) = false := by
  refine ⟨by rfl, by rfl, by rfl⟩

/-- (repaired by a `fix:` commit, mirrored in the model) `packet P { k: 8, _payload_, tag: 8[2], _padding_[4] }`: the octets
    kept after an unsized payload now include the padding, so the reference encoding `01 aa 07 08 00 00` is accepted -/
theorem payload_tail_counts_padding :
    let items : Items := .cons (.chunk [.scalar "k" 8]) (.cons (.payload (.beforeStatic 4))
      (.cons (.array "tag" (.scalar 8) (.static 1) (.static 2) (some 4)) .nil))
    (Py.decodeFull { e := .little } (.root "P" items) [1, 0xaa, 7, 8, 0, 0]).isOk = true ∧
    wfBody (.root "P" items) = true := by
  refine ⟨by rfl, by rfl⟩

/-- non-vacuity: `packet P { _count_(x): 8, x: 16[], s: S, _payload_ }` with `struct S { a: 8, b: 8 }` is in the class -/
example : wfBody (.root "P" (.cons (.chunk [.count "x" 8]) (.cons (.array "x" (.scalar 16) (.static 2) .countField none)
    (.cons (.typedef "s" (.struct "S" (.root "S" (.cons (.chunk [.scalar "a" 8, .scalar "b" 8]) .nil))) (some 2))
    (.cons (.payload .last) .nil))))) = true := by decide

end Py
end Pdlv
