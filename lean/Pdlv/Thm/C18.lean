/-
  C18 — pdl-runtime `Packet` trait: the derived methods obey their laws, for EVERY implementor.
-/
import Pdlv.Runtime

namespace Pdlv
namespace Runtime

variable {α : Type}

/-- `decode_full(b)` equals `decode(b)` when the remainder is empty … -/
theorem decode_full_ok (P : Impl α) (b : Bytes) (v : α) (h : P.decode b = .ok (v, [])) :
    decodeFull P b = .ok v := by
  simp [decodeFull, h]

/-- … and is `TrailingBytesError` otherwise. -/
theorem decode_full_trailing (P : Impl α) (b : Bytes) (v : α) (r : Bytes) (hr : r ≠ [])
    (h : P.decode b = .ok (v, r)) : decodeFull P b = .err .trailingBytes := by
  cases r with
  | nil => exact absurd rfl hr
  | cons x xs => simp [decodeFull, h]

/-- errors of `decode` pass through `decode_full` unchanged -/
theorem decode_full_err (P : Impl α) (b : Bytes) (e : DecErr) (h : P.decode b = .err e) :
    decodeFull P b = .err e := by
  simp [decodeFull, h]

/-- complete characterisation of `decode_full` in terms of `decode` -/
theorem decode_full_spec (P : Impl α) (b : Bytes) :
    decodeFull P b = (match P.decode b with
      | .ok (v, []) => .ok v
      | .ok (_, _ :: _) => .err .trailingBytes
      | .err e => .err e
      | .panic h => .panic h) := by
  unfold decodeFull
  cases P.decode b with
  | ok p => obtain ⟨v, r⟩ := p; cases r <;> simp
  | err e => rfl
  | panic h => rfl

/-- `decode_mut` advances the slice to exactly `decode`'s remainder and returns its value -/
theorem decode_mut_advances (P : Impl α) (b : Bytes) (v : α) (r : Bytes)
    (h : P.decode b = .ok (v, r)) : decodeMut P b = (.ok v, r) := by
  simp [decodeMut, h]

/-- `decode_mut` leaves the slice unchanged on error -/
theorem decode_mut_untouched (P : Impl α) (b : Bytes) (e : DecErr) (h : P.decode b = .err e) :
    decodeMut P b = (.err e, b) := by
  simp [decodeMut, h]

/-- the slice after `decode_mut` is always either the input or `decode`'s remainder -/
theorem decode_mut_slice (P : Impl α) (b : Bytes) :
    (decodeMut P b).2 = b ∨ ∃ v, P.decode b = .ok (v, (decodeMut P b).2) := by
  unfold decodeMut
  cases h : P.decode b with
  | ok p => obtain ⟨v, r⟩ := p; right; exact ⟨v, rfl⟩
  | err e => left; rfl
  | panic h => left; rfl

/-- `encode_to_vec` and `encode_to_bytes` produce the same bytes -/
theorem encode_to_vec_eq_bytes (P : Impl α) (v : α) : encodeToVec P v = encodeToBytes P v := rfl

/-- encoding appends to a non-empty buffer without disturbing its content, and what it appends
    is what `encode_to_vec` returns -/
theorem encode_appends (P : Impl α) (v : α) (buf out : Bytes) (h : encodeInto P v buf = .ok out) :
    ∃ bs, encodeToVec P v = .ok bs ∧ out = buf ++ bs := by
  unfold encodeInto at h
  cases he : P.encode v with
  | ok bs =>
    simp only [he, Outcome.ok.injEq] at h
    exact ⟨bs, by simp [encodeToVec, encodeInto, he], h.symm⟩
  | err e => simp [he] at h
  | panic p => simp [he] at h

/-- errors are the same whatever buffer is supplied -/
theorem encode_err_indep (P : Impl α) (v : α) (buf : Bytes) (e : EncErr)
    (h : encodeToVec P v = .err e) : encodeInto P v buf = .err e := by
  unfold encodeToVec encodeInto at *
  cases he : P.encode v with
  | ok bs => simp [he] at h
  | err e' => simp only [he] at h ⊢; exact h
  | panic p => simp [he] at h

/-- non-vacuity: the laws instantiated at a generated packet -/
example : decodeFull (ofBody { e := .little } (.root "P" (.cons (.chunk [.scalar "a" 8]) .nil))) [7, 9]
    = .err .trailingBytes := by rfl

end Runtime
end Pdlv
