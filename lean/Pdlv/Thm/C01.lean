/-
  C01 — generated Rust parsers are total and memory-safe on arbitrary bytes.

  Statements about the decoder model `Pdlv.decBody` (Pdlv/Wire.lean), which is compared with
  the emitted decoders on every run (`bin/check C01`).
-/
import Pdlv.Wire

namespace Pdlv

/-- `r` is what remains of `bs` after consuming a prefix -/
def IsSuffix (r bs : Bytes) : Prop := ∃ c, bs = c ++ r

theorem IsSuffix.refl (bs : Bytes) : IsSuffix bs bs := ⟨[], rfl⟩

theorem IsSuffix.drop (bs : Bytes) (k : Nat) : IsSuffix (bs.drop k) bs :=
  ⟨bs.take k, (List.take_append_drop k bs).symm⟩

theorem IsSuffix.nil (bs : Bytes) : IsSuffix [] bs := ⟨bs, by simp⟩

theorem IsSuffix.trans {a b c : Bytes} (h1 : IsSuffix a b) (h2 : IsSuffix b c) : IsSuffix a c := by
  obtain ⟨x, rfl⟩ := h1
  obtain ⟨y, rfl⟩ := h2
  exact ⟨y ++ x, by simp⟩

theorem IsSuffix.length_le {a b : Bytes} (h : IsSuffix a b) : a.length ≤ b.length := by
  obtain ⟨x, rfl⟩ := h; simp

/-- A decoder step that only ever returns a suffix of its input. -/
def SuffixSafe (f : Bytes → Dec (Value × Bytes)) : Prop :=
  ∀ bs v r, f bs = .ok (v, r) → IsSuffix r bs

/-! ### Primitive reads -/

theorem getUint_suffix (e : Endian) (w : Nat) (bs : Bytes) (v : Nat) (r : Bytes)
    (h : getUint e w bs = .ok (v, r)) : IsSuffix r bs := by
  unfold getUint at h
  simp only at h
  split at h
  · cases h
  · simp only [Outcome.ok.injEq, Prod.mk.injEq] at h
    rw [← h.2]; exact IsSuffix.drop _ _

/-- a guarded read never panics -/
theorem getUint_no_panic (e : Endian) (w : Nat) (bs : Bytes) (h : w / 8 ≤ bs.length) :
    (getUint e w bs).isPanic = false := by
  unfold getUint
  simp only
  split
  · omega
  · rfl

/-! ### Bit-field chunks are total: `check_size` dominates the single read -/

theorem decChunkFields_no_panic (ideal : Bool) (fs : List BitField) (shift chunk : Nat) (st : DState) :
    (decChunkFields ideal fs shift chunk st).isPanic = false := by
  induction fs generalizing shift st with
  | nil => rfl
  | cons f fs ih =>
    unfold decChunkFields
    cases f <;> simp only <;> (try split) <;> (try split) <;> first
      | exact ih _ _
      | rfl

theorem decChunk_no_panic (e : Endian) (ideal : Bool) (fs : List BitField) (bs : Bytes) (st : DState) :
    (decChunk e ideal fs bs st).isPanic = false := by
  unfold decChunk
  simp only
  split
  · rfl
  · have := decChunkFields_no_panic ideal fs 0
      (match e with | .little => fromLE (bs.take (chunkBits fs / 8)) | .big => fromBE (bs.take (chunkBits fs / 8))) st
    revert this
    cases decChunkFields ideal fs 0 _ st <;> simp [Outcome.bind, Outcome.isPanic]

theorem decChunk_suffix (e : Endian) (ideal : Bool) (fs : List BitField) (bs : Bytes) (st st' : DState)
    (r : Bytes) (h : decChunk e ideal fs bs st = .ok (st', r)) : IsSuffix r bs := by
  unfold decChunk at h
  simp only at h
  split at h
  · cases h
  · revert h
    cases decChunkFields ideal fs 0 _ st <;> simp [Outcome.bind]
    intro _ h; rw [← h]; exact IsSuffix.drop _ _

/-! ### Loops -/

theorem decRepeat_suffix (f : Bytes → Dec (Value × Bytes)) (hf : SuffixSafe f) :
    ∀ n bs vs r, decRepeat f n bs = .ok (vs, r) → IsSuffix r bs := by
  intro n
  induction n with
  | zero => intro bs vs r h; simp [decRepeat] at h; rw [← h.2]; exact IsSuffix.refl _
  | succ n ih =>
    intro bs vs r h
    simp only [decRepeat, Outcome.bind] at h
    cases hfb : f bs with
    | ok p =>
      obtain ⟨v, bs'⟩ := p
      simp only [hfb] at h
      cases hr : decRepeat f n bs' with
      | ok q =>
        obtain ⟨vs', r'⟩ := q
        simp only [hr, Outcome.ok.injEq, Prod.mk.injEq] at h
        rw [← h.2]
        exact (ih bs' vs' r' hr).trans (hf bs v bs' hfb)
      | err e => simp [hr] at h
      | panic p => simp [hr] at h
    | err e => simp [hfb] at h
    | panic p => simp [hfb] at h

/-- `decRepeat` panics only if the element decoder does. -/
theorem decRepeat_no_panic (f : Bytes → Dec (Value × Bytes)) (hf : ∀ bs, (f bs).isPanic = false) :
    ∀ n bs, (decRepeat f n bs).isPanic = false := by
  intro n
  induction n with
  | zero => intro bs; rfl
  | succ n ih =>
    intro bs
    simp only [decRepeat, Outcome.bind]
    have h1 := hf bs
    cases hfb : f bs with
    | ok p =>
      obtain ⟨v, bs'⟩ := p
      simp only
      have h2 := ih bs'
      cases hr : decRepeat f n bs' with
      | ok q => rfl
      | err e => rfl
      | panic p => simp [hr, Outcome.isPanic] at h2
    | err e => rfl
    | panic p => simp [hfb, Outcome.isPanic] at h1

/-- **The `while !span.is_empty()` loops terminate**: with fuel `length + 1` the model never
    reports `nonTermination` for an element decoder that never panics itself and consumes at
    least one octet whenever it succeeds on a non-empty span. -/
theorem decWhile_terminates (f : Bytes → Dec (Value × Bytes))
    (hnp : ∀ bs, (f bs).isPanic = false)
    (hprog : ∀ bs v r, bs ≠ [] → f bs = .ok (v, r) → r.length < bs.length) :
    ∀ fuel bs, bs.length < fuel → (decWhile f fuel bs).isPanic = false := by
  intro fuel
  induction fuel with
  | zero => intro bs h; omega
  | succ fuel ih =>
    intro bs h
    simp only [decWhile]
    split
    · rfl
    · rename_i hne
      have hne' : bs ≠ [] := by intro h0; simp [h0] at hne
      have h1 := hnp bs
      simp only [Outcome.bind]
      cases hfb : f bs with
      | ok p =>
        obtain ⟨v, bs'⟩ := p
        have hlt := hprog bs v bs' hne' hfb
        simp only [hlt, ↓reduceIte]
        have h2 := ih bs' (by omega)
        cases hr : decWhile f fuel bs' with
        | ok q => rfl
        | err e => rfl
        | panic p => simp [hr, Outcome.isPanic] at h2
      | err e => rfl
      | panic p => simp [hfb, Outcome.isPanic] at h1

/-! ### Hazards present in the pinned tree: negation witnesses
    (the full statement "decode never panics" is FALSE of the emitted code; each witness is
    replayed on the real generated code by `bin/check C01`) -/

/-- `packet P { c: Cf }` with `custom_field Cf : 16`: the typedef read has no length guard. -/
def wCustom : Body := .root "P" (.cons (.typedef "c" (.custom "Cf" 16) (some 2)) .nil)

theorem hazard_customRead :
    decBody { e := .little, mode := .rust } wCustom [0x01] = .panic .customRead := by rfl

theorem ideal_customRead :
    decBody { e := .little, mode := .ideal } wCustom [0x01] = .err .length := by rfl

/-- `packet P { _count_(x): 8, x: 16[] }` is fine; with a 64-bit count the product overflows. -/
def wCount : Body :=
  .root "P" (.cons (.chunk [.count "x" 64]) (.cons (.array "x" (.scalar 16) (.static 2) .countField none) .nil))

theorem hazard_mulOverflow :
    decBody { e := .little, mode := .rust } wCount [0xff, 0xff, 0xff, 0xff, 0xff, 0xff, 0xff, 0xff]
      = .panic .mulOverflow := by rfl

theorem ideal_mulOverflow :
    decBody { e := .little, mode := .ideal } wCount [0xff, 0xff, 0xff, 0xff, 0xff, 0xff, 0xff, 0xff]
      = .err .length := by rfl

/-- non-vacuity: a total decoder step satisfies the loop hypotheses -/
example : SuffixSafe (decTy { e := .little } (.scalar 8)) := by
  intro bs v r h
  simp only [decTy, Outcome.bind] at h
  cases hg : getUint .little 8 bs with
  | ok p =>
    obtain ⟨x, r'⟩ := p
    simp only [hg, Outcome.ok.injEq, Prod.mk.injEq] at h
    rw [← h.2]; exact getUint_suffix _ _ _ _ _ hg
  | err e => simp [hg] at h
  | panic p => simp [hg] at h

end Pdlv
