/-
  C01 — generated Rust parsers are total and memory-safe on arbitrary bytes.

  Statements about the decoder model `Pdlv.decBody` (Pdlv/Wire.lean), which is compared with
  the emitted decoders on every run (`bin/check C01`).
-/
import Pdlv.Wire
import Pdlv.Static

namespace Pdlv

/-- `r` is what remains of `bs` after consuming a prefix -/
def IsSuffix (r bs : Bytes) : Prop := ∃ c, bs = c ++ r

theorem IsSuffix.refl (bs : Bytes) : IsSuffix bs bs := ⟨[], rfl⟩

theorem IsSuffix.drop (bs : Bytes) (k : Nat) : IsSuffix (bs.drop k) bs :=
  ⟨bs.take k, (List.take_append_drop k bs).symm⟩

theorem IsSuffix.nil (bs : Bytes) : IsSuffix [] bs := ⟨bs, by simp⟩

theorem IsSuffix.trans {a b c : Bytes} (h1 : IsSuffix a b) (h2 : IsSuffix b c) : IsSuffix a c := by
  obtain ⟨x, rfl⟩ := h1
  obtain ⟨y, rfl⟩ := h2
  exact ⟨y ++ x, by simp⟩

theorem IsSuffix.length_le {a b : Bytes} (h : IsSuffix a b) : a.length ≤ b.length := by
  obtain ⟨x, rfl⟩ := h; simp

/-- A decoder step that only ever returns a suffix of its input. -/
def SuffixSafe (f : Bytes → Dec (Value × Bytes)) : Prop :=
  ∀ bs v r, f bs = .ok (v, r) → IsSuffix r bs

/-! ### Primitive reads -/

theorem getUint_suffix (e : Endian) (w : Nat) (bs : Bytes) (v : Nat) (r : Bytes)
    (h : getUint e w bs = .ok (v, r)) : IsSuffix r bs := by
  unfold getUint at h
  simp only at h
  split at h
  · cases h
  · simp only [Outcome.ok.injEq, Prod.mk.injEq] at h
    rw [← h.2]; exact IsSuffix.drop _ _

/-- a guarded read never panics -/
theorem getUint_no_panic (e : Endian) (w : Nat) (bs : Bytes) (h : w / 8 ≤ bs.length) :
    (getUint e w bs).isPanic = false := by
  unfold getUint
  simp only
  split
  · omega
  · rfl

/-! ### Bit-field chunks are total: `check_size` dominates the single read -/

theorem decChunkFields_no_panic (ideal : Bool) (fs : List BitField) (shift chunk : Nat) (st : DState) :
    (decChunkFields ideal fs shift chunk st).isPanic = false := by
  induction fs generalizing shift st with
  | nil => rfl
  | cons f fs ih =>
    unfold decChunkFields
    cases f <;> simp only <;> (try split) <;> (try split) <;> first
      | exact ih _ _
      | rfl

theorem decChunk_no_panic (e : Endian) (ideal : Bool) (fs : List BitField) (bs : Bytes) (st : DState) :
    (decChunk e ideal fs bs st).isPanic = false := by
  unfold decChunk
  simp only
  split
  · rfl
  · have := decChunkFields_no_panic ideal fs 0
      (match e with | .little => fromLE (bs.take (chunkBits fs / 8)) | .big => fromBE (bs.take (chunkBits fs / 8))) st
    revert this
    cases decChunkFields ideal fs 0 _ st <;> simp [Outcome.bind, Outcome.isPanic]

theorem decChunk_suffix (e : Endian) (ideal : Bool) (fs : List BitField) (bs : Bytes) (st st' : DState)
    (r : Bytes) (h : decChunk e ideal fs bs st = .ok (st', r)) : IsSuffix r bs := by
  unfold decChunk at h
  simp only at h
  split at h
  · cases h
  · revert h
    cases decChunkFields ideal fs 0 _ st <;> simp [Outcome.bind]
    intro _ h; rw [← h]; exact IsSuffix.drop _ _

/-! ### Loops -/

theorem decRepeat_suffix (f : Bytes → Dec (Value × Bytes)) (hf : SuffixSafe f) :
    ∀ n bs vs r, decRepeat f n bs = .ok (vs, r) → IsSuffix r bs := by
  intro n
  induction n with
  | zero => intro bs vs r h; simp [decRepeat] at h; rw [← h.2]; exact IsSuffix.refl _
  | succ n ih =>
    intro bs vs r h
    simp only [decRepeat, Outcome.bind] at h
    cases hfb : f bs with
    | ok p =>
      obtain ⟨v, bs'⟩ := p
      simp only [hfb] at h
      cases hr : decRepeat f n bs' with
      | ok q =>
        obtain ⟨vs', r'⟩ := q
        simp only [hr, Outcome.ok.injEq, Prod.mk.injEq] at h
        rw [← h.2]
        exact (ih bs' vs' r' hr).trans (hf bs v bs' hfb)
      | err e => simp [hr] at h
      | panic p => simp [hr] at h
    | err e => simp [hfb] at h
    | panic p => simp [hfb] at h

/-- `decRepeat` panics only if the element decoder does. -/
theorem decRepeat_no_panic (f : Bytes → Dec (Value × Bytes)) (hf : ∀ bs, (f bs).isPanic = false) :
    ∀ n bs, (decRepeat f n bs).isPanic = false := by
  intro n
  induction n with
  | zero => intro bs; rfl
  | succ n ih =>
    intro bs
    simp only [decRepeat, Outcome.bind]
    have h1 := hf bs
    cases hfb : f bs with
    | ok p =>
      obtain ⟨v, bs'⟩ := p
      simp only
      have h2 := ih bs'
      cases hr : decRepeat f n bs' with
      | ok q => rfl
      | err e => rfl
      | panic p => simp [hr, Outcome.isPanic] at h2
    | err e => rfl
    | panic p => simp [hfb, Outcome.isPanic] at h1

/-- **The `while !span.is_empty()` loops terminate**: with fuel `length + 1` the model never
    reports `nonTermination` for an element decoder that never panics itself and consumes at
    least one octet whenever it succeeds on a non-empty span. -/
theorem decWhile_terminates (f : Bytes → Dec (Value × Bytes))
    (hnp : ∀ bs, (f bs).isPanic = false)
    (hprog : ∀ bs v r, bs ≠ [] → f bs = .ok (v, r) → r.length < bs.length) :
    ∀ fuel bs, bs.length < fuel → (decWhile f fuel bs).isPanic = false := by
  intro fuel
  induction fuel with
  | zero => intro bs h; omega
  | succ fuel ih =>
    intro bs h
    simp only [decWhile]
    split
    · rfl
    · rename_i hne
      have hne' : bs ≠ [] := by intro h0; simp [h0] at hne
      have h1 := hnp bs
      simp only [Outcome.bind]
      cases hfb : f bs with
      | ok p =>
        obtain ⟨v, bs'⟩ := p
        have hlt := hprog bs v bs' hne' hfb
        simp only [hlt, ↓reduceIte]
        have h2 := ih bs' (by omega)
        cases hr : decWhile f fuel bs' with
        | ok q => rfl
        | err e => rfl
        | panic p => simp [hr, Outcome.isPanic] at h2
      | err e => rfl
      | panic p => simp [hfb, Outcome.isPanic] at h1

/-! ### Hazards present in the pinned tree: negation witnesses
    (the full statement "decode never panics" is FALSE of the emitted code; each witness is
    replayed on the real generated code by `bin/check C01`) -/

/-- `packet P { c: Cf }` with `custom_field Cf : 16`: the typedef read has no length guard. -/
def wCustom : Body := .root "P" (.cons (.typedef "c" (.custom "Cf" 16) (some 2)) .nil)

theorem hazard_customRead :
    decBody { e := .little, mode := .rust } wCustom [0x01] = .panic .customRead := by rfl

theorem ideal_customRead :
    decBody { e := .little, mode := .ideal } wCustom [0x01] = .err .length := by rfl

/-- `packet P { _count_(x): 8, x: 16[] }` is fine; with a 64-bit count the product overflows. -/
def wCount : Body :=
  .root "P" (.cons (.chunk [.count "x" 64]) (.cons (.array "x" (.scalar 16) (.static 2) .countField none) .nil))

theorem hazard_mulOverflow :
    decBody { e := .little, mode := .rust } wCount [0xff, 0xff, 0xff, 0xff, 0xff, 0xff, 0xff, 0xff]
      = .panic .mulOverflow := by rfl

theorem ideal_mulOverflow :
    decBody { e := .little, mode := .ideal } wCount [0xff, 0xff, 0xff, 0xff, 0xff, 0xff, 0xff, 0xff]
      = .err .length := by rfl

/-- non-vacuity: a total decoder step satisfies the loop hypotheses -/
example : SuffixSafe (decTy { e := .little } (.scalar 8)) := by
  intro bs v r h
  simp only [decTy, Outcome.bind] at h
  cases hg : getUint .little 8 bs with
  | ok p =>
    obtain ⟨x, r'⟩ := p
    simp only [hg, Outcome.ok.injEq, Prod.mk.injEq] at h
    rw [← h.2]; exact getUint_suffix _ _ _ _ _ hg
  | err e => simp [hg] at h
  | panic p => simp [hg] at h

end Pdlv

namespace Pdlv

/-- a decoder step that, when it succeeds, leaves at most `length - m` octets -/
def Consumes (f : Bytes → Dec (Value × Bytes)) (m : Nat) : Prop :=
  ∀ bs v r, f bs = .ok (v, r) → r.length + m ≤ bs.length

theorem getUint_consumes (e : Endian) (w : Nat) (bs : Bytes) (v : Nat) (r : Bytes)
    (h : getUint e w bs = .ok (v, r)) : r.length + w / 8 = bs.length := by
  unfold getUint at h
  simp only at h
  split at h
  · cases h
  · simp only [Outcome.ok.injEq, Prod.mk.injEq] at h
    rw [← h.2, List.length_drop]; omega

theorem decRepeat_le (f : Bytes → Dec (Value × Bytes)) (hf : Consumes f 0) :
    ∀ n bs vs r, decRepeat f n bs = .ok (vs, r) → r.length ≤ bs.length := by
  intro n
  induction n with
  | zero => intro bs vs r h; simp [decRepeat] at h; rw [← h.2]; exact Nat.le_refl _
  | succ n ih =>
    intro bs vs r h
    simp only [decRepeat, Outcome.bind] at h
    cases hfb : f bs with
    | ok p =>
      obtain ⟨v, bs'⟩ := p
      simp only [hfb] at h
      cases hr : decRepeat f n bs' with
      | ok q =>
        obtain ⟨vs', r'⟩ := q
        simp only [hr, Outcome.ok.injEq, Prod.mk.injEq] at h
        have h1 := ih bs' vs' r' hr
        have h2 := hf bs v bs' hfb
        rw [← h.2]; omega
      | err e => simp [hr] at h
      | panic p => simp [hr] at h
    | err e => simp [hfb] at h
    | panic p => simp [hfb] at h

theorem zeroElem_le (m : Mode) (el : Bytes → Dec (Value × Bytes)) (n : Nat) (hz : Hazard) (sp : Bytes)
    (vs : List Value) (r : Bytes) (h : zeroElem m el n hz sp = .ok (vs, r)) : r.length ≤ sp.length := by
  unfold zeroElem at h
  cases m with
  | rust => cases h
  | ideal =>
    simp only at h
    obtain ⟨a, _, ha⟩ := bind_ok _ _ _ h
    simp only [Outcome.ok.injEq, Prod.mk.injEq] at ha
    rw [← ha.2]; exact Nat.le_refl _

theorem decArray_le (m : Mode) (el : Bytes → Dec (Value × Bytes)) (hel : Consumes el 0)
    (ew : ElemWidth) (shape : Shape) (cnt siz esz : Option Nat) (sp : Bytes) (vs : List Value) (r : Bytes)
    (h : decArray m el ew shape cnt siz esz sp = .ok (vs, r)) : r.length ≤ sp.length := by
  have hrep := decRepeat_le el hel
  unfold decArray at h
  cases ew <;> cases shape <;> simp only at h
  -- static w
  · -- static, static n
    split at h
    · cases h
    · obtain ⟨⟨ws, r'⟩, h1, h2⟩ := bind_ok _ _ _ h
      obtain ⟨ws', _, h4⟩ := bind_ok _ _ _ h2
      simp only [Outcome.ok.injEq, Prod.mk.injEq] at h4
      rw [← h4.2]; exact hrep _ _ _ _ h1
  · -- static, countField
    cases cnt with
    | none => cases h
    | some n =>
      simp only at h
      obtain ⟨tot, _, h2⟩ := bind_ok _ _ _ h
      split at h2
      · cases h2
      · exact hrep _ _ _ _ h2
  · -- static, sizeField
    cases siz with
    | none => cases h
    | some sz =>
      simp only at h
      split at h
      · cases h
      · split at h
        · cases h
        · split at h
          · cases h
          · exact hrep _ _ _ _ h
  · -- static, unknown
    split at h
    · cases h
    · split at h
      · cases h
      · exact hrep _ _ _ _ h
  -- dynamic
  · cases esz with
    | none => cases h
    | some es =>
      simp only at h
      obtain ⟨tot, _, h2⟩ := bind_ok _ _ _ h
      split at h2
      · cases h2
      · split at h2
        · exact zeroElem_le _ _ _ _ _ _ _ h2
        · obtain ⟨ws, _, h3⟩ := bind_ok _ _ _ h2
          obtain ⟨ws', _, h4⟩ := bind_ok _ _ _ h3
          simp only [Outcome.ok.injEq, Prod.mk.injEq] at h4
          rw [← h4.2, List.length_drop]; omega
  · cases esz with
    | none => cases h
    | some es =>
      cases cnt with
      | none => cases h
      | some n =>
        simp only at h
        obtain ⟨tot, _, h2⟩ := bind_ok _ _ _ h
        split at h2
        · cases h2
        · split at h2
          · exact zeroElem_le _ _ _ _ _ _ _ h2
          · obtain ⟨ws, _, h3⟩ := bind_ok _ _ _ h2
            simp only [Outcome.ok.injEq, Prod.mk.injEq] at h3
            rw [← h3.2, List.length_drop]; omega
  · cases esz with
    | none => cases h
    | some es =>
      cases siz with
      | none => cases h
      | some sz =>
        simp only at h
        split at h
        · cases h
        · split at h
          · split at h
            · split at h
              · simp only [Outcome.ok.injEq, Prod.mk.injEq] at h; rw [← h.2]; exact Nat.le_refl _
              · cases h
            · cases h
          · split at h
            · cases h
            · obtain ⟨ws, _, h3⟩ := bind_ok _ _ _ h
              simp only [Outcome.ok.injEq, Prod.mk.injEq] at h3
              rw [← h3.2, List.length_drop]; omega
  · cases esz with
    | none => cases h
    | some es =>
      simp only at h
      split at h
      · split at h
        · split at h
          · simp only [Outcome.ok.injEq, Prod.mk.injEq] at h; rw [← h.2]; exact Nat.le_refl _
          · cases h
        · cases h
      · split at h
        · cases h
        · obtain ⟨ws, _, h3⟩ := bind_ok _ _ _ h
          simp only [Outcome.ok.injEq, Prod.mk.injEq] at h3
          rw [← h3.2]; simp
  -- unknown
  · obtain ⟨⟨ws, r'⟩, h1, h2⟩ := bind_ok _ _ _ h
    obtain ⟨ws', _, h4⟩ := bind_ok _ _ _ h2
    simp only [Outcome.ok.injEq, Prod.mk.injEq] at h4
    rw [← h4.2]; exact hrep _ _ _ _ h1
  · cases cnt with
    | none => cases h
    | some n => exact hrep _ _ _ _ h
  · cases siz with
    | none => cases h
    | some sz =>
      simp only at h
      split at h
      · cases h
      · obtain ⟨ws, _, h3⟩ := bind_ok _ _ _ h
        simp only [Outcome.ok.injEq, Prod.mk.injEq] at h3
        rw [← h3.2, List.length_drop]; omega
  · obtain ⟨ws, _, h3⟩ := bind_ok _ _ _ h
    simp only [Outcome.ok.injEq, Prod.mk.injEq] at h3
    rw [← h3.2]; simp

theorem withPad_consumes (pad : Option Nat) (bs : Bytes) (k : Bytes → Dec (List Value × Bytes))
    (hk : ∀ sp vs r, k sp = .ok (vs, r) → r.length ≤ sp.length) (vs : List Value) (r : Bytes)
    (h : withPad pad bs k = .ok (vs, r)) : r.length + pad.getD 0 ≤ bs.length := by
  unfold withPad at h
  cases pad with
  | none => simpa using hk bs vs r h
  | some p =>
    simp only at h
    split at h
    · cases h
    · obtain ⟨⟨ws, r'⟩, _, h2⟩ := bind_ok _ _ _ h
      simp only [Outcome.ok.injEq, Prod.mk.injEq] at h2
      rw [← h2.2, List.length_drop]; simp; omega

theorem decChunk_consumes (e : Endian) (ideal : Bool) (fs : List BitField) (bs : Bytes) (st st' : DState)
    (r : Bytes) (h : decChunk e ideal fs bs st = .ok (st', r)) : r.length + chunkBits fs / 8 = bs.length := by
  unfold decChunk at h
  simp only at h
  split at h
  · cases h
  · obtain ⟨a, _, h2⟩ := bind_ok _ _ _ h
    simp only [Outcome.ok.injEq, Prod.mk.injEq] at h2
    rw [← h2.2, List.length_drop]; omega

mutual
theorem decTy_consumes (c : Cfg) : ∀ (ty : Ty) (bs : Bytes) (v : Value) (r : Bytes),
    decTy c ty bs = .ok (v, r) → r.length + minTy ty ≤ bs.length
  | .scalar w, bs, v, r, h => by
    simp only [decTy] at h
    obtain ⟨⟨x, r'⟩, h1, h2⟩ := bind_ok _ _ _ h
    simp only [Outcome.ok.injEq, Prod.mk.injEq] at h2
    have := getUint_consumes _ _ _ _ _ h1
    rw [← h2.2]; simp only [minTy]; omega
  | .enumTy _ en, bs, v, r, h => by
    simp only [decTy] at h
    obtain ⟨⟨x, r'⟩, h1, h2⟩ := bind_ok _ _ _ h
    have := getUint_consumes _ _ _ _ _ h1
    simp only at h2
    split at h2
    · simp only [Outcome.ok.injEq, Prod.mk.injEq] at h2
      rw [← h2.2]; simp only [minTy]; omega
    · cases h2
  | .custom _ w, bs, v, r, h => by
    simp only [decTy] at h
    split at h
    · cases h
    · obtain ⟨⟨x, r'⟩, h1, h2⟩ := bind_ok _ _ _ h
      simp only [Outcome.ok.injEq, Prod.mk.injEq] at h2
      have := getUint_consumes _ _ _ _ _ h1
      rw [← h2.2]; simp only [minTy]; omega
  | .struct _ b, bs, v, r, h => by
    simp only [decTy] at h
    simp only [minTy]
    exact decBody_consumes c b bs v r h

theorem decItem_consumes (c : Cfg) : ∀ (i : Item) (bs : Bytes) (st st' : DState) (r : Bytes),
    decItem c i bs st = .ok (st', r) → r.length + minItem i ≤ bs.length
  | .chunk fs, bs, st, st', r, h => by
    simp only [decItem] at h
    have := decChunk_consumes _ _ _ _ _ _ _ h
    simp only [minItem]; omega
  | .typedef id ty sb, bs, st, st', r, h => by
    simp only [minItem]
    cases ty with
    | custom nm w =>
      simp only [decItem] at h
      split at h
      · split at h <;> cases h
      · obtain ⟨⟨x, r'⟩, h1, h2⟩ := bind_ok _ _ _ h
        simp only [Outcome.ok.injEq, Prod.mk.injEq] at h2
        have := getUint_consumes _ _ _ _ _ h1
        rw [← h2.2]; simp only [minTy]; omega
    | scalar w =>
      simp only [decItem] at h
      obtain ⟨⟨x, r'⟩, h1, h2⟩ := bind_ok _ _ _ h
      simp only [Outcome.ok.injEq, Prod.mk.injEq] at h2
      rw [← h2.2]; exact decTy_consumes c (.scalar w) bs x r' h1
    | enumTy nm en =>
      simp only [decItem] at h
      obtain ⟨⟨x, r'⟩, h1, h2⟩ := bind_ok _ _ _ h
      simp only [Outcome.ok.injEq, Prod.mk.injEq] at h2
      rw [← h2.2]; exact decTy_consumes c (.enumTy nm en) bs x r' h1
    | struct nm b =>
      simp only [decItem] at h
      obtain ⟨⟨x, r'⟩, h1, h2⟩ := bind_ok _ _ _ h
      simp only [Outcome.ok.injEq, Prod.mk.injEq] at h2
      rw [← h2.2]; exact decTy_consumes c (.struct nm b) bs x r' h1
  | .optional id ty cid cval, bs, st, st', r, h => by
    simp only [minItem, Nat.add_zero]
    simp only [decItem] at h
    cases hctx : st.ctx.get (.val cid) with
    | none => simp [hctx] at h
    | some cv =>
      simp only [hctx] at h
      by_cases hcv : cv = cval
      · simp only [hcv, ↓reduceIte] at h
        have key : ∀ x r', decTy c ty bs = .ok (x, r') → r'.length ≤ bs.length := fun x r' hx => by
          have := decTy_consumes c ty bs x r' hx; omega
        have fin : (Outcome.bind (decTy c ty bs) fun x =>
            Outcome.ok ({ ctx := st.ctx, fields := st.fields ++ [(id, x.fst)], payload := st.payload }, x.snd))
              = .ok (st', r) → r.length ≤ bs.length := by
          intro hb
          obtain ⟨⟨x, r'⟩, h1, h2⟩ := bind_ok _ _ _ hb
          simp only [Outcome.ok.injEq, Prod.mk.injEq] at h2
          rw [← h2.2]; exact key x r' h1
        cases ty with
        | scalar w =>
          simp only at h
          split at h
          · cases h
          · exact fin h
        | enumTy nm en =>
          simp only at h
          split at h
          · cases h
          · exact fin h
        | custom nm w =>
          simp only [Bool.false_eq_true, ↓reduceIte] at h
          exact fin h
        | struct nm b =>
          simp only [Bool.false_eq_true, ↓reduceIte] at h
          exact fin h
      · simp only [hcv, ↓reduceIte, Outcome.ok.injEq, Prod.mk.injEq] at h
        rw [← h.2]; exact Nat.le_refl _
  | .payload mode, bs, st, st', r, h => by
    simp only [minItem, Nat.add_zero]
    simp only [decItem] at h
    cases mode with
    | sized m =>
      simp only at h
      split at h
      · cases h
      · split at h
        · cases h
        · split at h
          · cases h
          · simp only [Outcome.ok.injEq, Prod.mk.injEq] at h
            rw [← h.2, List.length_drop]; omega
    | last =>
      simp only [Outcome.ok.injEq, Prod.mk.injEq] at h
      rw [← h.2]; simp
    | beforeStatic k =>
      simp only at h
      split at h
      · cases h
      · simp only [Outcome.ok.injEq, Prod.mk.injEq] at h
        rw [← h.2, List.length_drop]; omega
    | undelimited => cases h
  | .array id elem ew shape pad, bs, st, st', r, h => by
    simp only [minItem]
    simp only [decItem] at h
    split at h
    · cases h
    · obtain ⟨⟨vs, r'⟩, h1, h2⟩ := bind_ok _ _ _ h
      simp only [Outcome.ok.injEq, Prod.mk.injEq] at h2
      rw [← h2.2]
      refine withPad_consumes pad bs _ ?_ vs r' h1
      intro sp ws q hq
      refine decArray_le c.mode (decTy c elem) ?_ ew shape _ _ _ sp ws q hq
      intro b v q' hb
      have := decTy_consumes c elem b v q' hb
      omega

theorem decItems_consumes (c : Cfg) : ∀ (is : Items) (bs : Bytes) (st st' : DState) (r : Bytes),
    decItems c is bs st = .ok (st', r) → r.length + minItems is ≤ bs.length
  | .nil, bs, st, st', r, h => by
    simp only [decItems, Outcome.ok.injEq, Prod.mk.injEq] at h
    rw [← h.2]; simp [minItems]
  | .cons i is, bs, st, st', r, h => by
    simp only [decItems] at h
    obtain ⟨⟨st1, b1⟩, h1, h2⟩ := bind_ok _ _ _ h
    have a := decItem_consumes c i bs st st1 b1 h1
    have b := decItems_consumes c is b1 st1 st' r h2
    simp only [minItems]; omega

theorem decBody_consumes (c : Cfg) : ∀ (b : Body) (bs : Bytes) (v : Value) (r : Bytes),
    decBody c b bs = .ok (v, r) → r.length + minBody b ≤ bs.length
  | .root _ items, bs, v, r, h => by
    simp only [decBody] at h
    obtain ⟨⟨st1, b1⟩, h1, h2⟩ := bind_ok _ _ _ h
    simp only [Outcome.ok.injEq, Prod.mk.injEq] at h2
    rw [← h2.2]; simp only [minBody]
    exact decItems_consumes c items bs DState.empty st1 b1 h1
  | .derived _ parent cs _ items, bs, v, r, h => by
    simp only [decBody] at h
    obtain ⟨⟨pv, b1⟩, h1, h2⟩ := bind_ok _ _ _ h
    obtain ⟨x, _, h3⟩ := bind_ok _ _ _ h2
    simp only [Outcome.ok.injEq, Prod.mk.injEq] at h3
    rw [← h3.2]; simp only [minBody]
    exact decBody_consumes c parent bs pv b1 h1
end

/-! ### the decoder never panics — except at the four recorded hazard sites of the emitted code -/

/-- the hazards of the decoder emitted at the pinned tree (known findings KF-C01-count-mul,
    -custom-read, -esize-zero-chunks, -esize-zero-rem); the reference mode has none -/
def knownHazard : Hazard → Bool
  | .mulOverflow | .customRead | .chunksZero | .remZero => true
  | _ => false

/-- an outcome that is not a panic, or — in the model of the emitted code only — one of the
    recorded hazards -/
def Safe {α : Type} (m : Mode) (o : Dec α) : Prop :=
  match o with
  | .panic h => m = .rust ∧ knownHazard h = true
  | _ => True

theorem Safe.bind {α β : Type} {m : Mode} {x : Dec α} {f : α → Dec β}
    (hx : Safe m x) (hf : ∀ a, x = .ok a → Safe m (f a)) : Safe m (x.bind f) := by
  cases x with
  | ok a => exact hf a rfl
  | err e => trivial
  | panic h => exact hx

theorem Safe.ok {α : Type} (m : Mode) (a : α) : Safe m (Outcome.ok a : Dec α) := trivial
theorem Safe.err {α : Type} (m : Mode) (e : DecErr) : Safe m (Outcome.err e : Dec α) := trivial

def SafeF (m : Mode) (f : Bytes → Dec (Value × Bytes)) : Prop := ∀ bs, Safe m (f bs)

/-- an unguarded fixed-width read: with `k` octets available it succeeds consuming exactly `k`,
    or fails with an error -/
def StaticStep (f : Bytes → Dec (Value × Bytes)) (k : Nat) : Prop :=
  ∀ bs, k ≤ bs.length → (∃ v, f bs = .ok (v, bs.drop k)) ∨ (∃ e, f bs = .err e)

theorem decRepeat_safe (m : Mode) (f : Bytes → Dec (Value × Bytes)) (hf : SafeF m f) :
    ∀ n bs, Safe m (decRepeat f n bs) := by
  intro n
  induction n with
  | zero => intro bs; trivial
  | succ n ih =>
    intro bs
    simp only [decRepeat]
    refine Safe.bind (hf bs) ?_
    intro ⟨v, bs'⟩ _
    refine Safe.bind (ih bs') ?_
    intro ⟨vs, r⟩ _
    trivial

theorem decRepeat_static_safe (m : Mode) (f : Bytes → Dec (Value × Bytes)) (k : Nat) (hf : StaticStep f k) :
    ∀ n bs, n * k ≤ bs.length → Safe m (decRepeat f n bs) := by
  intro n
  induction n with
  | zero => intro bs _; trivial
  | succ n ih =>
    intro bs hlen
    simp only [decRepeat]
    have hk : k ≤ bs.length := by
      have : (n + 1) * k = n * k + k := Nat.succ_mul n k
      omega
    rcases hf bs hk with ⟨v, hv⟩ | ⟨e, he⟩
    · rw [hv]
      simp only [Outcome.bind]
      have hrest : n * k ≤ (bs.drop k).length := by
        have : (n + 1) * k = n * k + k := Nat.succ_mul n k
        rw [List.length_drop]; omega
      refine Safe.bind (ih (bs.drop k) hrest) ?_
      intro ⟨vs, r⟩ _
      trivial
    · rw [he]; trivial

theorem decWhile_safe (m : Mode) (f : Bytes → Dec (Value × Bytes)) (hf : SafeF m f)
    (hprog : ∀ bs v r, bs ≠ [] → f bs = .ok (v, r) → r.length < bs.length) :
    ∀ fuel bs, bs.length < fuel → Safe m (decWhile f fuel bs) := by
  intro fuel
  induction fuel with
  | zero => intro bs h; omega
  | succ fuel ih =>
    intro bs h
    simp only [decWhile]
    split
    · trivial
    · rename_i hne
      have hne' : bs ≠ [] := by intro h0; simp [h0] at hne
      refine Safe.bind (hf bs) ?_
      intro ⟨v, bs'⟩ hfb
      have hlt := hprog bs v bs' hne' hfb
      simp only [hlt, ↓reduceIte]
      refine Safe.bind (ih bs' (by omega)) ?_
      intro vs _
      trivial

theorem decChunked_safe (m : Mode) (f : Bytes → Dec (Value × Bytes)) (hf : SafeF m f) (es : Nat) :
    ∀ n bs, Safe m (decChunked f es n bs) := by
  intro n
  induction n with
  | zero => intro bs; trivial
  | succ n ih =>
    intro bs
    simp only [decChunked]
    split
    · trivial
    · refine Safe.bind (hf _) ?_
      intro ⟨v, r⟩ _
      simp only
      split
      · refine Safe.bind (ih _) ?_
        intro vs _
        trivial
      · trivial

theorem umulM_safe (m : Mode) (a b : Nat) : Safe m (umulM m a b) := by
  unfold umulM
  cases m with
  | rust =>
    simp only [umul]
    split
    · trivial
    · exact ⟨rfl, rfl⟩
  | ideal =>
    simp only
    split <;> trivial

theorem umulM_ok (m : Mode) (a b t : Nat) (h : umulM m a b = .ok t) : t = a * b := by
  unfold umulM at h
  cases m with
  | rust =>
    simp only [umul] at h
    split at h
    · simp only [Outcome.ok.injEq] at h; exact h.symm
    · cases h
  | ideal =>
    simp only at h
    split at h
    · simp only [Outcome.ok.injEq] at h; exact h.symm
    · cases h

theorem zeroElem_safe (m : Mode) (el : Bytes → Dec (Value × Bytes)) (hel : SafeF m el) (n : Nat) (sp : Bytes) :
    Safe m (zeroElem m el n .chunksZero sp) := by
  unfold zeroElem
  cases m with
  | rust => exact ⟨rfl, rfl⟩
  | ideal =>
    simp only
    refine Safe.bind (decRepeat_safe _ _ ?_ n []) ?_
    · intro bs
      refine Safe.bind (hel []) ?_
      intro ⟨v, _⟩ _
      trivial
    · intro ⟨vs, _⟩ _
      trivial

theorem unwrapArr_safe (m : Mode) (n : Nat) (vs : List Value) : Safe m (unwrapArr n vs) := by
  unfold unwrapArr; split <;> trivial

/-- what an array case needs from its element decoder, by element width -/
def ElemOk (m : Mode) (el : Bytes → Dec (Value × Bytes)) : ElemWidth → Prop
  | .static w => 0 < w ∧ (SafeF m el ∨ StaticStep el w)
  | .dynamic => SafeF m el
  | .unknown => SafeF m el ∧ ∀ bs v r, bs ≠ [] → el bs = .ok (v, r) → r.length < bs.length

theorem decRepeat_either (m : Mode) (el : Bytes → Dec (Value × Bytes)) (w : Nat)
    (h : SafeF m el ∨ StaticStep el w) (n : Nat) (bs : Bytes) (hlen : n * w ≤ bs.length) :
    Safe m (decRepeat el n bs) := by
  rcases h with h | h
  · exact decRepeat_safe m el h n bs
  · exact decRepeat_static_safe m el w h n bs hlen

/-- **the twelve array cases**: with the context entries bound and an element decoder as the
    layout promises, the array decoder does not panic (reference mode), or panics only at a
    recorded hazard (model of the emitted code) -/
theorem decArray_safe (m : Mode) (el : Bytes → Dec (Value × Bytes)) (ew : ElemWidth) (shape : Shape)
    (cnt siz esz : Option Nat) (hkeys : arrayKeysOk ew shape cnt siz esz = true) (hel : ElemOk m el ew)
    (sp : Bytes) : Safe m (decArray m el ew shape cnt siz esz sp) := by
  unfold decArray
  cases ew with
  | «static» w =>
    obtain ⟨hw, hs⟩ := hel
    cases shape with
    | «static» n =>
      simp only
      split
      · trivial
      · rename_i hlen
        refine Safe.bind (decRepeat_either m el w hs n sp (by omega)) ?_
        intro ⟨vs, r⟩ _
        refine Safe.bind (unwrapArr_safe m n vs) ?_
        intro _ _; trivial
    | countField =>
      cases cnt with
      | none => simp [arrayKeysOk] at hkeys
      | some n =>
        simp only
        refine Safe.bind (umulM_safe m n w) ?_
        intro tot htot
        have := umulM_ok m n w tot htot
        split
        · trivial
        · exact decRepeat_either m el w hs n sp (by omega)
    | sizeField =>
      cases siz with
      | none => simp [arrayKeysOk] at hkeys
      | some sz =>
        simp only
        split
        · trivial
        · split
          · omega
          · split
            · trivial
            · rename_i hlen _ hmod
              have : sz / w * w ≤ sz := Nat.div_mul_le_self sz w
              exact decRepeat_either m el w hs (sz / w) sp (by omega)
    | unknown =>
      simp only
      split
      · omega
      · split
        · trivial
        · have : sp.length / w * w ≤ sp.length := Nat.div_mul_le_self _ w
          exact decRepeat_either m el w hs _ sp this
  | dynamic =>
    have hel' : SafeF m el := hel
    cases esz with
    | none => cases shape <;> simp [arrayKeysOk] at hkeys
    | some es =>
      cases shape with
      | «static» n =>
        simp only
        refine Safe.bind (by split; trivial; exact umulM_safe m n es) ?_
        intro tot _
        split
        · trivial
        · split
          · exact zeroElem_safe m el hel' n sp
          · refine Safe.bind (decChunked_safe m el hel' es n sp) ?_
            intro vs _
            refine Safe.bind (unwrapArr_safe m n vs) ?_
            intro _ _; trivial
      | countField =>
        cases cnt with
        | none => simp [arrayKeysOk] at hkeys
        | some n =>
          simp only
          refine Safe.bind (umulM_safe m n es) ?_
          intro tot _
          split
          · trivial
          · split
            · exact zeroElem_safe m el hel' n sp
            · refine Safe.bind (decChunked_safe m el hel' es n sp) ?_
              intro vs _; trivial
      | sizeField =>
        cases siz with
        | none => simp [arrayKeysOk] at hkeys
        | some sz =>
          simp only
          split
          · trivial
          · split
            · cases m with
              | rust => simp; exact ⟨rfl, rfl⟩
              | ideal => simp; split <;> trivial
            · split
              · trivial
              · refine Safe.bind (decChunked_safe m el hel' es _ sp) ?_
                intro vs _; trivial
      | unknown =>
        simp only
        split
        · cases m with
          | rust => simp; exact ⟨rfl, rfl⟩
          | ideal => simp; split <;> trivial
        · split
          · trivial
          · refine Safe.bind (decChunked_safe m el hel' es _ sp) ?_
            intro vs _; trivial
  | unknown =>
    obtain ⟨hs, hprog⟩ := hel
    cases shape with
    | «static» n =>
      simp only
      refine Safe.bind (decRepeat_safe m el hs n sp) ?_
      intro ⟨vs, r⟩ _
      refine Safe.bind (unwrapArr_safe m n vs) ?_
      intro _ _; trivial
    | countField =>
      cases cnt with
      | none => simp [arrayKeysOk] at hkeys
      | some n => exact decRepeat_safe m el hs n sp
    | sizeField =>
      cases siz with
      | none => simp [arrayKeysOk] at hkeys
      | some sz =>
        simp only
        split
        · trivial
        · refine Safe.bind (decWhile_safe m el hs hprog (sz + 1) (sp.take sz) ?_) ?_
          · rw [List.length_take]; omega
          · intro vs _; trivial
    | unknown =>
      simp only
      refine Safe.bind (decWhile_safe m el hs hprog (sp.length + 1) sp (by omega)) ?_
      intro vs _; trivial

theorem withPad_safe (m : Mode) (pad : Option Nat) (bs : Bytes) (k : Bytes → Dec (List Value × Bytes))
    (hk : ∀ sp, Safe m (k sp)) : Safe m (withPad pad bs k) := by
  unfold withPad
  cases pad with
  | none => exact hk bs
  | some p =>
    simp only
    split
    · trivial
    · refine Safe.bind (hk _) ?_
      intro ⟨vs, _⟩ _; trivial

/-! ### the context: every entry an item reads has been bound by an earlier chunk -/

def CtxHas (st : DState) (avail : List Key) : Prop := ∀ k ∈ avail, (st.ctx.get k).isSome = true

theorem get_cons_self (k : Key) (v : Nat) (ctx : Ctx) : (Ctx.get ((k, v) :: ctx) k).isSome = true := by
  simp [Ctx.get, List.lookup]

theorem get_cons_mono (k k' : Key) (v : Nat) (ctx : Ctx) (h : (Ctx.get ctx k).isSome = true) :
    (Ctx.get ((k', v) :: ctx) k).isSome = true := by
  simp only [Ctx.get, List.lookup] at h ⊢
  split <;> simp_all

theorem decChunkFields_ctx (ideal : Bool) : ∀ (fs : List BitField) (shift chunk : Nat) (st st' : DState),
    decChunkFields ideal fs shift chunk st = .ok st' →
      (∀ k, (st.ctx.get k).isSome = true → (st'.ctx.get k).isSome = true) ∧
      (∀ k ∈ chunkKeys fs, (st'.ctx.get k).isSome = true) := by
  intro fs
  induction fs with
  | nil =>
    intro shift chunk st st' h
    simp only [decChunkFields, Outcome.ok.injEq] at h
    subst h
    exact ⟨fun _ hk => hk, by simp [chunkKeys]⟩
  | cons f fs ih =>
    intro shift chunk st st' h
    have bound : ∀ (key : Key) (v : Nat) (st1 : DState), st1.ctx = (key, v) :: st.ctx →
        decChunkFields ideal fs (shift + f.width) chunk st1 = .ok st' →
        (∀ k, (st.ctx.get k).isSome = true → (st'.ctx.get k).isSome = true) ∧
        (∀ k ∈ key :: chunkKeys fs, (st'.ctx.get k).isSome = true) := by
      intro key v st1 hst1 h1
      obtain ⟨m1, m2⟩ := ih _ _ st1 st' h1
      refine ⟨fun k hk => m1 k (by rw [hst1]; exact get_cons_mono k key v st.ctx hk), ?_⟩
      intro k hk
      rcases List.mem_cons.mp hk with rfl | hk
      · exact m1 k (by rw [hst1]; exact get_cons_self k v st.ctx)
      · exact m2 k hk
    have same : ∀ (st1 : DState), st1.ctx = st.ctx →
        decChunkFields ideal fs (shift + f.width) chunk st1 = .ok st' →
        (∀ k, (st.ctx.get k).isSome = true → (st'.ctx.get k).isSome = true) ∧
        (∀ k ∈ chunkKeys fs, (st'.ctx.get k).isSome = true) := by
      intro st1 hst1 h1
      obtain ⟨m1, m2⟩ := ih _ _ st1 st' h1
      exact ⟨fun k hk => m1 k (by rw [hst1]; exact hk), m2⟩
    unfold decChunkFields at h
    cases f with
    | scalar id w => simp only [chunkKeys]; exact bound _ _ _ rfl h
    | flag id o => simp only [chunkKeys]; exact bound _ _ _ rfl h
    | enumTy id ty e =>
      simp only at h
      split at h
      · simp only [chunkKeys]; exact bound _ _ _ rfl h
      · cases h
    | fixed w v =>
      simp only at h
      split at h
      · simp only [chunkKeys]; exact same _ rfl h
      · cases h
    | reserved w => simp only [chunkKeys]; exact same _ rfl h
    | size t w m =>
      simp only at h
      split at h
      · split at h
        · cases h
        · simp only [chunkKeys]; exact bound _ _ _ rfl h
      · simp only [chunkKeys]; exact bound _ _ _ rfl h
    | count t w => simp only [chunkKeys]; exact bound _ _ _ rfl h
    | elemSize t w => simp only [chunkKeys]; exact bound _ _ _ rfl h

/-- inversion of a successful optional field -/
theorem optional_ok (c : Cfg) (id : String) (ty : Ty) (cid : String) (cval : Nat) (bs : Bytes)
    (st st' : DState) (r : Bytes) (h : decItem c (.optional id ty cid cval) bs st = .ok (st', r)) :
    (∃ x, decTy c ty bs = .ok (x, r) ∧ st' = { st with fields := st.fields ++ [(id, x)] }) ∨
    (r = bs ∧ st' = { st with fields := st.fields ++ [(id, .null)] }) := by
  simp only [decItem] at h
  cases hctx : st.ctx.get (.val cid) with
  | none => simp [hctx] at h
  | some cv =>
    simp only [hctx] at h
    by_cases hcv : cv = cval
    · simp only [hcv, ↓reduceIte] at h
      have fin : (Outcome.bind (decTy c ty bs) fun x =>
          Outcome.ok ({ ctx := st.ctx, fields := st.fields ++ [(id, x.fst)], payload := st.payload }, x.snd))
            = .ok (st', r) →
          ∃ x, decTy c ty bs = .ok (x, r) ∧ st' = { st with fields := st.fields ++ [(id, x)] } := by
        intro hb
        obtain ⟨⟨x, r'⟩, h1, h2⟩ := bind_ok _ _ _ hb
        simp only [Outcome.ok.injEq, Prod.mk.injEq] at h2
        exact ⟨x, by rw [h1, h2.2], h2.1.symm⟩
      left
      cases ty with
      | scalar w =>
        simp only at h
        split at h
        · cases h
        · exact fin h
      | enumTy nm en =>
        simp only at h
        split at h
        · cases h
        · exact fin h
      | custom nm w =>
        simp only [Bool.false_eq_true, ↓reduceIte] at h
        exact fin h
      | struct nm b =>
        simp only [Bool.false_eq_true, ↓reduceIte] at h
        exact fin h
    · simp only [hcv, ↓reduceIte, Outcome.ok.injEq, Prod.mk.injEq] at h
      exact Or.inr ⟨h.2.symm, h.1.symm⟩

/-- after an item the context still has every entry it had, plus — after a chunk — the chunk's -/
theorem decItem_ctx (c : Cfg) (i : Item) (bs : Bytes) (st st' : DState) (r : Bytes) (avail : List Key)
    (h : decItem c i bs st = .ok (st', r)) (hc : CtxHas st avail) :
    CtxHas st' (availAfter avail i) := by
  cases i with
  | chunk fs =>
    simp only [availAfter]
    simp only [decItem, decChunk] at h
    split at h
    · cases h
    · obtain ⟨st1, h1, h2⟩ := bind_ok _ _ _ h
      simp only [Outcome.ok.injEq, Prod.mk.injEq] at h2
      obtain ⟨m1, m2⟩ := decChunkFields_ctx _ _ _ _ _ _ h1
      intro k hk
      rw [← h2.1]
      rcases List.mem_append.mp hk with hk | hk
      · exact m2 k hk
      · exact m1 k (hc k hk)
  | typedef id ty sb =>
    have key : st'.ctx = st.ctx := by
      cases ty with
      | custom nm w =>
        simp only [decItem] at h
        split at h
        · split at h <;> cases h
        · obtain ⟨⟨x, r'⟩, _, h2⟩ := bind_ok _ _ _ h
          simp only [Outcome.ok.injEq, Prod.mk.injEq] at h2
          rw [← h2.1]
      | scalar w =>
        simp only [decItem] at h
        obtain ⟨⟨x, r'⟩, _, h2⟩ := bind_ok _ _ _ h
        simp only [Outcome.ok.injEq, Prod.mk.injEq] at h2
        rw [← h2.1]
      | enumTy nm en =>
        simp only [decItem] at h
        obtain ⟨⟨x, r'⟩, _, h2⟩ := bind_ok _ _ _ h
        simp only [Outcome.ok.injEq, Prod.mk.injEq] at h2
        rw [← h2.1]
      | struct nm b =>
        simp only [decItem] at h
        obtain ⟨⟨x, r'⟩, _, h2⟩ := bind_ok _ _ _ h
        simp only [Outcome.ok.injEq, Prod.mk.injEq] at h2
        rw [← h2.1]
    intro k hk; rw [key]; exact hc k hk
  | optional id ty cid cval =>
    have key : st'.ctx = st.ctx := by
      rcases optional_ok c id ty cid cval bs st st' r h with ⟨x, _, hst⟩ | ⟨_, hst⟩ <;> rw [hst]
    intro k hk; rw [key]; exact hc k hk
  | payload mode =>
    have key : st'.ctx = st.ctx := by
      simp only [decItem] at h
      cases mode with
      | sized m =>
        simp only at h
        split at h
        · cases h
        · split at h
          · cases h
          · split at h
            · cases h
            · simp only [Outcome.ok.injEq, Prod.mk.injEq] at h; rw [← h.1]
      | last => simp only [Outcome.ok.injEq, Prod.mk.injEq] at h; rw [← h.1]
      | beforeStatic k =>
        simp only at h
        split at h
        · cases h
        · simp only [Outcome.ok.injEq, Prod.mk.injEq] at h; rw [← h.1]
      | undelimited => cases h
    intro k hk; rw [key]; exact hc k hk
  | array id elem ew shape pad =>
    have key : st'.ctx = st.ctx := by
      simp only [decItem] at h
      split at h
      · cases h
      · obtain ⟨⟨vs, r'⟩, _, h2⟩ := bind_ok _ _ _ h
        simp only [Outcome.ok.injEq, Prod.mk.injEq] at h2
        rw [← h2.1]
    intro k hk; rw [key]; exact hc k hk

/-! ### the whole decoder -/

theorem safe_of_not_panic {α : Type} (m : Mode) (o : Dec α) (h : o.isPanic = false) : Safe m o := by
  cases o with
  | ok a => trivial
  | err e => trivial
  | panic q => simp [Outcome.isPanic] at h

/-- an unguarded scalar / enum element read is a `StaticStep` of its static width -/
theorem decTy_static_step (c : Cfg) (ty : Ty) (w : Nat) (hs : staticTy ty = some w)
    (hg : ty.selfGuarded = false) : StaticStep (decTy c ty) w := by
  intro bs hlen
  cases ty with
  | scalar W =>
    simp only [staticTy, Option.some.injEq] at hs
    simp only [decTy, getUint]
    have : ¬ bs.length < W / 8 := by omega
    simp only [this, ↓reduceIte, Outcome.bind]
    exact Or.inl ⟨_, by rw [hs]⟩
  | enumTy nm en =>
    simp only [staticTy, Option.some.injEq] at hs
    simp only [decTy, getUint]
    have : ¬ bs.length < en.width / 8 := by omega
    simp only [this, ↓reduceIte, Outcome.bind]
    repeat' split
    all_goals first
      | exact Or.inl ⟨_, by rw [hs]⟩
      | exact Or.inr ⟨_, rfl⟩
  | custom nm W => simp [Ty.selfGuarded] at hg
  | struct nm b => simp [Ty.selfGuarded] at hg

theorem ctxHas_contains (st : DState) (avail : List Key) (k : Key) (hc : CtxHas st avail)
    (h : avail.contains k = true) : ∃ v, st.ctx.get k = some v := by
  have hm : k ∈ avail := by simpa using h
  have := hc k hm
  cases hg : st.ctx.get k with
  | none => simp [hg] at this
  | some v => exact ⟨v, rfl⟩

mutual
theorem decTy_safe (c : Cfg) : ∀ (ty : Ty), decWfTy ty = true → ty.selfGuarded = true →
    SafeF c.mode (decTy c ty)
  | .scalar w, _, hg => by simp [Ty.selfGuarded] at hg
  | .enumTy _ _, _, hg => by simp [Ty.selfGuarded] at hg
  | .custom _ w, _, _ => by
    intro bs
    simp only [decTy]
    split
    · trivial
    · rename_i hlen
      refine Safe.bind (safe_of_not_panic _ _ (getUint_no_panic c.e w bs (by omega))) ?_
      intro ⟨v, r⟩ _; trivial
  | .struct _ b, hw, _ => by
    intro bs
    simp only [decTy]
    exact decBody_safe c b (by simpa [decWfTy] using hw) bs

theorem decItem_safe (c : Cfg) : ∀ (i : Item) (avail : List Key) (bs : Bytes) (st : DState),
    decWfItem avail i = true → CtxHas st avail → Safe c.mode (decItem c i bs st)
  | .chunk fs, avail, bs, st, _, _ => by
    simp only [decItem]
    exact safe_of_not_panic _ _ (decChunk_no_panic _ _ _ _ _)
  | .typedef id ty sb, avail, bs, st, hw, _ => by
    simp only [decWfItem, Bool.and_eq_true] at hw
    cases ty with
    | scalar w => simp [Ty.selfGuarded] at hw
    | enumTy nm en => simp [Ty.selfGuarded] at hw
    | custom nm w =>
      simp only [decItem]
      split
      · cases hm : c.mode with
        | rust => exact ⟨rfl, rfl⟩
        | ideal => trivial
      · rename_i hlen
        refine Safe.bind (safe_of_not_panic _ _ (getUint_no_panic c.e w bs (by omega))) ?_
        intro ⟨v, r⟩ _; trivial
    | struct nm b =>
      simp only [decItem]
      refine Safe.bind (decTy_safe c (.struct nm b) hw.2 hw.1 bs) ?_
      intro ⟨v, r⟩ _; trivial
  | .optional id ty cid cval, avail, bs, st, hw, hc => by
    simp only [decWfItem, Bool.and_eq_true] at hw
    obtain ⟨cv, hcv⟩ := ctxHas_contains st avail _ hc hw.1
    simp only [decItem, hcv]
    by_cases heq : cv = cval
    · simp only [heq, ↓reduceIte]
      cases ty with
      | scalar w =>
        simp only
        split
        · trivial
        · rename_i hlen
          refine Safe.bind ?_ ?_
          · simp only [decTy]
            refine Safe.bind (safe_of_not_panic _ _ (getUint_no_panic c.e w bs (by simpa using hlen))) ?_
            intro ⟨v, r⟩ _; trivial
          · intro ⟨v, r⟩ _; trivial
      | enumTy nm en =>
        simp only
        split
        · trivial
        · rename_i hlen
          refine Safe.bind ?_ ?_
          · simp only [decTy]
            refine Safe.bind (safe_of_not_panic _ _ (getUint_no_panic c.e en.width bs (by simpa using hlen))) ?_
            intro ⟨v, r⟩ _
            simp only
            split <;> trivial
          · intro ⟨v, r⟩ _; trivial
      | custom nm w =>
        simp only [Bool.false_eq_true, ↓reduceIte]
        refine Safe.bind (decTy_safe c (.custom nm w) hw.2 rfl bs) ?_
        intro ⟨v, r⟩ _; trivial
      | struct nm b =>
        simp only [Bool.false_eq_true, ↓reduceIte]
        refine Safe.bind (decTy_safe c (.struct nm b) hw.2 rfl bs) ?_
        intro ⟨v, r⟩ _; trivial
    · simp only [heq, ↓reduceIte]; trivial
  | .payload mode, avail, bs, st, hw, hc => by
    simp only [decWfItem] at hw
    simp only [decItem]
    cases mode with
    | sized m =>
      obtain ⟨sz, hsz⟩ := ctxHas_contains st avail _ hc hw
      simp only [hsz]
      split
      · trivial
      · split <;> trivial
    | last => trivial
    | beforeStatic k => simp only; split <;> trivial
    | undelimited => simp at hw
  | .array id elem ew shape pad, avail, bs, st, hw, hc => by
    simp only [decWfItem, Bool.and_eq_true] at hw
    obtain ⟨⟨hwt, hew⟩, hshape⟩ := hw
    simp only [decItem]
    have hkeys : arrayKeysOk ew shape (st.ctx.get (.count id)) (st.ctx.get (.size id)) (st.ctx.get (.esize id)) = true := by
      simp only [arrayKeysOk, Bool.and_eq_true]
      constructor
      · cases shape with
        | «static» n => rfl
        | countField =>
          obtain ⟨v, hv⟩ := ctxHas_contains st avail _ hc hshape
          simp [hv]
        | sizeField =>
          obtain ⟨v, hv⟩ := ctxHas_contains st avail _ hc hshape
          simp [hv]
        | unknown => rfl
      · cases ew with
        | «static» w => rfl
        | dynamic =>
          simp only [Bool.and_eq_true] at hew
          obtain ⟨v, hv⟩ := ctxHas_contains st avail _ hc hew.1
          simp [hv]
        | unknown => rfl
    simp only [hkeys, Bool.not_true, Bool.false_eq_true, ↓reduceIte]
    have hel : ElemOk c.mode (decTy c elem) ew := by
      cases ew with
      | «static» w =>
        simp only [Bool.and_eq_true, decide_eq_true_eq, Bool.or_eq_true] at hew
        refine ⟨hew.1, ?_⟩
        by_cases hg : elem.selfGuarded = true
        · exact Or.inl (decTy_safe c elem hwt hg)
        · have hg' : elem.selfGuarded = false := by simpa using hg
          rcases hew.2 with h | h
          · exact absurd h hg
          · exact Or.inr (decTy_static_step c elem w (by simpa using h) hg')
      | dynamic =>
        simp only [Bool.and_eq_true] at hew
        exact decTy_safe c elem hwt hew.2
      | unknown =>
        simp only [Bool.and_eq_true, decide_eq_true_eq] at hew
        refine ⟨decTy_safe c elem hwt hew.1, ?_⟩
        intro b v r _ hb
        have := decTy_consumes c elem b v r hb
        omega
    refine Safe.bind (withPad_safe c.mode pad bs _ (fun sp => decArray_safe c.mode _ ew shape _ _ _ hkeys hel sp)) ?_
    intro ⟨vs, r⟩ _; trivial

theorem decItems_safe (c : Cfg) : ∀ (is : Items) (avail : List Key) (bs : Bytes) (st : DState),
    decWfItems avail is = true → CtxHas st avail → Safe c.mode (decItems c is bs st)
  | .nil, _, _, _, _, _ => by simp only [decItems]; trivial
  | .cons i r, avail, bs, st, hw, hc => by
    simp only [decWfItems, Bool.and_eq_true] at hw
    simp only [decItems]
    refine Safe.bind (decItem_safe c i avail bs st hw.1 hc) ?_
    intro ⟨st1, b1⟩ h1
    exact decItems_safe c r _ b1 st1 hw.2 (decItem_ctx c i bs st st1 b1 avail h1 hc)

theorem decBody_safe (c : Cfg) : ∀ (b : Body), decWfBody b = true → ∀ bs, Safe c.mode (decBody c b bs)
  | .root _ items, hw, bs => by
    simp only [decWfBody] at hw
    simp only [decBody]
    refine Safe.bind (decItems_safe c items [] bs DState.empty hw (by intro k hk; simp at hk)) ?_
    intro ⟨st, r⟩ _; trivial
  | .derived _ parent cs _ items, hw, bs => by
    simp only [decWfBody, Bool.and_eq_true] at hw
    simp only [decBody]
    refine Safe.bind (decBody_safe c parent hw.1 bs) ?_
    intro ⟨pv, r⟩ _
    refine Safe.bind ?_ (by intro v _; trivial)
    simp only [decPartialWith]
    split
    · trivial
    · split
      · refine Safe.bind (decItems_safe c items [] _ DState.empty hw.2 (by intro k hk; simp at hk)) ?_
        intro ⟨st, rest⟩ _
        simp only
        split <;> trivial
      · trivial
end

/-! ### the remainder is a suffix of the input -/

theorem zeroElem_suffix (m : Mode) (el : Bytes → Dec (Value × Bytes)) (n : Nat) (hz : Hazard) (sp : Bytes)
    (vs : List Value) (r : Bytes) (h : zeroElem m el n hz sp = .ok (vs, r)) : IsSuffix r sp := by
  unfold zeroElem at h
  cases m with
  | rust => cases h
  | ideal =>
    simp only at h
    obtain ⟨a, _, ha⟩ := bind_ok _ _ _ h
    simp only [Outcome.ok.injEq, Prod.mk.injEq] at ha
    rw [← ha.2]; exact IsSuffix.refl _

theorem decArray_suffix (m : Mode) (el : Bytes → Dec (Value × Bytes)) (hel : SuffixSafe el)
    (ew : ElemWidth) (shape : Shape) (cnt siz esz : Option Nat) (sp : Bytes) (vs : List Value) (r : Bytes)
    (h : decArray m el ew shape cnt siz esz sp = .ok (vs, r)) : IsSuffix r sp := by
  have hrep := decRepeat_suffix el hel
  unfold decArray at h
  cases ew <;> cases shape <;> simp only at h
  · split at h
    · cases h
    · obtain ⟨⟨ws, r'⟩, h1, h2⟩ := bind_ok _ _ _ h
      obtain ⟨ws', _, h4⟩ := bind_ok _ _ _ h2
      simp only [Outcome.ok.injEq, Prod.mk.injEq] at h4
      rw [← h4.2]; exact hrep _ _ _ _ h1
  · cases cnt with
    | none => cases h
    | some n =>
      simp only at h
      obtain ⟨tot, _, h2⟩ := bind_ok _ _ _ h
      split at h2
      · cases h2
      · exact hrep _ _ _ _ h2
  · cases siz with
    | none => cases h
    | some sz =>
      simp only at h
      split at h
      · cases h
      · split at h
        · cases h
        · split at h
          · cases h
          · exact hrep _ _ _ _ h
  · split at h
    · cases h
    · split at h
      · cases h
      · exact hrep _ _ _ _ h
  · cases esz with
    | none => cases h
    | some es =>
      simp only at h
      obtain ⟨tot, _, h2⟩ := bind_ok _ _ _ h
      split at h2
      · cases h2
      · split at h2
        · exact zeroElem_suffix _ _ _ _ _ _ _ h2
        · obtain ⟨ws, _, h3⟩ := bind_ok _ _ _ h2
          obtain ⟨ws', _, h4⟩ := bind_ok _ _ _ h3
          simp only [Outcome.ok.injEq, Prod.mk.injEq] at h4
          rw [← h4.2]; exact IsSuffix.drop _ _
  · cases esz with
    | none => cases h
    | some es =>
      cases cnt with
      | none => cases h
      | some n =>
        simp only at h
        obtain ⟨tot, _, h2⟩ := bind_ok _ _ _ h
        split at h2
        · cases h2
        · split at h2
          · exact zeroElem_suffix _ _ _ _ _ _ _ h2
          · obtain ⟨ws, _, h3⟩ := bind_ok _ _ _ h2
            simp only [Outcome.ok.injEq, Prod.mk.injEq] at h3
            rw [← h3.2]; exact IsSuffix.drop _ _
  · cases esz with
    | none => cases h
    | some es =>
      cases siz with
      | none => cases h
      | some sz =>
        simp only at h
        split at h
        · cases h
        · split at h
          · split at h
            · split at h
              · simp only [Outcome.ok.injEq, Prod.mk.injEq] at h; rw [← h.2]; exact IsSuffix.refl _
              · cases h
            · cases h
          · split at h
            · cases h
            · obtain ⟨ws, _, h3⟩ := bind_ok _ _ _ h
              simp only [Outcome.ok.injEq, Prod.mk.injEq] at h3
              rw [← h3.2]; exact IsSuffix.drop _ _
  · cases esz with
    | none => cases h
    | some es =>
      simp only at h
      split at h
      · split at h
        · split at h
          · simp only [Outcome.ok.injEq, Prod.mk.injEq] at h; rw [← h.2]; exact IsSuffix.refl _
          · cases h
        · cases h
      · split at h
        · cases h
        · obtain ⟨ws, _, h3⟩ := bind_ok _ _ _ h
          simp only [Outcome.ok.injEq, Prod.mk.injEq] at h3
          rw [← h3.2]; exact IsSuffix.nil _
  · obtain ⟨⟨ws, r'⟩, h1, h2⟩ := bind_ok _ _ _ h
    obtain ⟨ws', _, h4⟩ := bind_ok _ _ _ h2
    simp only [Outcome.ok.injEq, Prod.mk.injEq] at h4
    rw [← h4.2]; exact hrep _ _ _ _ h1
  · cases cnt with
    | none => cases h
    | some n => exact hrep _ _ _ _ h
  · cases siz with
    | none => cases h
    | some sz =>
      simp only at h
      split at h
      · cases h
      · obtain ⟨ws, _, h3⟩ := bind_ok _ _ _ h
        simp only [Outcome.ok.injEq, Prod.mk.injEq] at h3
        rw [← h3.2]; exact IsSuffix.drop _ _
  · obtain ⟨ws, _, h3⟩ := bind_ok _ _ _ h
    simp only [Outcome.ok.injEq, Prod.mk.injEq] at h3
    rw [← h3.2]; exact IsSuffix.nil _

theorem withPad_suffix (pad : Option Nat) (bs : Bytes) (k : Bytes → Dec (List Value × Bytes))
    (hk : ∀ sp vs r, k sp = .ok (vs, r) → IsSuffix r sp) (vs : List Value) (r : Bytes)
    (h : withPad pad bs k = .ok (vs, r)) : IsSuffix r bs := by
  unfold withPad at h
  cases pad with
  | none => exact hk bs vs r h
  | some p =>
    simp only at h
    split at h
    · cases h
    · obtain ⟨⟨ws, r'⟩, _, h2⟩ := bind_ok _ _ _ h
      simp only [Outcome.ok.injEq, Prod.mk.injEq] at h2
      rw [← h2.2]; exact IsSuffix.drop _ _

mutual
theorem decTy_suffix (c : Cfg) : ∀ (ty : Ty), SuffixSafe (decTy c ty)
  | .scalar w => by
    intro bs v r h
    simp only [decTy] at h
    obtain ⟨⟨x, r'⟩, h1, h2⟩ := bind_ok _ _ _ h
    simp only [Outcome.ok.injEq, Prod.mk.injEq] at h2
    rw [← h2.2]; exact getUint_suffix _ _ _ _ _ h1
  | .enumTy _ en => by
    intro bs v r h
    simp only [decTy] at h
    obtain ⟨⟨x, r'⟩, h1, h2⟩ := bind_ok _ _ _ h
    simp only at h2
    split at h2
    · simp only [Outcome.ok.injEq, Prod.mk.injEq] at h2
      rw [← h2.2]; exact getUint_suffix _ _ _ _ _ h1
    · cases h2
  | .custom _ w => by
    intro bs v r h
    simp only [decTy] at h
    split at h
    · cases h
    · obtain ⟨⟨x, r'⟩, h1, h2⟩ := bind_ok _ _ _ h
      simp only [Outcome.ok.injEq, Prod.mk.injEq] at h2
      rw [← h2.2]; exact getUint_suffix _ _ _ _ _ h1
  | .struct _ b => by
    intro bs v r h
    simp only [decTy] at h
    exact decBody_suffix c b bs v r h

theorem decItem_suffix (c : Cfg) : ∀ (i : Item) (bs : Bytes) (st st' : DState) (r : Bytes),
    decItem c i bs st = .ok (st', r) → IsSuffix r bs
  | .chunk fs, bs, st, st', r, h => by
    simp only [decItem] at h
    exact decChunk_suffix _ _ _ _ _ _ _ h
  | .typedef id ty sb, bs, st, st', r, h => by
    cases ty with
    | custom nm w =>
      simp only [decItem] at h
      split at h
      · split at h <;> cases h
      · obtain ⟨⟨x, r'⟩, h1, h2⟩ := bind_ok _ _ _ h
        simp only [Outcome.ok.injEq, Prod.mk.injEq] at h2
        rw [← h2.2]; exact getUint_suffix _ _ _ _ _ h1
    | scalar w =>
      simp only [decItem] at h
      obtain ⟨⟨x, r'⟩, h1, h2⟩ := bind_ok _ _ _ h
      simp only [Outcome.ok.injEq, Prod.mk.injEq] at h2
      rw [← h2.2]; exact decTy_suffix c (.scalar w) bs x r' h1
    | enumTy nm en =>
      simp only [decItem] at h
      obtain ⟨⟨x, r'⟩, h1, h2⟩ := bind_ok _ _ _ h
      simp only [Outcome.ok.injEq, Prod.mk.injEq] at h2
      rw [← h2.2]; exact decTy_suffix c (.enumTy nm en) bs x r' h1
    | struct nm b =>
      simp only [decItem] at h
      obtain ⟨⟨x, r'⟩, h1, h2⟩ := bind_ok _ _ _ h
      simp only [Outcome.ok.injEq, Prod.mk.injEq] at h2
      rw [← h2.2]; exact decTy_suffix c (.struct nm b) bs x r' h1
  | .optional id ty cid cval, bs, st, st', r, h => by
    rcases optional_ok c id ty cid cval bs st st' r h with ⟨x, hx, _⟩ | ⟨hr, _⟩
    · exact decTy_suffix c ty bs x r hx
    · rw [hr]; exact IsSuffix.refl _
  | .payload mode, bs, st, st', r, h => by
    simp only [decItem] at h
    cases mode with
    | sized m =>
      simp only at h
      split at h
      · cases h
      · split at h
        · cases h
        · split at h
          · cases h
          · simp only [Outcome.ok.injEq, Prod.mk.injEq] at h
            rw [← h.2]; exact IsSuffix.drop _ _
    | last =>
      simp only [Outcome.ok.injEq, Prod.mk.injEq] at h
      rw [← h.2]; exact IsSuffix.nil _
    | beforeStatic k =>
      simp only at h
      split at h
      · cases h
      · simp only [Outcome.ok.injEq, Prod.mk.injEq] at h
        rw [← h.2]; exact IsSuffix.drop _ _
    | undelimited => cases h
  | .array id elem ew shape pad, bs, st, st', r, h => by
    simp only [decItem] at h
    split at h
    · cases h
    · obtain ⟨⟨vs, r'⟩, h1, h2⟩ := bind_ok _ _ _ h
      simp only [Outcome.ok.injEq, Prod.mk.injEq] at h2
      rw [← h2.2]
      refine withPad_suffix pad bs _ ?_ vs r' h1
      intro sp ws q hq
      exact decArray_suffix c.mode (decTy c elem) (decTy_suffix c elem) ew shape _ _ _ sp ws q hq

theorem decItems_suffix (c : Cfg) : ∀ (is : Items) (bs : Bytes) (st st' : DState) (r : Bytes),
    decItems c is bs st = .ok (st', r) → IsSuffix r bs
  | .nil, bs, st, st', r, h => by
    simp only [decItems, Outcome.ok.injEq, Prod.mk.injEq] at h
    rw [← h.2]; exact IsSuffix.refl _
  | .cons i is, bs, st, st', r, h => by
    simp only [decItems] at h
    obtain ⟨⟨st1, b1⟩, h1, h2⟩ := bind_ok _ _ _ h
    exact (decItems_suffix c is b1 st1 st' r h2).trans (decItem_suffix c i bs st st1 b1 h1)

theorem decBody_suffix (c : Cfg) : ∀ (b : Body) (bs : Bytes) (v : Value) (r : Bytes),
    decBody c b bs = .ok (v, r) → IsSuffix r bs
  | .root _ items, bs, v, r, h => by
    simp only [decBody] at h
    obtain ⟨⟨st1, b1⟩, h1, h2⟩ := bind_ok _ _ _ h
    simp only [Outcome.ok.injEq, Prod.mk.injEq] at h2
    rw [← h2.2]
    exact decItems_suffix c items bs DState.empty st1 b1 h1
  | .derived _ parent cs _ items, bs, v, r, h => by
    simp only [decBody] at h
    obtain ⟨⟨pv, b1⟩, h1, h2⟩ := bind_ok _ _ _ h
    obtain ⟨x, _, h3⟩ := bind_ok _ _ _ h2
    simp only [Outcome.ok.injEq, Prod.mk.injEq] at h3
    rw [← h3.2]
    exact decBody_suffix c parent bs pv b1 h1
end

/-! ### C01, stated -/

/-- **The reference decoder is total**: for every layout the decoder generator handles
    (`decWfBody`, evaluated by the check on every generated layout), in both byte orders, `decode`
    returns a value or a `DecodeError` on EVERY byte string — no bound on the input, on array
    counts, nesting or inheritance depth. -/
theorem decode_no_panic_ideal (e : Endian) (b : Body) (hw : decWfBody b = true) (bs : Bytes) :
    (decBody { e := e, mode := .ideal } b bs).isPanic = false := by
  have := decBody_safe { e := e, mode := .ideal } b hw bs
  cases h : decBody { e := e, mode := .ideal } b bs with
  | ok a => rfl
  | err x => rfl
  | panic q => rw [h] at this; exact absurd this.1 (by simp)

/-- **The emitted decoder panics only at the four recorded call sites** (`count * width` on usize,
    the unguarded read of a sized custom field, `chunks(0)` and `% 0` for an element size of zero):
    every other read, slice, loop and subtraction is dominated by its guard, on every input. -/
theorem decode_panics_only_at_known_hazards (e : Endian) (b : Body) (hw : decWfBody b = true)
    (bs : Bytes) (h : Hazard) (hp : decBody { e := e, mode := .rust } b bs = .panic h) :
    knownHazard h = true := by
  have := decBody_safe { e := e, mode := .rust } b hw bs
  rw [hp] at this
  exact this.2

/-- the same for `decode_full` (pdl-runtime): the trailing-bytes check adds no panic -/
theorem decode_full_no_panic_ideal (e : Endian) (b : Body) (hw : decWfBody b = true) (bs : Bytes) :
    (decodeFull { e := e, mode := .ideal } b bs).isPanic = false := by
  unfold decodeFull
  have := decode_no_panic_ideal e b hw bs
  cases h : decBody { e := e, mode := .ideal } b bs with
  | ok a => simp only [Outcome.bind]; split <;> rfl
  | err x => rfl
  | panic q => simp [h, Outcome.isPanic] at this

/-- **`decode` never returns more than it was given**, and consumes at least the octets the layout
    makes mandatory — all layouts, all inputs, both modes (no well-formedness needed) -/
theorem decode_remainder_bound (c : Cfg) (b : Body) (bs : Bytes) (v : Value) (r : Bytes)
    (h : decBody c b bs = .ok (v, r)) : r.length + minBody b ≤ bs.length :=
  decBody_consumes c b bs v r h

/-- **`decode` returns a suffix of its input**: the remainder handed back is exactly the tail of
    the byte string that was not consumed — all layouts, all inputs, both modes -/
theorem decode_suffix (c : Cfg) (b : Body) (bs : Bytes) (v : Value) (r : Bytes)
    (h : decBody c b bs = .ok (v, r)) : ∃ consumed, bs = consumed ++ r :=
  decBody_suffix c b bs v r h

/-! non-vacuity: `packet P { _count_(x): 8, c: 1, _reserved_: 7, x: 16[], o: 8 if c = 1, _payload_ }` -/
example : decWfBody (.root "P" (.cons (.chunk [.count "x" 8, .flag "c" [("o", 1)], .reserved 7])
    (.cons (.array "x" (.scalar 16) (.static 2) .countField none)
    (.cons (.optional "o" (.scalar 8) "c" 1) (.cons (.payload .last) .nil))))) = true := by
  simp [decWfBody, decWfItems, decWfItem, decWfTy, availAfter, chunkKeys, staticTy, Ty.selfGuarded]

end Pdlv
