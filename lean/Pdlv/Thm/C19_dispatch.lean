/-
  C19 — the dispatch to child classes the Java back end emits (model: `Pdlv.JavaSpec`, tied to java/codegen/packet.rs by
  differential execution on every input of the run) against the reference's `decode_partial`.
-/
import Pdlv.Lemmas.JavaSpecAgree

namespace Pdlv
namespace JavaSpec

/-- **C19, dispatch: whatever is returned is right.**  For every root packet with a tree of children whose own fields are in
    the class of the parser theorems, struct-typed fields of static size included (`JavaSpec.wfNode`: decidable, evaluated per run), both byte orders and EVERY byte string
    a `byte[]` can hold: if `Root.fromBytes(b)` returns an object of class `T` with field values `v`, then the reference
    `decode_full` accepts `b` as the root, and `T` is either the root itself (its fallback child `Unknown<Root>`) with the
    reference's values, or is reached from one of the root's children by one reference `decode_partial` per level —
    constraints checked, the child's fields parsed from the parent's payload with nothing left over — with exactly the
    values `v`.  The width test `payload.limit() == width / 8` and the first-fit order never make the emitted parser
    return a child the reference would not. -/
theorem java_dispatch_is_sound (c : Cfg) (nm : String) (items : Items) (fb : Bool) (ks : List Node)
    (hw : wfNode (.mk (.root nm items) fb ks) = true) (bs : Bytes) (T : String) (v : Value)
    (h : parseAll c (.mk (.root nm items) fb ks) bs = .ok (T, v)) :
    ∃ v0, Pdlv.decodeFull (ideal c) (.root nm items) bs = .ok v0 ∧
      ((T = nm ∧ v = v0) ∨ ∃ k, k ∈ ks ∧ Reaches c k v0 T v) := by
  simp only [wfNode, Bool.and_eq_true] at hw
  simp only [parseAll] at h
  split at h
  · cases h
  · rename_i hlen
    obtain ⟨⟨st, rest⟩, h1, h2⟩ := bind_ok _ _ _ h
    simp only at h2
    obtain ⟨r, hd, h3⟩ := bind_ok _ _ _ h2
    by_cases hre : rest.isEmpty = true
    · simp only [hre, ↓reduceIte, Outcome.ok.injEq] at h3
      subst h3
      have hj : Java.decodeFullS c (.root nm items) bs = .ok (assemble st []) := by
        simp only [Java.decodeFullS, h1, Outcome.bind, hre, ↓reduceIte, assemble, List.append_nil]
        generalize st.payload = q
        cases q <;> rfl
      have hr := (Java.decode_same3 c nm items hw.1 bs (by omega) _).mp hj
      refine ⟨assemble st [], hr, ?_⟩
      by_cases hpl : items.hasPayload = true
      · simp only [hpl, ↓reduceIte] at hd
        rcases dispatch_sound c ks hw.2 nm fb _ T v hd with ⟨_, hT, hv⟩ | hk
        · exact Or.inl ⟨hT, hv⟩
        · exact Or.inr hk
      · simp only [hpl, Bool.false_eq_true, ↓reduceIte, Outcome.ok.injEq, Prod.mk.injEq] at hd
        exact Or.inl ⟨hd.1.symm, hd.2.symm⟩
    · simp only [hre, Bool.false_eq_true, ↓reduceIte] at h3
      cases h3

/-- **… the first fitting candidate is the one committed to** (declaration order; an exception in its parser is the result,
    there is no second try) -/
theorem java_dispatch_takes_the_first_fitting_child (c : Cfg) (nm : String) (fb : Bool) (pv : Value) (pre : List Node)
    (k : Node) (post : List Node) (hpre : ∀ k', k' ∈ pre → (candidate k' && fits pv k') = false)
    (hk : (candidate k && fits pv k) = true) :
    dispatch c nm fb pv (pre ++ k :: post) = fromPayload c k pv :=
  dispatch_first c nm fb pv pre k post hpre hk

/-- **… and the fallback child is built only when no candidate fits**; a candidate that does not fit because one of its
    constraints does not hold is one the reference's `decode_partial` rejects as well. -/
theorem java_falls_back_only_if_no_candidate_fits (c : Cfg) (nm : String) (fb : Bool) (pv : Value) (ks : List Node)
    (T : String) (v : Value) (h : dispatch c nm fb pv ks = .ok (T, v))
    (hno : ∀ k, k ∈ ks → ∀ r, fromPayload c k pv ≠ .ok r) :
    (fb = true ∧ T = nm ∧ v = pv) ∧ ∀ k, k ∈ ks → (candidate k && fits pv k) = false := by
  have hall : ∀ k, k ∈ ks → (candidate k && fits pv k) = false := by
    intro k hk
    cases hc : (candidate k && fits pv k) with
    | false => rfl
    | true =>
      exfalso
      obtain ⟨pre, post, rfl⟩ := List.append_of_mem hk
      -- the first fitting candidate of the list is committed to: its parser's result is `h`
      have : ∃ pre' k' post', pre ++ k :: post = pre' ++ k' :: post' ∧
          (∀ x, x ∈ pre' → (candidate x && fits pv x) = false) ∧ (candidate k' && fits pv k') = true := by
        clear h hno hk
        induction pre with
        | nil => exact ⟨[], k, post, rfl, by simp, hc⟩
        | cons p pre ih =>
          cases hp : (candidate p && fits pv p) with
          | true => exact ⟨[], p, pre ++ k :: post, rfl, by simp, hp⟩
          | false =>
            obtain ⟨pre', k', post', he, h1, h2⟩ := ih
            refine ⟨p :: pre', k', post', by simp [he], ?_, h2⟩
            intro x hx
            rcases List.mem_cons.mp hx with rfl | hx
            · exact hp
            · exact h1 x hx
      obtain ⟨pre', k', post', he, h1, h2⟩ := this
      rw [he, dispatch_first c nm fb pv pre' k' post' h1 h2] at h
      exact hno k' (by rw [he]; simp) _ h
  rw [dispatch_fallback c nm fb pv ks hall] at h
  split at h
  · simp only [Outcome.ok.injEq, Prod.mk.injEq] at h
    exact ⟨⟨by assumption, h.1.symm, h.2.symm⟩, hall⟩
  · cases h

theorem unfit_constraint_is_rejected_by_the_reference (c : Cfg) (nm : String) (parent : Body) (cs allCs : List (String × Nat))
    (items : Items) (pv : Value) (h : violated parent pv cs = true) :
    refChild c (.derived nm parent cs allCs items) pv = .err .constraintValue := by
  simp [refChild, decPartialWith, h]

/-- **… so a fallback means the reference accepts none of the candidates either.**  If the emitted parser builds the fallback
    child (no child's `fromPayload` is entered), then for every candidate child of the tree whose own fields are in the class
    of the parser theorem the reference's `decode_partial` rejects the parent value: a violated constraint is a
    `ConstraintValue` error, and a static width that differs from the payload's length leaves octets over or runs short
    (`decItems_exact_len`).  The width test of `fits_childs_constraints` never hides a child the reference would accept. -/
theorem java_fallback_means_no_candidate_is_accepted (c : Cfg) (pv : Value) (nm : String) (parent : Body)
    (cs allCs : List (String × Nat)) (items : Items) (fb : Bool) (ks : List Node)
    (hw : wfNode (.mk (.derived nm parent cs allCs items) fb ks) = true)
    (hcand : candidate (.mk (.derived nm parent cs allCs items) fb ks) = true)
    (hfit : fits pv (.mk (.derived nm parent cs allCs items) fb ks) = false) (v : Value) :
    refChild c (.derived nm parent cs allCs items) pv ≠ .ok v := by
  simp only [wfNode, Bool.and_eq_true] at hw
  obtain ⟨⟨hp, hwi⟩, _⟩ := hw
  simp only [fits, Bool.and_eq_false_iff, Bool.not_eq_false'] at hfit
  rcases hfit with hv | hwd
  · rw [unfit_constraint_is_rejected_by_the_reference c nm parent cs allCs items pv hv]
    intro h; cases h
  · cases how : ownWidth items with
    | none => simp [how] at hwd
    | some w =>
      simp only [how] at hwd
      exact unfit_width c nm parent cs allCs items hp hwi w how pv hwd v

/-! non-vacuity: `packet R { k: 8, _payload_ }`, `packet A : R (k = 1) { x: 8 }`, `packet B : R (k = 2) { y: 16 }`;
    `02 34 12` is returned as a `B` with `y = 0x1234`; `02 34` fits `B`'s constraint but not its width: the fallback
    child `UnknownR` with the raw payload -/
example :
    let root : Body := .root "R" (.cons (.chunk [.scalar "k" 8]) (.cons (.payload .last) .nil))
    let a : Node := .mk (.derived "A" root [("k", 1)] [("k", 1)] (.cons (.chunk [.scalar "x" 8]) .nil)) false []
    let b : Node := .mk (.derived "B" root [("k", 2)] [("k", 2)] (.cons (.chunk [.scalar "y" 16]) .nil)) false []
    wfNode (.mk root true [a, b]) = true ∧
    parseAll { e := .little } (.mk root true [a, b]) [2, 0x34, 0x12] = .ok ("B", .obj [("y", .int 0x1234)]) ∧
    parseAll { e := .little } (.mk root true [a, b]) [2, 0x34] = .ok ("R", .obj [("k", .int 2), ("payload", .arr [.int 0x34])]) := by
  refine ⟨by decide, by rfl, by rfl⟩

/-- a child with neither a constraint nor a static width is never a candidate: `packet R { k: 8, _payload_ }`,
    `packet A : R { x: 8[] }` — `01 02 03` comes back as the fallback child although the reference's
    `A::decode_partial` accepts the parent (the property leaves the choice among unconstrained children open) -/
theorem unconstrained_dynamic_child_is_never_chosen :
    let root : Body := .root "R" (.cons (.chunk [.scalar "k" 8]) (.cons (.payload .last) .nil))
    let aBody : Body := .derived "A" root [] [] (.cons (.array "x" (.scalar 8) (.static 1) .unknown none) .nil)
    let a : Node := .mk aBody false []
    parseAll { e := .little } (.mk root true [a]) [1, 2, 3] = .ok ("R", .obj [("k", .int 1), ("payload", .arr [.int 2, .int 3])]) ∧
    refChild { e := .little } aBody (.obj [("k", .int 1), ("payload", .arr [.int 2, .int 3])]) =
      .ok (.obj [("x", .arr [.int 2, .int 3]), ("k", .int 1)]) := by
  refine ⟨by rfl, by rfl⟩

end JavaSpec
end Pdlv
