/-
  C10 — the compiler never crashes.

  Statements about the model of the analyzer (`Pdlv.Analyzer`, compared with analyzer::analyze on
  every run: verdict, codes and *panic site*) and about the model of the back ends' preconditions
  (`Pdlv.Backend`, compared with backends::*::generate on every accepted description of every run).

  The full statement — `∀ f, ¬ (analyze f).isPanic` — is FALSE of the pinned tree: the panic
  sites below are reachable through the parser (witnesses in known_findings.json, replayed on the
  real analyzer on every run).  What is proved: every place the model can panic, the exact
  condition under which it does, and absence of panics in the passes whose only partial operation is
  excluded by what the parser guarantees.
-/
import Pdlv.Analyzer
import Pdlv.Backend

namespace Pdlv
namespace Analyzer

/-! ### the passes that return plain diagnostics cannot panic (by type); the others, site by site -/

/-- `check_decl_identifiers` never panics: it returns the sorted file or diagnostics -/
theorem checkDeclIdentifiers_no_panic (f : File) (p : APanic) : checkDeclIdentifiers f ≠ .panic p := by
  unfold checkDeclIdentifiers
  simp only
  split <;> simp

/-- what the parser guarantees about a condition `if id = v` / `if id = TAG`: exactly one of the two -/
def CondInv (f : File) : Prop :=
  ∀ d ∈ f.decls, ∀ fl ∈ d.fields, ∀ c, fl.cond = some c → c.value.isSome ∨ c.tagId.isSome

theorem optGo_none (fs : List Field) :
    ∀ (scope : List (String × Field)) (acc : List Diag × Option APanic),
      (∀ fl ∈ fs, ∀ c, fl.cond = some c → c.value.isSome ∨ c.tagId.isSome) → acc.2 = none →
      (checkOptionalFields.go scope acc fs).2 = none := by
  induction fs with
  | nil => intro scope acc _ h; simpa [checkOptionalFields.go] using h
  | cons fl fs ih =>
    intro scope acc hinv hacc
    unfold checkOptionalFields.go
    apply ih
    · intro g hg; exact hinv g (List.mem_cons_of_mem _ hg)
    · cases hc : fl.cond with
      | none => simpa using hacc
      | some c =>
        have hv := hinv fl (List.mem_cons_self ..) c hc
        simp only [hacc]
        cases hval : c.value with
        | none =>
          cases htag : c.tagId with
          | none => simp [hval, htag] at hv
          | some t => simp
        | some v =>
          cases htag : c.tagId with
          | some t => simp
          | none =>
            match v with
            | 0 => simp
            | 1 => simp
            | n + 2 => simp

/-- **check_optional_fields** reaches its `unreachable!()` only on a condition with neither a value
    nor a tag; on every file the parser can return it does not panic. -/
theorem checkOptionalFields_no_panic (f : File) (h : CondInv f) (p : APanic) :
    checkOptionalFields f ≠ .panic p := by
  unfold checkOptionalFields
  simp only
  have key : ∀ (ds : List Decl) (acc : List Diag × Option APanic),
      (∀ d ∈ ds, ∀ fl ∈ d.fields, ∀ c, fl.cond = some c → c.value.isSome ∨ c.tagId.isSome) → acc.2 = none →
      (ds.foldl (fun acc d => checkOptionalFields.go [] acc d.fields) acc).2 = none := by
    intro ds
    induction ds with
    | nil => intro acc _ h; simpa using h
    | cons d ds ih =>
      intro acc hinv hacc
      simp only [List.foldl_cons]
      apply ih
      · intro d' hd'; exact hinv d' (List.mem_cons_of_mem _ hd')
      · exact optGo_none d.fields [] acc (hinv d (List.mem_cons_self ..)) hacc
  have h2 := key f.decls ([], none) h rfl
  generalize hr : (f.decls.foldl (fun acc d => checkOptionalFields.go [] acc d.fields) ([], none)) = r at h2
  obtain ⟨ds, q⟩ := r
  simp only at h2
  subst h2
  simp only
  split <;> simp

/-! ### check_constraint: where it panics, exactly -/

/-- the field a constraint names, as `check_constraint` looks it up (own fields, then ancestors') -/
def constrained (f : File) (c : Constraint) (decl : Decl) : Option Field :=
  (iterFields f (f.decls.length + 1) decl).find? (fun fl => fl.id? == some c.id)

/-- **`Some(_) => unreachable!()` (analyzer.rs check_constraint)** is reached exactly when the
    constrained identifier names a field that is neither an array, a scalar nor a typedef — through
    the parser that is a 1-bit scalar that `desugar_flags` has turned into a `Flag`
    (known finding KF-C10-constraint-on-flag). -/
theorem checkConstraint_flag_panic (f : File) (c : Constraint) (decl : Decl) (fl : Field) (id : String)
    (opt : List (String × Nat)) (hfind : constrained f c decl = some fl) (hfl : fl.desc = .flag id opt) :
    checkConstraint f c decl = ([], some .constraintOnFlag) := by
  unfold checkConstraint
  unfold constrained at hfind
  rw [hfind]
  simp [hfl]

/-- a constraint on a scalar field never panics when it carries a value or a tag (parser invariant) -/
theorem checkConstraint_scalar_no_panic (f : File) (c : Constraint) (decl : Decl) (fl : Field) (id : String) (w : Nat)
    (hfind : constrained f c decl = some fl) (hfl : fl.desc = .scalar id w)
    (hc : c.value.isSome ∨ c.tagId.isSome) : (checkConstraint f c decl).2 = none := by
  unfold checkConstraint
  unfold constrained at hfind
  rw [hfind]
  simp only [hfl]
  cases hv : c.value with
  | some v => simp only; split <;> rfl
  | none =>
    cases ht : c.tagId with
    | some t => rfl
    | none => simp [hv, ht] at hc

/-- a constraint on an array field, on an undeclared identifier, or on a typedef field never panics
    (since the `fix:` commit 3edef59 the E21 message no longer unwraps the constraint value) -/
theorem checkConstraint_typedef_no_panic (f : File) (c : Constraint) (decl : Decl) (fl : Field) (id tid : String)
    (hfind : constrained f c decl = some fl) (hfl : fl.desc = .typedef id tid) :
    (checkConstraint f c decl).2 = none := by
  unfold checkConstraint
  unfold constrained at hfind
  rw [hfind]
  simp only [hfl]
  cases lookupDecl f tid with
  | none => rfl
  | some t =>
    simp only
    cases hd : t.desc <;> simp only
    case enum eid tags w =>
      cases c.tagId with
      | none => rfl
      | some tag =>
        simp only
        cases tags.find? (fun x => x.id == tag) with
        | none => rfl
        | some tg => cases tg <;> rfl

theorem checkConstraint_undeclared_no_panic (f : File) (c : Constraint) (decl : Decl)
    (hfind : constrained f c decl = none) : checkConstraint f c decl = ([mkD 15 [c.loc]], none) := by
  unfold checkConstraint
  unfold constrained at hfind
  rw [hfind]

/-! ### the pipeline: a panic of `analyze` is a panic of one of six sites -/

/-- **Every way `analyze` can panic**: `check_optional_fields`, `check_group_constraints`,
    `inline_groups`, `desugar_flags`, `check_decl_constraints`, or the size arithmetic of
    `Schema::new` / `check_field_offsets` / `check_decl_sizes`.  The scope, identifier, enum, size-field, fixed-field,
    payload, array and padding passes return diagnostics only. -/
theorem analyze_panic_sites (f : File) (p : APanic) (h : analyze f = .panic p) :
    ∃ g, checkDeclIdentifiers f = .ok g ∧
      (checkOptionalFields g = .panic p ∨ checkGroupConstraints g = .panic p ∨ inlineGroups g = .error p ∨
       ∃ g1, inlineGroups g = .ok g1 ∧ (desugarFlags g1 = .error p ∨
         ∃ g2, desugarFlags g1 = .ok g2 ∧ (checkDeclConstraints g2 = .panic p ∨
           (schemaPanics g2 = true ∧ p = .schemaOverflow) ∨ (Schema.build g2 = none ∧ p = .schemaLookup) ∨
           ∃ sc, Schema.build g2 = some sc ∧
             (((schemaOverflows sc || schemaSumOverflows g2 sc) = true ∧ p = .schemaOverflow) ∨ checkFieldOffsets g2 sc = .panic p ∨
              (declSizesOverflow g2 sc = true ∧ p = .offsetOverflow))))) := by
  unfold analyze firstErr at h
  by_cases h1 : (scopeDiags f).isEmpty
  case neg => simp [h1] at h
  simp only [h1, ↓reduceIte] at h
  · cases hg : checkDeclIdentifiers f with
    | diags ds => simp [hg] at h
    | panic q => exact absurd hg (checkDeclIdentifiers_no_panic f q)
    | ok g =>
      simp only [hg] at h
      refine ⟨g, rfl, ?_⟩
      by_cases a1 : (checkFieldIdentifiers g).isEmpty <;> simp only [a1, ↓reduceIte] at h <;> try (cases h)
      by_cases a2 : (checkEnumDeclarations g).isEmpty <;> simp only [a2, ↓reduceIte] at h <;> try (cases h)
      by_cases a3 : (checkSizeFields g).isEmpty <;> simp only [a3, ↓reduceIte] at h <;> try (cases h)
      by_cases a4 : (checkFixedFields g).isEmpty <;> simp only [a4, ↓reduceIte] at h <;> try (cases h)
      by_cases a5 : (checkPayloadFields g).isEmpty <;> simp only [a5, ↓reduceIte] at h <;> try (cases h)
      by_cases a6 : (checkArrayFields g).isEmpty <;> simp only [a6, ↓reduceIte] at h <;> try (cases h)
      by_cases a7 : (checkPaddingFields g).isEmpty <;> simp only [a7, ↓reduceIte] at h <;> try (cases h)
      cases ho : checkOptionalFields g with
      | diags ds => simp [ho] at h
      | panic q => simp only [ho] at h; cases h; exact Or.inl rfl
      | ok _ =>
        simp only [ho] at h
        cases hgc : checkGroupConstraints g with
        | diags ds => simp [hgc] at h
        | panic q => simp only [hgc] at h; cases h; exact Or.inr (Or.inl rfl)
        | ok _ =>
          simp only [hgc] at h
          cases hi : inlineGroups g with
          | error q => simp only [hi] at h; cases h; exact Or.inr (Or.inr (Or.inl rfl))
          | ok g1 =>
            simp only [hi] at h
            refine Or.inr (Or.inr (Or.inr ⟨g1, rfl, ?_⟩))
            cases hd : desugarFlags g1 with
            | error q => simp only [hd] at h; cases h; exact Or.inl rfl
            | ok g2 =>
              simp only [hd] at h
              refine Or.inr ⟨g2, rfl, ?_⟩
              by_cases b1 : (scopeDiags g2).isEmpty <;> simp only [b1, ↓reduceIte] at h <;> try (cases h)
              cases hdc : checkDeclConstraints g2 with
              | diags ds => simp [hdc] at h
              | panic q => simp only [hdc] at h; cases h; exact Or.inl rfl
              | ok _ =>
                simp only [hdc] at h
                by_cases hs : schemaPanics g2 = true
                · simp only [hs, ↓reduceIte] at h; cases h; exact Or.inr (Or.inl ⟨hs, rfl⟩)
                · simp only [hs] at h
                  cases hb : Schema.build g2 with
                  | none => simp only [hb] at h; cases h; exact Or.inr (Or.inr (Or.inl ⟨rfl, rfl⟩))
                  | some sc =>
                    simp only [hb] at h
                    refine Or.inr (Or.inr (Or.inr ⟨sc, rfl, ?_⟩))
                    by_cases hov : (schemaOverflows sc || schemaSumOverflows g2 sc) = true
                    · simp only [hov, ↓reduceIte] at h; cases h; exact Or.inl ⟨hov, rfl⟩
                    · simp only [hov] at h
                      refine Or.inr ?_
                      cases hfo : checkFieldOffsets g2 sc with
                      | diags ds => simp [hfo] at h
                      | panic q => simp only [hfo] at h; cases h; exact Or.inl rfl
                      | ok _ =>
                        simp only [hfo] at h
                        by_cases hdo : declSizesOverflow g2 sc = true
                        · simp only [hdo, ↓reduceIte] at h; cases h; exact Or.inr ⟨hdo, rfl⟩
                        · simp only [hdo] at h
                          by_cases c1 : (checkDeclSizes g2 sc).isEmpty <;> simp [c1] at h

/-- a file with duplicate declaration identifiers, an undeclared or recursive type, … (anything
    the first two passes report) is answered with diagnostics — never a panic, whatever else it
    contains -/
theorem analyze_early_diagnostics (f : File) (h : (scopeDiags f).isEmpty = false) :
    analyze f = .diags (scopeDiags f) := by
  unfold analyze firstErr
  simp [h]

/-- the size arithmetic of `Schema::new` is the only place a *static array size* can crash the
    analyzer, and it does so exactly when `count * width` leaves `usize`
    (known finding KF-C10-schema-mul-overflow) -/
theorem schemaPanics_iff (f : File) :
    schemaPanics f = true ↔ ∃ d ∈ f.decls, ∃ fl ∈ d.fields, ∃ id w t m n,
      fl.desc = .array id (some w) t m (some n) ∧ 2 ^ 64 ≤ n * w := by
  unfold schemaPanics
  simp only [List.any_eq_true]
  constructor
  · rintro ⟨d, hd, fl, hfl, hx⟩
    refine ⟨d, hd, fl, hfl, ?_⟩
    cases hdesc : fl.desc <;> simp only [hdesc] at hx <;> try (cases hx)
    rename_i id w t m n
    cases w <;> cases n <;> simp only at hx <;> try (cases hx)
    rename_i w n
    refine ⟨id, w, t, m, n, rfl, ?_⟩
    simp [usizeOk] at hx
    omega
  · rintro ⟨d, hd, fl, hfl, id, w, t, m, n, hdesc, hn⟩
    refine ⟨d, hd, fl, hfl, ?_⟩
    simp only [hdesc, usizeOk]
    simp
    omega

/-! ### non-vacuity -/
example : CondInv { endian := .little, decls := [{ desc := .packet "P" [] [
    { desc := .scalar "c" 1 }, { desc := .reserved 7 },
    { desc := .scalar "x" 8, cond := some { id := "c", value := some 1, tagId := none } }] none }] } := by
  intro d hd fl hfl c hc
  simp at hd; subst hd
  simp [Decl.fields] at hfl
  rcases hfl with rfl | rfl | rfl <;> simp at hc
  subst hc; simp

end Analyzer
end Pdlv
