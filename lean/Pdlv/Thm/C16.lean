/-
  C16 — static size annotations are sound.

  * the `Size` lattice of analyzer.rs behaves as "constant iff every part is constant";
  * `static_sound`: whenever the layout of a packet / struct / field is classified as having the
    constant size n, EVERY encoding the encoder model produces for it has exactly n octets — for
    all values, by structural induction over the layout (arrays at their padded size).
  The tie of `Schema` / `staticBody` to the real `analyzer::Schema` is the per-run comparison of
  `bin/check C16` (several thousand declarations per run).
-/
import Pdlv.Static
import Pdlv.Schema
import Pdlv.Lemmas.Enc

namespace Pdlv

/-! ### the Size lattice -/

theorem Size.add_def (a b : Size) : a + b = Size.add a b := rfl

theorem Size.add_static_iff (a b : Size) (n : Nat) :
    a + b = .static n ↔ ∃ x y, a = .static x ∧ b = .static y ∧ n = x + y := by
  rw [Size.add_def]
  cases a <;> cases b <;> simp [Size.add]
  omega

theorem Size.add_comm (a b : Size) : a + b = b + a := by
  rw [Size.add_def, Size.add_def]
  cases a <;> cases b <;> simp [Size.add, Nat.add_comm]

theorem Size.add_assoc (a b c : Size) : a + b + c = a + (b + c) := by
  simp only [Size.add_def]
  cases a <;> cases b <;> cases c <;> simp [Size.add, Nat.add_assoc]

/-- a declaration has a constant total size exactly when its own fields, its parents' fields
    and its payload all have one -/
theorem total_static_iff (s : DeclSizes) (n : Nat) :
    s.total = .static n ↔
      ∃ d p q, s.declSize = .static d ∧ s.parentSize = .static p ∧ s.payloadSize = .static q ∧ n = d + p + q := by
  unfold DeclSizes.total
  constructor
  · intro h
    obtain ⟨x, q, h1, h2, rfl⟩ := (Size.add_static_iff _ _ _).mp h
    obtain ⟨d, p, h3, h4, rfl⟩ := (Size.add_static_iff _ _ _).mp h1
    exact ⟨d, p, q, h3, h4, h2, rfl⟩
  · rintro ⟨d, p, q, h1, h2, h3, rfl⟩
    rw [h1, h2, h3]; rfl

/-- a part of unknown size makes the whole unknown; a dynamic part (and no unknown one) dynamic -/
theorem Size.add_unknown (a : Size) : a + .unknown = .unknown := by cases a <;> rfl
theorem Size.unknown_add (a : Size) : Size.unknown + a = .unknown := by cases a <;> rfl

/-- `unknown` only arises from an unknown part: the sum of parts that are each static or
    dynamic is never unknown -/
theorem Size.add_ne_unknown (a b : Size) (ha : a ≠ .unknown) (hb : b ≠ .unknown) : a + b ≠ .unknown := by
  rw [Size.add_def]
  cases a <;> cases b <;> simp_all [Size.add]

/-! ### static sizes are sound for every value -/

theorem sumLen_const (k : Nat) (vs : List Value) : sumLen (fun _ => k) vs = vs.length * k := by
  induction vs with
  | nil => simp [sumLen]
  | cons v vs ih => simp only [sumLen, ih, List.length_cons, Nat.succ_mul]; omega

mutual
theorem encTy_static (c : Cfg) : ∀ (t : Ty) (v : Value) (bs : Bytes) (n : Nat),
    staticTy t = some n → encTy c t v = .ok bs → bs.length = n
  | .scalar w, v, bs, n, hs, he => by
    simp only [staticTy, Option.some.injEq] at hs
    rw [encTy_scalar_length c w v bs he, ← hs]; rfl
  | .enumTy _ en, v, bs, n, hs, he => by
    simp only [staticTy, Option.some.injEq] at hs
    cases v with
    | int x =>
      simp only [encTy] at he
      split at he
      · simp only [Outcome.ok.injEq] at he; rw [← he, putUint_length, hs]
      · cases he
    | arr _ => simp [encTy] at he
    | obj _ => simp [encTy] at he
    | null => simp [encTy] at he
  | .custom _ w, v, bs, n, hs, he => by
    simp only [staticTy, Option.some.injEq] at hs
    cases v with
    | int x =>
      simp only [encTy] at he
      split at he
      · simp only [Outcome.ok.injEq] at he; rw [← he, putUint_length, hs]
      · cases he
    | arr _ => simp [encTy] at he
    | obj _ => simp [encTy] at he
    | null => simp [encTy] at he
  | .struct _ b, v, bs, n, hs, he => by
    simp only [staticTy] at hs
    simp only [encTy] at he
    exact encBody_static c b v bs n hs he

theorem encItem_static (c : Cfg) (all : Items) (p : Enc Bytes) (pl : Nat) (v : Value) :
    ∀ (i : Item) (bs : Bytes) (n : Nat),
    staticItem i = some n → encItem c all p pl v i = .ok bs → bs.length = n
  | .chunk fs, bs, n, hs, he => by
    simp only [staticItem, Option.some.injEq] at hs
    rw [encChunk_length c all p pl v fs bs he, ← hs]; rfl
  | .typedef id ty sb, bs, n, hs, he => by
    simp only [staticItem] at hs
    simp only [encItem] at he
    cases hv : v.get? id with
    | none => simp [hv] at he
    | some x =>
      simp only [hv] at he
      exact encTy_static c ty x bs n hs he
  | .optional .., bs, n, hs, he => by simp [staticItem] at hs
  | .payload _, bs, n, hs, he => by simp [staticItem] at hs
  | .array id elem ew shape pad, bs, n, hs, he => by
    simp only [encItem, Outcome.bind] at he
    cases hl : listField v id with
    | err e => simp [hl] at he
    | panic h => simp [hl] at he
    | ok vs =>
      simp only [hl] at he
      cases hc : checkCount shape vs.length with
      | err e => simp [hc] at he
      | panic h => simp [hc] at he
      | ok u =>
        simp only [hc] at he
        cases hp : checkPad pad (arrSize ew (lenTy elem) vs) with
        | err e => simp [hp] at he
        | panic h => simp [hp] at he
        | ok u2 =>
          simp only [hp] at he
          cases hel : encListWith (encTy c elem) vs with
          | err e => simp [hel] at he
          | panic h => simp [hel] at he
          | ok es =>
            simp only [hel] at he
            cases pad with
            | some q =>
              simp only [staticItem, Option.some.injEq] at hs
              simp only [padTo] at he
              split at he
              · simp only [Outcome.ok.injEq] at he
                rw [← he, List.length_append]; simp [zeros]; omega
              · cases he
            | none =>
              simp only [padTo, Outcome.ok.injEq] at he
              simp only [staticItem] at hs
              cases shape with
              | static k =>
                simp only at hs
                cases hst : staticTy elem with
                | none => simp [hst] at hs
                | some w =>
                  simp only [hst, Option.map_some, Option.some.injEq] at hs
                  have hlen : vs.length = k := by
                    simp only [checkCount] at hc
                    split at hc
                    · assumption
                    · cases hc
                  have := encListWith_length (encTy c elem) (fun _ => w)
                    (fun x b hx => encTy_static c elem x b w hst hx) vs es hel
                  rw [← he, this, sumLen_const, hlen, ← hs]
              | countField => simp at hs
              | sizeField => simp at hs
              | unknown => simp at hs

theorem encItems_static (c : Cfg) (all : Items) (p : Enc Bytes) (pl : Nat) (v : Value) :
    ∀ (is : Items) (bs : Bytes) (n : Nat),
    staticItems is = some n → encItems c all p pl v is = .ok bs → bs.length = n
  | .nil, bs, n, hs, he => by
    simp only [staticItems, Option.some.injEq] at hs
    simp only [encItems, Outcome.ok.injEq] at he
    rw [← he, ← hs]; rfl
  | .cons i r, bs, n, hs, he => by
    simp only [staticItems] at hs
    cases hi : staticItem i with
    | none => simp [hi] at hs
    | some a =>
      cases hr : staticItems r with
      | none => simp [hi, hr] at hs
      | some b =>
        simp only [hi, hr, Option.some.injEq] at hs
        simp only [encItems, Outcome.bind] at he
        cases hei : encItem c all p pl v i with
        | err e => simp [hei] at he
        | panic h => simp [hei] at he
        | ok x =>
          simp only [hei] at he
          cases her : encItems c all p pl v r with
          | err e => simp [her] at he
          | panic h => simp [her] at he
          | ok y =>
            simp only [her, Outcome.ok.injEq] at he
            rw [← he, List.length_append, encItem_static c all p pl v i x a hi hei,
              encItems_static c all p pl v r y b hr her, hs]

theorem encBody_static (c : Cfg) : ∀ (b : Body) (v : Value) (bs : Bytes) (n : Nat),
    staticBody b = some n → encBody c b v = .ok bs → bs.length = n
  | .root _ items, v, bs, n, hs, he => by
    simp only [staticBody] at hs
    simp only [encBody] at he
    split at he
    · cases he
    · exact encItems_static c items _ _ v items bs n hs he
  | .derived .., v, bs, n, hs, he => by simp [staticBody] at hs
end

/-- **Static sizes are sound**: a packet or struct classified as having the constant size `n`
    octets is encoded on exactly `n` octets, for every value, in both byte orders and in both
    the emitted-code and the reference mode of the encoder. -/
theorem static_sound (c : Cfg) (b : Body) (v : Value) (bs : Bytes) (n : Nat)
    (hs : staticBody b = some n) (he : encBody c b v = .ok bs) : 8 * bs.length = 8 * n := by
  rw [encBody_static c b v bs n hs he]


/-! ### what "dynamic" and "unknown" mean (the model of `annotate_field`) -/

/-- a field whose classification is inherited from the declaration(s) it is typed by -/
def typedBy (f : Field) : Option (String × Nat) :=
  match f.desc with
  | .typedef _ t | .fixedEnum t _ | .group t _ => some (t, 1)
  | .array _ none (some t) _ (some n) => some (t, n)
  | _ => none

/-- **A part classified as dynamically sized is delimited**: by a condition flag (optional field), by a
    size field (payload / body), by a size or count field (array without a constant count) — or it takes
    its classification from the declaration it is typed by (a struct that is dynamic for one of these
    reasons, or a custom field without a declared width) -/
theorem dynamic_delimited (env : SEnv) (fs : List Field) (f : Field) (h : fieldSize env fs f = some .dynamic) :
    f.cond.isSome = true ∨
    ((f.desc = .body ∨ ∃ m, f.desc = .payload m) ∧ hasPayloadSize fs = true) ∨
    (∃ id w t m, f.desc = .array id w t m none ∧ hasArraySize fs id = true) ∨
    (∃ t n s, typedBy f = some (t, n) ∧ env.lookup t = some s ∧ s.total = .dynamic) := by
  simp only [fieldSize] at h
  split at h
  · exact Or.inl (by assumption)
  · right
    split at h
    all_goals try (simp only [Option.some.injEq] at h; cases h)
    · rename_i hd; split at h <;> simp_all
    · rename_i m hd; split at h <;> simp_all
    · rename_i id t hd
      right; right
      cases hl : env.lookup t with
      | none => simp [hl] at h
      | some s =>
        simp only [hl, Option.map_some, Option.some.injEq] at h
        exact ⟨t, 1, s, by simp [typedBy, hd], hl, h⟩
    · rename_i t tag hd
      right; right
      cases hl : env.lookup t with
      | none => simp [hl] at h
      | some s =>
        simp only [hl, Option.map_some, Option.some.injEq] at h
        exact ⟨t, 1, s, by simp [typedBy, hd], hl, h⟩
    · rename_i t cs hd
      right; right
      cases hl : env.lookup t with
      | none => simp [hl] at h
      | some s =>
        simp only [hl, Option.map_some, Option.some.injEq] at h
        exact ⟨t, 1, s, by simp [typedBy, hd], hl, h⟩
    · rename_i id t m n hd
      right; right
      cases hl : env.lookup t with
      | none => simp [hl] at h
      | some s =>
        simp only [hl, Option.map_some, Option.some.injEq] at h
        refine ⟨t, n, s, by simp [typedBy, hd], hl, ?_⟩
        cases hs : s.total with
        | static a => simp [hs, Size.mulNat] at h
        | dynamic => rfl
        | unknown => simp [hs, Size.mulNat] at h
    · rename_i id w t m hd
      right; left
      split at h
      · exact ⟨id, w, t, m, hd, by assumption⟩
      · cases h
    · cases h

/-- **A part is classified as of unknown size only when nothing delimits it**: a payload / body without
    size field, an array with neither constant count nor size / count field — or a field typed by a
    declaration that is itself of unknown size -/
theorem unknown_only_undelimited (env : SEnv) (fs : List Field) (f : Field) (h : fieldSize env fs f = some .unknown) :
    f.cond.isSome = false ∧
    (((f.desc = .body ∨ ∃ m, f.desc = .payload m) ∧ hasPayloadSize fs = false) ∨
     (∃ id w t m, f.desc = .array id w t m none ∧ hasArraySize fs id = false) ∨
     (∃ t n s, typedBy f = some (t, n) ∧ env.lookup t = some s ∧ s.total = .unknown)) := by
  simp only [fieldSize] at h
  split at h
  · cases h
  · rename_i hc
    refine ⟨by simpa using hc, ?_⟩
    split at h
    all_goals try (simp only [Option.some.injEq] at h; cases h)
    · rename_i hd; split at h <;> simp_all
    · rename_i m hd; split at h <;> simp_all
    · rename_i id t hd
      right; right
      cases hl : env.lookup t with
      | none => simp [hl] at h
      | some s =>
        simp only [hl, Option.map_some, Option.some.injEq] at h
        exact ⟨t, 1, s, by simp [typedBy, hd], hl, h⟩
    · rename_i t tag hd
      right; right
      cases hl : env.lookup t with
      | none => simp [hl] at h
      | some s =>
        simp only [hl, Option.map_some, Option.some.injEq] at h
        exact ⟨t, 1, s, by simp [typedBy, hd], hl, h⟩
    · rename_i t cs hd
      right; right
      cases hl : env.lookup t with
      | none => simp [hl] at h
      | some s =>
        simp only [hl, Option.map_some, Option.some.injEq] at h
        exact ⟨t, 1, s, by simp [typedBy, hd], hl, h⟩
    · rename_i id t m n hd
      right; right
      cases hl : env.lookup t with
      | none => simp [hl] at h
      | some s =>
        simp only [hl, Option.map_some, Option.some.injEq] at h
        refine ⟨t, n, s, by simp [typedBy, hd], hl, ?_⟩
        cases hs : s.total with
        | static a => simp [hs, Size.mulNat] at h
        | dynamic => simp [hs, Size.mulNat] at h
        | unknown => rfl
    · rename_i id w t m hd
      right; left
      split at h
      · cases h
      · rename_i hna
        exact ⟨id, w, t, m, hd, by simpa using hna⟩
    · cases h

/-- non-vacuity: `struct S { a: 3, b: 13, x: 16[2] }` is static, 6 octets -/
example : staticBody (.root "S" (.cons (.chunk [.scalar "a" 3, .scalar "b" 13])
    (.cons (.array "x" (.scalar 16) (.static 2) (.static 2) none) .nil))) = some 6 := by rfl

end Pdlv
