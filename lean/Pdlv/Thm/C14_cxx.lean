/-
  C14 — the parsers the C++ back end emits (model: `Pdlv.Cxx`, tied to cxx.rs / packet_runtime.h by
  differential execution on every input of the run) against the reference decoder.
-/
import Pdlv.Lemmas.CxxAgree
import Pdlv.Lemmas.CxxView
import Pdlv.Lemmas.CxxChild
import Pdlv.Lemmas.CxxSer

namespace Pdlv
namespace Cxx

/-- **C14, struct parsers: conformance.**  For every struct without parent in the class `Cxx.wfBody`
    (decidable, evaluated per run on every generated layout: no array size modifier, an undelimited struct
    field only as the last field, count fields of statically sized elements at most 16 bits wide, no padded
    arrays, no element-size or custom fields), both byte orders and EVERY byte string shorter than 2^64
    octets: `T::Parse(span, &out)` as cxx.rs emits it succeeds exactly when the reference decoder accepts,
    with the same field values and the same octets left — the single `span.size()` check per run of
    bit-field groups, the unguarded `read_le` / `read_be` of array elements behind one product check, and the
    C++ integer arithmetic of `element_size * count` notwithstanding. -/
theorem struct_parser_agrees_with_reference (c : Cfg) (nm : String) (items : Items)
    (hw : wfBody (.root nm items) = true) (bs : Bytes) (hb : bs.length < usizeMax) (res : Value × Bytes) :
    Cxx.decBody c (.root nm items) bs = .ok res ↔
      Pdlv.decBody { e := c.e, mode := .ideal } (.root nm items) bs = .ok res :=
  (struct_parser_refines_reference c nm items hw bs hb).1 res

/-- **C14, struct parsers: no undefined behaviour.**  On the same class (and the layouts the decoder
    generator handles, `decWfBody`), no byte string drives the emitted parser into a slice accessor called
    beyond its slice (`assert` in `read_le` / `read_be` / `subrange` / `skip`, an invalid slice or
    `std::out_of_range` with NDEBUG), a remainder by zero or a non-terminating loop: every read is dominated by
    a check that covers it. -/
theorem struct_parser_no_undefined_behaviour (c : Cfg) (nm : String) (items : Items)
    (hw : wfBody (.root nm items) = true) (hd : decWfBody (.root nm items) = true)
    (bs : Bytes) (hb : bs.length < usizeMax) (h : Hazard) :
    Cxx.decBody c (.root nm items) bs ≠ .panic h := by
  intro hp
  obtain ⟨h', hq⟩ := (struct_parser_refines_reference c nm items hw bs hb).2 h hp
  have := decode_no_panic_ideal c.e (.root nm items) hd bs
  have e : Py.ideal c = { e := c.e, mode := .ideal } := rfl
  rw [e] at hq
  rw [hq] at this
  simp [Outcome.isPanic] at this

/-- **C14, packet views: conformance.**  For every packet without parent in the class `Cxx.vwfBody` (decidable,
    evaluated per run: the struct-parser class with arrays of scalars of at least one octet only — the view
    parser validates no array element and the getters are lenient, so arrays of enums and structs are the
    recorded deviations KF-C14-enum-array / -struct-array-*), both byte orders and EVERY byte string shorter
    than 2^64 octets: `TView::Create(bytes).IsValid()` holds exactly when the reference `decode_full` accepts the
    octets, and then the getters (`GetX()`, which parse the kept slices again) return the reference's field
    values. -/
theorem view_agrees_with_reference (c : Cfg) (nm : String) (items : Items)
    (hw : vwfBody (.root nm items) = true) (bs : Bytes) (hb : bs.length < usizeMax) (v : Value) :
    viewDecode c (.root nm items) bs = .ok v ↔
      Pdlv.decodeFull { e := c.e, mode := .ideal } (.root nm items) bs = .ok v :=
  (view_refines_reference c nm items hw bs hb).1 v

/-- **C14, packet views: no undefined behaviour.**  On the same class (and `decWfBody`), constructing a view
    over ANY byte string and calling its getters reaches no slice accessor called beyond its slice, no remainder
    by zero and no endless loop — in the parser (`read_le` / `subrange` / `skip` behind the size checks of
    `parse_array_field_lite`) or in a getter (whose failed assertion would surface only on a valid view). -/
theorem view_no_undefined_behaviour (c : Cfg) (nm : String) (items : Items)
    (hw : vwfBody (.root nm items) = true) (hd : decWfBody (.root nm items) = true)
    (bs : Bytes) (hb : bs.length < usizeMax) (h : Hazard) :
    viewDecode c (.root nm items) bs ≠ .panic h := by
  intro hp
  obtain ⟨h', hq⟩ := (view_refines_reference c nm items hw bs hb).2 h hp
  have := decode_full_no_panic_ideal c.e (.root nm items) hd bs
  have e : Py.ideal c = { e := c.e, mode := .ideal } := rfl
  rw [e] at hq
  rw [hq] at this
  simp [Outcome.isPanic] at this

/-- **C14, serializers.**  For every packet or struct without parent in `Cxx.serWfBody` (no element-size or custom
    fields, widths up to 64, every condition flag governs exactly one optional field) that meets the hypotheses of
    C03, both byte orders, and every value the reference assigns an encoding to: the model of the emitted
    `Builder::Serialize` / `T::Serialize` writes exactly `Ref.encode` — the emitted code checks nothing (a scalar is
    masked, sizes and counts are shifted in as they are, the flag is read off the optional field), and on the values
    the reference admits that is the reference's arithmetic. -/
theorem serializer_writes_reference (c : Cfg) (b : Body) (hs : serWfBody b = true) (hr : refWfBody b = true)
    (v : Value) (bs : Bytes) (h : Pdlv.encBody { e := c.e, mode := .ideal } b v = .ok bs) :
    Cxx.encBody c b v = .ok bs ∧ Ref.encode c.e b v = some bs :=
  ⟨body_ideal_to_cxx c b v bs hs h, encode_ideal_eq_ref c.e b hr v bs h⟩

/-- the emitted serializer has no `SizeOverflow`: `packet P { _size_(_payload_): 4, t: 4, _payload_ }` with a payload
    of 16 octets — the reference refuses the value, the size spills into the field above it in C++ (outside the
    model: the outcome is marked unmodelled) -/
theorem serializer_has_no_size_check :
    let items : Items := .cons (.chunk [.size "_payload_" 4 0, .scalar "t" 4]) (.cons (.payload (.sized 0)) .nil)
    let v : Value := .obj [("t", .int 1), ("payload", Value.ofBytes (List.replicate 16 7))]
    Pdlv.encBody { e := .little, mode := .ideal } (.root "P" items) v = .err .sizeOverflow ∧
    Cxx.encBody { e := .little } (.root "P" items) v = .panic .badLayout := by
  refine ⟨by rfl, by rfl⟩

/-- **KF-C14-enum-array**: `enum E : 8 { A = 1 } packet P { a: E[] }` — the view over `05 01` is valid although 5
    is not a value of the closed enum, and the getter returns it -/
theorem view_does_not_validate_enum_elements :
    let en : Enum.Decl := { width := 8, tags := [.value { id := "A", value := 1 }] }
    (viewDecode { e := .little } (.root "P" (.cons (.array "a" (.enumTy "E" en) (.static 1) .unknown none) .nil))
      [5, 1]).isOk = true ∧
    (Pdlv.decodeFull { e := .little, mode := .ideal }
      (.root "P" (.cons (.array "a" (.enumTy "E" en) (.static 1) .unknown none) .nil)) [5, 1]).isOk = false := by
  refine ⟨by rfl, by rfl⟩

/-! ### the recorded deviations, as theorems about the model (each is replayed on the emitted code) -/

/-- **KF-C14-wide-count-assert**: `struct S { _count_(a): 32, a: 32[] }` — the product `4 * count` wraps at
    2^32, the bounds check passes and the loop reads past the slice -/
theorem wide_count_reads_past_the_slice :
    Cxx.decBody { e := .little } (.root "S" (.cons (.chunk [.count "a" 32])
        (.cons (.array "a" (.scalar 32) (.static 4) .countField none) .nil)))
      [0x01, 0x00, 0x00, 0x40, 0x07, 0x00, 0x00, 0x00] = .panic .readOOB := by
  rfl

/-- … which the reference rejects with a length error -/
theorem wide_count_reference_rejects :
    Pdlv.decBody { e := .little, mode := .ideal } (.root "S" (.cons (.chunk [.count "a" 32])
        (.cons (.array "a" (.scalar 32) (.static 4) .countField none) .nil)))
      [0x01, 0x00, 0x00, 0x40, 0x07, 0x00, 0x00, 0x00] = .err .length := by
  rfl

/-- **KF-C14-padded-array-overrun**: `struct S { _count_(a): 8, a: 16[], _padding_[4], t: 8 }` — a count
    whose elements exceed the padded size is accepted, the array is not bounded by its padding -/
theorem padded_array_not_bounded :
    (Cxx.decBody { e := .little } (.root "S" (.cons (.chunk [.count "a" 8])
        (.cons (.array "a" (.scalar 16) (.static 2) .countField (some 4)) (.cons (.chunk [.scalar "t" 8]) .nil))))
      [3, 1, 0, 2, 0, 3, 0, 9]).isOk = true ∧
    (Pdlv.decBody { e := .little, mode := .ideal } (.root "S" (.cons (.chunk [.count "a" 8])
        (.cons (.array "a" (.scalar 16) (.static 2) .countField (some 4)) (.cons (.chunk [.scalar "t" 8]) .nil))))
      [3, 1, 0, 2, 0, 3, 0, 9]).isOk = false := by
  refine ⟨by rfl, by rfl⟩

/-- **KF-C14-modifier-underflow**: `packet P { _size_(a): 8, a: 8[+2] }` — a size octet below the modifier makes
    `a_size_ = a_size_ - 2` wrap in `uint8_t` (1 - 2 = 255): 255 octets that follow are accepted as the array, where the
    reference rejects a size smaller than its modifier -/
theorem size_modifier_underflow_accepts :
    let items : Items := .cons (.chunk [.size "a" 8 2]) (.cons (.array "a" (.scalar 8) (.static 1) .sizeField none) .nil)
    (viewDecode { e := .little } (.root "P" items) (1 :: List.replicate 255 7)).isOk = true ∧
    (Pdlv.decodeFull { e := .little, mode := .ideal } (.root "P" items) (1 :: List.replicate 255 7)).isOk = false := by
  refine ⟨by decide +kernel, by decide +kernel⟩

/-- … and `struct S { a: 8[2], _padding_[4], t: 8 }` (a statically counted array of scalars that fits its padding) is
    in the class of the struct parser theorem -/
example :
    let items : Items := .cons (.array "a" (.scalar 8) (.static 1) (.static 2) (some 4)) (.cons (.chunk [.scalar "t" 8]) .nil)
    wfBody (.root "S" items) = true ∧ vwfBody (.root "S" items) = true ∧
    Cxx.decBody { e := .little } (.root "S" items) [1, 2, 0, 0, 9] =
      .ok (.obj [("a", .arr [.int 1, .int 2]), ("t", .int 9)], []) := by
  refine ⟨by decide, by decide, by rfl⟩

/-! non-vacuity: `struct S { _count_(a): 8, t: 8, a: 16[], c: 1, _reserved_: 7, o: 8 if c = 1 }` is in the class -/
example :
    let items : Items := .cons (.chunk [.count "a" 8, .scalar "t" 8])
      (.cons (.array "a" (.scalar 16) (.static 2) .countField none)
      (.cons (.chunk [.flag "c" [("o", 1)], .reserved 7]) (.cons (.optional "o" (.scalar 8) "c" 1) .nil)))
    wfBody (.root "S" items) = true ∧ decWfBody (.root "S" items) = true ∧
    (Cxx.decBody { e := .little } (.root "S" items) [1, 7, 0x34, 0x12, 1, 9]).isOk = true := by
  refine ⟨by decide, by decide, by rfl⟩

/-! … and `packet P { _count_(a): 8, t: 8, a: 16[], _size_(_payload_): 8, _payload_ }` is in the class of views -/
example :
    let items : Items := .cons (.chunk [.count "a" 8, .scalar "t" 8])
      (.cons (.array "a" (.scalar 16) (.static 2) .countField none)
      (.cons (.chunk [.size "_payload_" 8 0]) (.cons (.payload (.sized 0)) .nil)))
    vwfBody (.root "P" items) = true ∧ decWfBody (.root "P" items) = true ∧
    (viewDecode { e := .little } (.root "P" items) [1, 7, 0x34, 0x12, 1, 0xaa]).isOk = true := by
  refine ⟨by decide, by decide, by rfl⟩

/-- **C14, child views: everything the reference accepts is a valid view.**  For every child packet whose own fields and
    whose ancestors' fields are in the class of the view theorem, no field called `payload`, every ancestor with a payload
    (`Cxx.vwfChain`: decidable, evaluated per run), both byte orders and EVERY byte string: if the reference `decode_full` of the
    child accepts the octets, then `RootView::Create(slice)` and the chain of `ChildView::Create(parent)` down to the child are
    all valid and the child's getters return the reference's field values. -/
theorem child_view_accepts_what_the_reference_accepts (c : Cfg) (nm : String) (parent : Body) (cs allCs : List (String × Nat))
    (items : Items) (hw : vwfChain (.derived nm parent cs allCs items) = true) (bs : Bytes) (hb : bs.length < usizeMax) (v : Value)
    (h : Pdlv.decodeFull { e := c.e, mode := .ideal } (.derived nm parent cs allCs items) bs = .ok v) :
    viewDecode c (.derived nm parent cs allCs items) bs = .ok v := by
  have hc := chain_ok c _ hw bs hb
  simp only [Pdlv.decodeFull] at h
  obtain ⟨⟨v', r⟩, hd, h2⟩ := bind_ok _ _ _ h
  simp only at h2
  split at h2
  · rename_i hr
    simp only [Outcome.ok.injEq] at h2
    subst h2
    simp only [viewDecode, hc.1 v' r hd hr, Outcome.bind]
  · cases h2

/-- **… and a valid child view is what the reference accepts, or an input whose only fault is a constraint.**  On the same
    class: if the chain of views is valid with field values `v`, the reference either accepts the octets with exactly `v`, or
    rejects them with `ConstraintValue` — the emitted `Parse` of a child view checks no constraint (KF-C14-child-constraint),
    and that is the ONLY way in which it accepts more than the reference. -/
theorem child_view_is_reference_or_constraint (c : Cfg) (nm : String) (parent : Body) (cs allCs : List (String × Nat))
    (items : Items) (hw : vwfChain (.derived nm parent cs allCs items) = true) (bs : Bytes) (hb : bs.length < usizeMax) (v : Value)
    (h : viewDecode c (.derived nm parent cs allCs items) bs = .ok v) :
    Pdlv.decodeFull { e := c.e, mode := .ideal } (.derived nm parent cs allCs items) bs = .ok v ∨
    Pdlv.decodeFull { e := c.e, mode := .ideal } (.derived nm parent cs allCs items) bs = .err .constraintValue := by
  have hc := chain_ok c _ hw bs hb
  simp only [viewDecode] at h
  obtain ⟨⟨v', hz⟩, hvb, h2⟩ := bind_ok _ _ _ h
  obtain ⟨rfl, href⟩ := hc.2.1 v' hz hvb
  simp only [Outcome.ok.injEq] at h2
  subst h2
  rcases href with ⟨r, hr, hd⟩ | hcv
  · left
    have e : Py.ideal c = { e := c.e, mode := .ideal } := rfl
    rw [e] at hd
    simp only [Pdlv.decodeFull, hd, Outcome.bind, hr, ↓reduceIte]
  · right
    have e : Py.ideal c = { e := c.e, mode := .ideal } := rfl
    rw [e] at hcv
    simp only [Pdlv.decodeFull, hcv, Outcome.bind]

/-- **C14, child views: no undefined behaviour.**  On the same class, with the hypotheses of C01 on every level
    (`decWfBody`), constructing the chain of views over ANY byte string and calling the child's getters reaches no slice
    accessor called beyond its slice, no remainder by zero and no endless loop — also on inputs whose constraints do not
    hold, which the emitted child views go on to parse. -/
theorem child_view_no_undefined_behaviour (c : Cfg) (nm : String) (parent : Body) (cs allCs : List (String × Nat))
    (items : Items) (hw : vwfChain (.derived nm parent cs allCs items) = true)
    (hd : decWfBody (.derived nm parent cs allCs items) = true) (bs : Bytes) (hb : bs.length < usizeMax) (h : Hazard) :
    viewDecode c (.derived nm parent cs allCs items) bs ≠ .panic h := by
  intro hp
  simp only [viewDecode] at hp
  cases hv : viewBody c (.derived nm parent cs allCs items) bs with
  | panic h0 => exact chain_no_panic c _ hw hd bs hb h0 hv
  | err e => simp [hv, Outcome.bind] at hp
  | ok a =>
    obtain ⟨v, hz⟩ := a
    obtain ⟨rfl, _⟩ := (chain_ok c _ hw bs hb).2.1 v hz hv
    simp [hv, Outcome.bind] at hp

/-- **KF-C14-child-constraint**, derived from the model: `packet R { k: 8, _payload_ }`, `packet C : R (k = 3) { x: 8 }` —
    over `04 07` the chain of views is valid (`GetX()` = 7, `GetK()` would return the constant 3) although `k = 4`; the
    reference rejects the octets with `ConstraintValue` -/
theorem child_view_does_not_check_constraints :
    let root : Body := .root "R" (.cons (.chunk [.scalar "k" 8]) (.cons (.payload .last) .nil))
    let ch : Body := .derived "C" root [("k", 3)] [("k", 3)] (.cons (.chunk [.scalar "x" 8]) .nil)
    vwfChain ch = true ∧
    viewDecode { e := .little } ch [4, 7] = .ok (.obj [("x", .int 7)]) ∧
    Pdlv.decodeFull { e := .little, mode := .ideal } ch [4, 7] = .err .constraintValue ∧
    viewDecode { e := .little } ch [3, 7] = .ok (.obj [("x", .int 7)]) ∧
    Pdlv.decodeFull { e := .little, mode := .ideal } ch [3, 7] = .ok (.obj [("x", .int 7)]) := by
  refine ⟨by decide, by rfl, by rfl, by rfl, by rfl⟩

end Cxx
end Pdlv
