/-
  C08 — the analyzer rejects every ill-formed description with a diagnostic carrying the
  rule's code.

  Statements about the model `Pdlv.Analyzer.analyze` (pass by pass as in analyzer.rs), which is
  compared with the real analyzer on every run: verdict, ordered code list and label ranges.
  The numeric rules are stated against arithmetic (2^w), not against the implementation's
  bit tricks (`bit_width`, `leading_zeros`, `1 << width`).
-/
import Pdlv.Analyzer

namespace Pdlv
namespace Analyzer

/-- `bit_width(v) > w` is exactly `v ≥ 2^w` — for every w, including 0 and 64 -/
theorem bitWidth_gt_iff (v w : Nat) : bitWidth v > w ↔ v ≥ 2 ^ w := by
  unfold bitWidth
  by_cases hv : v = 0
  · subst hv
    have : 0 < 2 ^ w := Nat.two_pow_pos w
    simp
  · simp only [hv, ↓reduceIte]
    have h := @Nat.log2_lt v w hv
    constructor
    · intro hgt
      rcases Nat.lt_or_ge v (2 ^ w) with hlt | hge
      · have := h.mpr hlt; omega
      · exact hge
    · intro hge
      rcases Nat.lt_or_ge v.log2 w with hlt | hge2
      · have := h.mp hlt; omega
      · omega

/-- `scalar_max(w)` is `2^w - 1` below 64 bits: a value is in range iff it is below `2^w` -/
theorem le_scalarMax_iff (v w : Nat) (hw : w < 64) : v ≤ scalarMax w ↔ v < 2 ^ w := by
  unfold scalarMax
  have : ¬ 64 ≤ w := by omega
  simp only [this, ↓reduceIte]
  have : 0 < 2 ^ w := Nat.two_pow_pos w
  omega

/-- **E32 (FixedValueOutOfRange)**: a fixed scalar field is reported iff its value does not fit
    its width — `_fixed_ = 2^w : w` is rejected, `_fixed_ = 2^w - 1 : w` is not -/
theorem fixed_value_rule (fl : Field) (w v : Nat) (hfl : fl.desc = .fixedScalar w v) :
    (match fl.desc with
      | .fixedScalar w v => if bitWidth v > w then [mkD 32 [fl.loc]] else []
      | _ => []) = (if v ≥ 2 ^ w then [mkD 32 [fl.loc]] else []) := by
  rw [hfl]
  simp only
  by_cases h : v ≥ 2 ^ w
  · simp [h, (bitWidth_gt_iff v w).mpr h]
  · have : ¬ bitWidth v > w := fun hh => h ((bitWidth_gt_iff v w).mp hh)
    simp [h, this]

/-- **E18 (ConstraintValueOutOfRange)**: a scalar constraint is reported iff the value does not
    fit the constrained field's width -/
theorem constraint_value_rule (f : File) (c : Constraint) (decl : Decl) (fl : Field) (id : String) (w v : Nat)
    (hfind : (iterFields f (f.decls.length + 1) decl).find? (fun g => g.id? == some c.id) = some fl)
    (hfl : fl.desc = .scalar id w) (hv : c.value = some v) :
    checkConstraint f c decl = (if v ≥ 2 ^ w then ([mkD 18 [c.loc, fl.loc]], none) else ([], none)) := by
  unfold checkConstraint
  rw [hfind]
  simp only [hfl, hv]
  by_cases h : v ≥ 2 ^ w
  · simp [h, (bitWidth_gt_iff v w).mpr h]
  · have : ¬ bitWidth v > w := fun hh => h ((bitWidth_gt_iff v w).mp hh)
    simp [h, this]

/-- **E15**: a constraint on an identifier that no field of the declaration or of its ancestors
    carries is reported as undeclared -/
theorem constraint_undeclared_rule (f : File) (c : Constraint) (decl : Decl)
    (h : (iterFields f (f.decls.length + 1) decl).find? (fun g => g.id? == some c.id) = none) :
    checkConstraint f c decl = ([mkD 15 [c.loc]], none) := by
  unfold checkConstraint; rw [h]

/-- **E14 (InvalidTagValue)**: a tag value outside `lo..hi` is reported -/
theorem tag_value_rule (t : TagV) (lo hi : Nat) (st : EnumSt) (h : ¬ (lo ≤ t.value ∧ t.value ≤ hi)) :
    ∃ d ∈ (checkTagValue t lo hi [] st).diags, d.code = 14 := by
  unfold checkTagValue
  simp only [List.foldl_nil, h, ↓reduceIte]
  refine ⟨mkD 14 [t.loc], ?_, rfl⟩
  simp

/-- **No ill-formed description reaches a back end**: when `analyze` returns a file, every pass
    of the pipeline reported nothing on its input — in particular the first passes on the
    source file itself. -/
theorem analyze_ok_first_passes (f f' : File) (h : analyze f = .ok f') :
    scopeDiags f = [] ∧ ∃ g, checkDeclIdentifiers f = .ok g ∧ checkFieldIdentifiers g = [] ∧
      checkEnumDeclarations g = [] ∧ checkSizeFields g = [] ∧ checkFixedFields g = [] ∧
      checkPayloadFields g = [] ∧ checkArrayFields g = [] ∧ checkPaddingFields g = [] := by
  unfold analyze firstErr at h
  by_cases h1 : (scopeDiags f).isEmpty
  · simp only [h1, ↓reduceIte] at h
    refine ⟨by simpa using h1, ?_⟩
    cases hg : checkDeclIdentifiers f with
    | diags ds => simp [hg] at h
    | panic p => simp [hg] at h
    | ok g =>
      simp only [hg] at h
      refine ⟨g, rfl, ?_⟩
      by_cases a1 : (checkFieldIdentifiers g).isEmpty <;> simp only [a1, ↓reduceIte] at h
      · by_cases a2 : (checkEnumDeclarations g).isEmpty <;> simp only [a2, ↓reduceIte] at h
        · by_cases a3 : (checkSizeFields g).isEmpty <;> simp only [a3, ↓reduceIte] at h
          · by_cases a4 : (checkFixedFields g).isEmpty <;> simp only [a4, ↓reduceIte] at h
            · by_cases a5 : (checkPayloadFields g).isEmpty <;> simp only [a5, ↓reduceIte] at h
              · by_cases a6 : (checkArrayFields g).isEmpty <;> simp only [a6, ↓reduceIte] at h
                · by_cases a7 : (checkPaddingFields g).isEmpty <;> simp only [a7, ↓reduceIte] at h
                  · exact ⟨by simpa using a1, by simpa using a2, by simpa using a3, by simpa using a4,
                      by simpa using a5, by simpa using a6, by simpa using a7⟩
                  · cases h
                · cases h
              · cases h
            · cases h
          · cases h
        · cases h
      · cases h
  · simp [h1] at h

/-- duplicate declaration identifiers are always reported (E1) -/
theorem duplicate_decl_reported (d1 d2 : Decl) (id : String) (e : Endian)
    (h1 : d1.id? = some id) (h2 : d2.id? = some id) :
    ∃ x ∈ scopeDiags { endian := e, decls := [d1, d2] }, x.code = 1 := by
  refine ⟨mkD 1 [d2.loc, d1.loc], ?_, rfl⟩
  simp [scopeDiags, scopeDiags.go, h1, h2, List.lookup]


/-! ### accepted ⇒ the rule holds: one declarative statement per pass (the contrapositive of "rejected with the rule's code") -/

theorem flatMap_nil_iff {α β : Type} (l : List α) (g : α → List β) : l.flatMap g = [] ↔ ∀ a ∈ l, g a = [] := by
  induction l with
  | nil => simp
  | cons a l ih => simp [List.flatMap_cons, ih]

/-- **E32 – E35.**  If the fixed-field pass reports nothing, every `_fixed_ = v : w` has `v < 2^w`, and every
    `_fixed_ = TAG : Enum` names a declared enum that has that tag -/
theorem fixed_fields_ok (f : File) (h : checkFixedFields f = []) (d : Decl) (hd : d ∈ f.decls) (fl : Field)
    (hfl : fl ∈ d.fields) :
    (∀ w v, fl.desc = .fixedScalar w v → v < 2 ^ w) ∧
    (∀ en tag, fl.desc = .fixedEnum en tag → ∃ e id tags w, lookupDecl f en = some e ∧ e.desc = .enum id tags w ∧
      tags.any (·.id == tag) = true) := by
  simp only [checkFixedFields, perDecl] at h
  have h1 := (flatMap_nil_iff _ _).mp h d hd
  have h2 := (flatMap_nil_iff _ _).mp h1 fl hfl
  constructor
  · intro w v hdesc
    simp only [hdesc] at h2
    by_cases hb : bitWidth v > w
    · simp [hb] at h2
    · have : ¬ v ≥ 2 ^ w := fun hv => hb ((bitWidth_gt_iff v w).mpr hv)
      omega
  · intro en tag hdesc
    simp only [hdesc] at h2
    cases hl : lookupDecl f en with
    | none => simp [hl] at h2
    | some e =>
      simp only [hl] at h2
      cases he : e.desc with
      | enum id tags w =>
        simp only [he] at h2
        by_cases ht : tags.any (·.id == tag) = true
        · exact ⟨e, id, tags, w, rfl, he, ht⟩
        · simp [ht] at h2
      | _ => simp [he] at h2

/-- the fields of a declaration in which every `_padding_` directly follows an array field -/
def paddingOk : Bool → List Field → Bool
  | _, [] => true
  | prevArr, fl :: fs =>
    match fl.desc with
    | .padding _ => prevArr && paddingOk false fs
    | .array .. => paddingOk true fs
    | _ => paddingOk false fs

theorem padding_go_ok : ∀ (fs : List Field) (prevArr : Bool), checkPaddingFields.go prevArr fs = [] →
    paddingOk prevArr fs = true
  | [], _, _ => rfl
  | fl :: fs, prevArr, h => by
    simp only [checkPaddingFields.go] at h
    simp only [paddingOk]
    cases hdesc : fl.desc with
    | padding n =>
      simp only [hdesc, List.append_eq_nil_iff] at h
      cases prevArr with
      | false => simp at h
      | true => simpa using padding_go_ok fs false h.2
    | array a b c d e =>
      simp only [hdesc] at h
      exact padding_go_ok fs true h
    | _ =>
      simp only [hdesc] at h
      exact padding_go_ok fs false h

/-- **E39.**  If the padding pass reports nothing, in every declaration every `_padding_` field directly
    follows an array field (so never another `_padding_`, never the first field) -/
theorem padding_fields_ok (f : File) (h : checkPaddingFields f = []) (d : Decl) (hd : d ∈ f.decls) :
    paddingOk false d.fields = true := by
  simp only [checkPaddingFields, perDecl] at h
  exact padding_go_ok d.fields false ((flatMap_nil_iff _ _).mp h d hd)

/-- the number of `_payload_` / `_body_` fields of a field list -/
def payloadCount (fs : List Field) : Nat := (fs.filter isPayloadField).length

theorem payload_go_ok : ∀ (fs : List Field) (prev : Option Field), (checkPayloadFields.go prev fs).1 = [] →
    payloadCount fs + (if prev.isSome then 1 else 0) ≤ 1
  | [], prev, _ => by cases prev <;> simp [payloadCount]
  | fl :: fs, prev, h => by
    simp only [checkPayloadFields.go] at h
    by_cases hp : isPayloadField fl = true
    · simp only [hp, ↓reduceIte] at h
      cases prev with
      | some p => simp at h
      | none =>
        have := payload_go_ok fs (some fl) h
        simp only [payloadCount, List.filter, hp, List.length_cons] at this ⊢
        simp only [Option.isSome_some, ↓reduceIte] at this
        simp only [Option.isSome_none, Bool.false_eq_true, ↓reduceIte]
        exact this
    · have hp' : isPayloadField fl = false := by simpa using hp
      simp only [hp', Bool.false_eq_true, ↓reduceIte] at h
      have := payload_go_ok fs prev h
      simpa [payloadCount, List.filter, hp'] using this

/-- **E36.**  If the payload pass reports nothing, no declaration has two `_payload_` / `_body_` fields -/
theorem payload_fields_ok (f : File) (h : checkPayloadFields f = []) (d : Decl) (hd : d ∈ f.decls) :
    payloadCount d.fields ≤ 1 := by
  simp only [checkPayloadFields, perDecl] at h
  have h1 := (flatMap_nil_iff _ _).mp h d hd
  simp only [List.append_eq_nil_iff] at h1
  have := payload_go_ok d.fields none h1.1
  simpa using this


/-- the identifiers of the fields that have one -/
def fieldIds (fs : List Field) : List String := fs.filterMap Field.id?

theorem fieldIdGo_nil_iff (seen : List (String × Field)) (fs : List Field) :
    checkFieldIdentifiers.go seen fs = [] ↔
      (fieldIds fs).Nodup ∧ ∀ id ∈ fieldIds fs, seen.lookup id = none := by
  induction fs generalizing seen with
  | nil => simp [checkFieldIdentifiers.go, fieldIds]
  | cons fl fs ih =>
    cases hid : fl.id? with
    | none => simp [checkFieldIdentifiers.go, hid, ih, fieldIds]
    | some id =>
      simp only [checkFieldIdentifiers.go, hid]
      cases hl : seen.lookup id with
      | some prev =>
        simp only [List.cons_ne_nil, false_iff, not_and]
        intro _ hall
        have := hall id (by simp [fieldIds, List.filterMap_cons, hid])
        rw [hl] at this
        cases this
      | none =>
        simp only [ih, fieldIds, List.filterMap_cons, hid, List.nodup_cons, List.mem_cons, forall_eq_or_imp, hl, true_and]
        constructor
        · rintro ⟨hnd, hall⟩
          refine ⟨⟨?_, hnd⟩, ?_⟩
          · intro hmem
            have := hall id hmem
            simp [List.lookup] at this
          · intro x hx
            have := hall x hx
            by_cases hxe : x = id
            · subst hxe; simp [List.lookup] at this
            · have hne : (x == id) = false := by simpa using hxe
              simpa [List.lookup, hne] using this
        · rintro ⟨⟨hnot, hnd⟩, hall⟩
          refine ⟨hnd, ?_⟩
          intro x hx
          have hxe : x ≠ id := fun h => hnot (h ▸ hx)
          have hne : (x == id) = false := by simpa using hxe
          simpa [List.lookup, hne] using hall x hx

/-- **E11.**  If the field-identifier pass reports nothing, the named fields of every declaration have
    distinct identifiers -/
theorem field_identifiers_ok (f : File) (h : checkFieldIdentifiers f = []) (d : Decl) (hd : d ∈ f.decls) :
    (fieldIds d.fields).Nodup := by
  simp only [checkFieldIdentifiers, perDecl] at h
  have := (flatMap_nil_iff _ _).mp h d hd
  exact ((fieldIdGo_nil_iff [] d.fields).mp this).1

/-- **E38.**  If the array pass reports nothing, no array with a constant count also has a size or count field -/
theorem array_fields_ok (f : File) (h : checkArrayFields f = []) (d : Decl) (hd : d ∈ f.decls) (fl : Field)
    (hfl : fl ∈ d.fields) (id : String) (w : Option Nat) (t m : Option String) (n : Nat)
    (hdesc : fl.desc = .array id w t m (some n)) :
    ∀ g ∈ d.fields, (∀ t' w', g.desc = .size t' w' → t' ≠ id) ∧ (∀ t' w', g.desc = .count t' w' → t' ≠ id) := by
  simp only [checkArrayFields, perDecl] at h
  have h1 := (flatMap_nil_iff _ _).mp h d hd
  have h2 := (flatMap_nil_iff _ _).mp h1 fl hfl
  simp only [hdesc] at h2
  split at h2
  · cases h2
  · rename_i hfind
    rw [List.find?_eq_none] at hfind
    intro g hg
    have := hfind g hg
    constructor
    · intro t' w' hgd; simp only [hgd] at this; simpa using this
    · intro t' w' hgd; simp only [hgd] at this; simpa using this


/-- what the size pass demands of one field: the target of a size field exists and is the payload / body or an
    array; the target of a count or element-size field exists and is an array -/
def sizeTargetOk (d : Decl) (fl : Field) : Prop :=
  (∀ t w, fl.desc = .size t w → ∃ g, findSizeTarget d t = some g ∧
      (g.desc = .body ∨ (∃ m, g.desc = .payload m) ∨ ∃ a b c e k, g.desc = .array a b c e k)) ∧
  (∀ t w, fl.desc = .count t w → ∃ g, d.fields.find? (fun g => g.id? == some t) = some g ∧
      ∃ a b c e k, g.desc = .array a b c e k) ∧
  (∀ t w, fl.desc = .elementSize t w → ∃ g, d.fields.find? (fun g => g.id? == some t) = some g ∧
      ∃ a b c e k, g.desc = .array a b c e k)

theorem size_go_ok (d : Decl) : ∀ (fs : List Field) (sizeFor esizeFor : List (String × Field)),
    checkSizeFields.go d sizeFor esizeFor fs = [] → ∀ fl ∈ fs, sizeTargetOk d fl
  | [], _, _, _, fl, hfl => by cases hfl
  | f0 :: fs, sizeFor, esizeFor, h, fl, hfl => by
    simp only [checkSizeFields.go, List.append_eq_nil_iff] at h
    obtain ⟨⟨_, hinv⟩, hrest⟩ := h
    rcases List.mem_cons.mp hfl with rfl | hfl'
    · refine ⟨?_, ?_, ?_⟩
      · intro t w hdesc
        simp only [hdesc] at hinv
        cases hft : findSizeTarget d t with
        | none => simp [hft] at hinv
        | some g =>
          simp only [hft] at hinv
          refine ⟨g, rfl, ?_⟩
          cases hg : g.desc <;> simp [hg] at hinv ⊢
      · intro t w hdesc
        simp only [hdesc] at hinv
        cases hft : d.fields.find? (fun g => g.id? == some t) with
        | none => simp [hft] at hinv
        | some g =>
          simp only [hft] at hinv
          refine ⟨g, rfl, ?_⟩
          cases hg : g.desc <;> simp [hg] at hinv ⊢
      · intro t w hdesc
        simp only [hdesc] at hinv
        cases hft : d.fields.find? (fun g => g.id? == some t) with
        | none => simp [hft] at hinv
        | some g =>
          simp only [hft] at hinv
          refine ⟨g, rfl, ?_⟩
          cases hg : g.desc <;> simp [hg] at hinv ⊢
    · exact size_go_ok d fs _ _ hrest fl hfl'

/-- **E24, E25, E27, E28, E30, E31.**  If the size pass reports nothing, every size / count / element-size field
    of every declaration designates a field of that declaration of the right kind -/
theorem size_fields_ok (f : File) (h : checkSizeFields f = []) (d : Decl) (hd : d ∈ f.decls) (fl : Field)
    (hfl : fl ∈ d.fields) : sizeTargetOk d fl := by
  simp only [checkSizeFields, perDecl] at h
  exact size_go_ok d d.fields [] [] ((flatMap_nil_iff _ _).mp h d hd) fl hfl

/-- **No description violating E11, E32–E36, E38 or E39 reaches a back end**: whenever `analyze` returns a file, the
    declarations it analyzed (`g`: the source declarations in dependency order) satisfy those rules as stated
    declaratively above — for every declaration and every field, at every position -/
theorem analyze_ok_rules (f f' : File) (h : analyze f = .ok f') :
    ∃ g, checkDeclIdentifiers f = .ok g ∧ ∀ d ∈ g.decls,
      (fieldIds d.fields).Nodup ∧ paddingOk false d.fields = true ∧ payloadCount d.fields ≤ 1 ∧
      ∀ fl ∈ d.fields, (∀ w v, fl.desc = .fixedScalar w v → v < 2 ^ w) ∧
        (∀ en tag, fl.desc = .fixedEnum en tag → ∃ e id tags w, lookupDecl g en = some e ∧ e.desc = .enum id tags w ∧
          tags.any (·.id == tag) = true) ∧
        (∀ id w t m n, fl.desc = .array id w t m (some n) →
          ∀ s ∈ d.fields, (∀ t' w', s.desc = .size t' w' → t' ≠ id) ∧ (∀ t' w', s.desc = .count t' w' → t' ≠ id)) := by
  obtain ⟨_, g, hg, hfid, _, _, hfix, hpay, harr, hpad⟩ := analyze_ok_first_passes f f' h
  exact ⟨g, hg, fun d hd => ⟨field_identifiers_ok g hfid d hd, padding_fields_ok g hpad d hd, payload_fields_ok g hpay d hd,
    fun fl hfl => ⟨(fixed_fields_ok g hfix d hd fl hfl).1, (fixed_fields_ok g hfix d hd fl hfl).2,
      fun id w t m n hdesc => array_fields_ok g harr d hd fl hfl id w t m n hdesc⟩⟩⟩

/-! non-vacuity: two consecutive `_padding_` fields after an array are not `paddingOk`, one is -/
example : paddingOk false [{ desc := .array "x" (some 8) none none none, loc := default },
    { desc := .padding 4, loc := default }, { desc := .padding 4, loc := default }] = false := by rfl
example : paddingOk false [{ desc := .array "x" (some 8) none none none, loc := default },
    { desc := .padding 4, loc := default }] = true := by rfl

/-! ### non-vacuity: the boundary cases evaluate as stated -/
example : bitWidth 256 > 8 ∧ ¬ bitWidth 255 > 8 := by decide
example : bitWidth (2 ^ 63) > 63 ∧ ¬ bitWidth (2 ^ 63 - 1) > 63 := by
  constructor
  · exact (bitWidth_gt_iff _ _).mpr (by omega)
  · intro h; have := (bitWidth_gt_iff _ _).mp h; omega

end Analyzer
end Pdlv
