/-
  C08 — the analyzer rejects every ill-formed description with a diagnostic carrying the
  rule's code.

  Statements about the model `Pdlv.Analyzer.analyze` (pass by pass as in analyzer.rs), which is
  compared with the real analyzer on every run: verdict, ordered code list and label ranges.
  The numeric rules are stated against arithmetic (2^w), not against the implementation's
  bit tricks (`bit_width`, `leading_zeros`, `1 << width`).
-/
import Pdlv.Analyzer

namespace Pdlv
namespace Analyzer

/-- `bit_width(v) > w` is exactly `v ≥ 2^w` — for every w, including 0 and 64 -/
theorem bitWidth_gt_iff (v w : Nat) : bitWidth v > w ↔ v ≥ 2 ^ w := by
  unfold bitWidth
  by_cases hv : v = 0
  · subst hv
    have : 0 < 2 ^ w := Nat.two_pow_pos w
    simp
  · simp only [hv, ↓reduceIte]
    have h := @Nat.log2_lt v w hv
    constructor
    · intro hgt
      rcases Nat.lt_or_ge v (2 ^ w) with hlt | hge
      · have := h.mpr hlt; omega
      · exact hge
    · intro hge
      rcases Nat.lt_or_ge v.log2 w with hlt | hge2
      · have := h.mp hlt; omega
      · omega

/-- `scalar_max(w)` is `2^w - 1` below 64 bits: a value is in range iff it is below `2^w` -/
theorem le_scalarMax_iff (v w : Nat) (hw : w < 64) : v ≤ scalarMax w ↔ v < 2 ^ w := by
  unfold scalarMax
  have : ¬ 64 ≤ w := by omega
  simp only [this, ↓reduceIte]
  have : 0 < 2 ^ w := Nat.two_pow_pos w
  omega

/-- **E32 (FixedValueOutOfRange)**: a fixed scalar field is reported iff its value does not fit
    its width — `_fixed_ = 2^w : w` is rejected, `_fixed_ = 2^w - 1 : w` is not -/
theorem fixed_value_rule (fl : Field) (w v : Nat) (hfl : fl.desc = .fixedScalar w v) :
    (match fl.desc with
      | .fixedScalar w v => if bitWidth v > w then [mkD 32 [fl.loc]] else []
      | _ => []) = (if v ≥ 2 ^ w then [mkD 32 [fl.loc]] else []) := by
  rw [hfl]
  simp only
  by_cases h : v ≥ 2 ^ w
  · simp [h, (bitWidth_gt_iff v w).mpr h]
  · have : ¬ bitWidth v > w := fun hh => h ((bitWidth_gt_iff v w).mp hh)
    simp [h, this]

/-- **E18 (ConstraintValueOutOfRange)**: a scalar constraint is reported iff the value does not
    fit the constrained field's width -/
theorem constraint_value_rule (f : File) (c : Constraint) (decl : Decl) (fl : Field) (id : String) (w v : Nat)
    (hfind : (iterFields f (f.decls.length + 1) decl).find? (fun g => g.id? == some c.id) = some fl)
    (hfl : fl.desc = .scalar id w) (hv : c.value = some v) :
    checkConstraint f c decl = (if v ≥ 2 ^ w then ([mkD 18 [c.loc, fl.loc]], none) else ([], none)) := by
  unfold checkConstraint
  rw [hfind]
  simp only [hfl, hv]
  by_cases h : v ≥ 2 ^ w
  · simp [h, (bitWidth_gt_iff v w).mpr h]
  · have : ¬ bitWidth v > w := fun hh => h ((bitWidth_gt_iff v w).mp hh)
    simp [h, this]

/-- **E15**: a constraint on an identifier that no field of the declaration or of its ancestors
    carries is reported as undeclared -/
theorem constraint_undeclared_rule (f : File) (c : Constraint) (decl : Decl)
    (h : (iterFields f (f.decls.length + 1) decl).find? (fun g => g.id? == some c.id) = none) :
    checkConstraint f c decl = ([mkD 15 [c.loc]], none) := by
  unfold checkConstraint; rw [h]

/-- **E14 (InvalidTagValue)**: a tag value outside `lo..hi` is reported -/
theorem tag_value_rule (t : TagV) (lo hi : Nat) (st : EnumSt) (h : ¬ (lo ≤ t.value ∧ t.value ≤ hi)) :
    ∃ d ∈ (checkTagValue t lo hi [] st).diags, d.code = 14 := by
  unfold checkTagValue
  simp only [List.foldl_nil, h, ↓reduceIte]
  refine ⟨mkD 14 [t.loc], ?_, rfl⟩
  simp

/-- **No ill-formed description reaches a back end**: when `analyze` returns a file, every pass
    of the pipeline reported nothing on its input — in particular the first passes on the
    source file itself. -/
theorem analyze_ok_first_passes (f f' : File) (h : analyze f = .ok f') :
    scopeDiags f = [] ∧ ∃ g, checkDeclIdentifiers f = .ok g ∧ checkFieldIdentifiers g = [] ∧
      checkEnumDeclarations g = [] ∧ checkSizeFields g = [] ∧ checkFixedFields g = [] ∧
      checkPayloadFields g = [] ∧ checkArrayFields g = [] ∧ checkPaddingFields g = [] := by
  unfold analyze firstErr at h
  by_cases h1 : (scopeDiags f).isEmpty
  · simp only [h1, ↓reduceIte] at h
    refine ⟨by simpa using h1, ?_⟩
    cases hg : checkDeclIdentifiers f with
    | diags ds => simp [hg] at h
    | panic p => simp [hg] at h
    | ok g =>
      simp only [hg] at h
      refine ⟨g, rfl, ?_⟩
      by_cases a1 : (checkFieldIdentifiers g).isEmpty <;> simp only [a1, ↓reduceIte] at h
      · by_cases a2 : (checkEnumDeclarations g).isEmpty <;> simp only [a2, ↓reduceIte] at h
        · by_cases a3 : (checkSizeFields g).isEmpty <;> simp only [a3, ↓reduceIte] at h
          · by_cases a4 : (checkFixedFields g).isEmpty <;> simp only [a4, ↓reduceIte] at h
            · by_cases a5 : (checkPayloadFields g).isEmpty <;> simp only [a5, ↓reduceIte] at h
              · by_cases a6 : (checkArrayFields g).isEmpty <;> simp only [a6, ↓reduceIte] at h
                · by_cases a7 : (checkPaddingFields g).isEmpty <;> simp only [a7, ↓reduceIte] at h
                  · exact ⟨by simpa using a1, by simpa using a2, by simpa using a3, by simpa using a4,
                      by simpa using a5, by simpa using a6, by simpa using a7⟩
                  · cases h
                · cases h
              · cases h
            · cases h
          · cases h
        · cases h
      · cases h
  · simp [h1] at h

/-- duplicate declaration identifiers are always reported (E1) -/
theorem duplicate_decl_reported (d1 d2 : Decl) (id : String) (e : Endian)
    (h1 : d1.id? = some id) (h2 : d2.id? = some id) :
    ∃ x ∈ scopeDiags { endian := e, decls := [d1, d2] }, x.code = 1 := by
  refine ⟨mkD 1 [d2.loc, d1.loc], ?_, rfl⟩
  simp [scopeDiags, scopeDiags.go, h1, h2, List.lookup]

/-! ### non-vacuity: the boundary cases evaluate as stated -/
example : bitWidth 256 > 8 ∧ ¬ bitWidth 255 > 8 := by decide
example : bitWidth (2 ^ 63) > 63 ∧ ¬ bitWidth (2 ^ 63 - 1) > 63 := by
  constructor
  · exact (bitWidth_gt_iff _ _).mpr (by omega)
  · intro h; have := (bitWidth_gt_iff _ _).mp h; omega

end Analyzer
end Pdlv
