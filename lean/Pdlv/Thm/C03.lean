/-
  C03 — the Rust encoder emits exactly the wire format of the language reference.

  `Pdlv.Ref` is the reference at the level of bits (written from doc/reference.md); the emitted
  code works with shifts, ors and `put_uint`.  `Pdlv.Lemmas.RefBits` holds the arithmetic that
  connects the two formulations (`bitsOf_append`, `groupBytes_eq_putUint`, …); this file states
  the whole-packet result: the encoder model in reference mode (`Mode.ideal` — the executable
  reference every back end is compared with) writes exactly `Ref.encode`.
-/
import Pdlv.Lemmas.RefBits
import Pdlv.Lemmas.RefEq

namespace Pdlv
open Ref

/-- integer leaves: `put_uint{_le}(x, w/8)` writes the reference bit stream of `x` -/
theorem intBytes_ref (e : Endian) (w x : Nat) (hw : w % 8 = 0) :
    groupBytes e (bitsOf w x) = putUint e w x := by
  have : w = 8 * (w / 8) := by omega
  rw [this]; exact groupBytes_eq_putUint e (w / 8) x

theorem listField_get (v : Value) (id : String) (vs : List Value) (h : listField v id = .ok vs) :
    v.get? id = some (.arr vs) := by
  simp only [listField] at h
  split at h
  · rename_i ws hws; simp only [Outcome.ok.injEq] at h; rw [hws, h]
  · cases h

mutual
theorem encTy_ref (c : Cfg) (hm : c.mode = .ideal) : ∀ (ty : Ty) (x : Value) (bs : Bytes),
    refWfTy ty = true → encTy c ty x = .ok bs → Ref.encTy c.e ty x = some bs
  | .scalar w, x, bs, hw, he => by
    simp only [refWfTy, beq_iff_eq] at hw
    cases x with
    | int n =>
      simp only [encTy, elemOutOfRange, hm] at he
      split at he
      · cases he
      · split at he
        · cases he
        · rename_i h1 h2
          simp only [Outcome.ok.injEq] at he
          have hlt : n < 2 ^ w := by
            have hpos : 0 < 2 ^ w := Nat.two_pow_pos w
            have : ¬ n > maskBits w := by simpa using h2
            unfold maskBits at this; omega
          simp only [Ref.encTy, fits, hlt, decide_true, ↓reduceIte, intBytes_ref c.e w n hw, he]
    | arr _ => simp [encTy] at he
    | obj _ => simp [encTy] at he
    | null => simp [encTy] at he
  | .enumTy nm en, x, bs, hw, he => by
    simp only [refWfTy, beq_iff_eq] at hw
    cases x with
    | int n =>
      simp only [encTy] at he
      split at he
      · rename_i hok
        simp only [Outcome.ok.injEq] at he
        simp only [Ref.encTy, hok, ↓reduceIte, intBytes_ref c.e en.width n hw, he]
      · cases he
    | arr _ => simp [encTy] at he
    | obj _ => simp [encTy] at he
    | null => simp [encTy] at he
  | .custom nm w, x, bs, hw, he => by
    simp only [refWfTy, beq_iff_eq] at hw
    cases x with
    | int n =>
      simp only [encTy] at he
      split at he
      · rename_i hlt
        simp only [Outcome.ok.injEq] at he
        simp only [Ref.encTy, fits, hlt, decide_true, ↓reduceIte, intBytes_ref c.e w n hw, he]
      · cases he
    | arr _ => simp [encTy] at he
    | obj _ => simp [encTy] at he
    | null => simp [encTy] at he
  | .struct _ (.root nm items), x, bs, hw, he => by
    simp only [refWfTy, Bool.and_eq_true, decide_eq_true_eq] at hw
    simp only [encTy, encBody] at he
    simp only [Ref.encTy, Ref.encBody]
    split at he
    · cases he
    · rename_i p hp
      simp only [hp]
      obtain ⟨h1, h2⟩ := wireArrs_ref c hm items (.ok p) p.length x items bs hw.1.1 he
      simp only [h1]
      have hnd' : ((wireArrs c items x).map (·.id)).Nodup := (wireArrs_ids_sublist c x items).nodup hw.2
      exact encItems_ref c hm items p x (wireArrs c items x) h2 hnd' items bs hw.1.1 (fun a ha => ha) he
  | .struct _ (.derived ..), x, bs, hw, he => by simp [refWfTy] at hw

/-- the reference computes exactly the array table of the encoder model, and the table has the
    sizes, counts and element sizes the chunk encoder derives from the value -/
theorem wireArrs_ref (c : Cfg) (hm : c.mode = .ideal) (all : Items) (p : Enc Bytes) (pl : Nat) (v : Value) :
    ∀ (is : Items) (bs : Bytes), refWfItems all is = true → encItems c all p pl v is = .ok bs →
      Ref.arrays c.e is v = some (wireArrs c is v) ∧ ArrCorr is v (wireArrs c is v)
  | .nil, bs, _, _ => by
    refine ⟨by simp [Ref.arrays, wireArrs], ?_⟩
    intro t elem ew h; simp [firstArray] at h
  | .cons i r, bs, hw, he => by
    simp only [refWfItems, Bool.and_eq_true] at hw
    simp only [encItems] at he
    obtain ⟨a, ha, h2⟩ := bind_ok _ _ _ he
    obtain ⟨b, hb, _⟩ := bind_ok _ _ _ h2
    obtain ⟨ih1, ih2⟩ := wireArrs_ref c hm all p pl v r b hw.2 hb
    cases i with
    | array id elem ew shape pad =>
      simp only [refWfItem, Bool.and_eq_true] at hw
      simp only [encItem] at ha
      obtain ⟨vs, hvs, h3⟩ := bind_ok _ _ _ ha
      obtain ⟨_, _, h4⟩ := bind_ok _ _ _ h3
      obtain ⟨_, _, h5⟩ := bind_ok _ _ _ h4
      obtain ⟨es, hes, _⟩ := bind_ok _ _ _ h5
      have hget := listField_get v id vs hvs
      have hel := encElems_of_encListWith (encTy c elem) (Ref.encTy c.e elem) (lenTy elem)
        (fun x b hx => ⟨encTy_ref c hm elem x b hw.1.1 hx, encTy_len c elem x b hw.1.2 hx⟩) vs es hes
      have hlen : es.length = sumLen (lenTy elem) vs :=
        encListWith_length (encTy c elem) (lenTy elem) (fun x b hx => encTy_len c elem x b hw.1.2 hx) vs es hes
      refine ⟨by simp only [Ref.arrays, hget, hel, ih1, wireArrs, hes], ?_⟩
      intro t el ew' hfa
      simp only [firstArray] at hfa
      simp only [wireArrs, hget, hes]
      by_cases hid : (id == t) = true
      · simp only [hid, ↓reduceIte, Option.some.injEq, Prod.mk.injEq] at hfa
        have hid' : id = t := by simpa using hid
        refine ⟨{ id := id, bytes := es, elemLens := vs.map (lenTy elem), count := vs.length }, vs,
          by simp [lookupArr, hid], hid' ▸ hget, rfl, by rw [← hfa.1], by rw [← hfa.1]; exact hlen⟩
      · have hid' : (id == t) = false := by simpa using hid
        simp only [hid', Bool.false_eq_true, ↓reduceIte] at hfa
        obtain ⟨a', vs', h1, h2', h3', h4', h5'⟩ := ih2 t el ew' hfa
        exact ⟨a', vs', by simp [lookupArr, hid', List.find?_cons]; exact h1, h2', h3', h4', h5'⟩
    | chunk fs =>
      refine ⟨by simpa [Ref.arrays, wireArrs] using ih1, ?_⟩
      intro t el ew' hfa; simp only [firstArray] at hfa; simpa [wireArrs] using ih2 t el ew' hfa
    | typedef id ty sb =>
      refine ⟨by simpa [Ref.arrays, wireArrs] using ih1, ?_⟩
      intro t el ew' hfa; simp only [firstArray] at hfa; simpa [wireArrs] using ih2 t el ew' hfa
    | optional id ty ci cv =>
      refine ⟨by simpa [Ref.arrays, wireArrs] using ih1, ?_⟩
      intro t el ew' hfa; simp only [firstArray] at hfa; simpa [wireArrs] using ih2 t el ew' hfa
    | payload m =>
      refine ⟨by simpa [Ref.arrays, wireArrs] using ih1, ?_⟩
      intro t el ew' hfa; simp only [firstArray] at hfa; simpa [wireArrs] using ih2 t el ew' hfa

theorem encItems_ref (c : Cfg) (hm : c.mode = .ideal) (all : Items) (p : Bytes) (v : Value) (arrs : List ArrInfo)
    (hcorr : ArrCorr all v arrs) (hnd : (arrs.map (·.id)).Nodup) :
    ∀ (is : Items) (bs : Bytes), refWfItems all is = true → (∀ a ∈ wireArrs c is v, a ∈ arrs) →
      encItems c all (.ok p) p.length v is = .ok bs → Ref.encItems c.e arrs p v is = some bs
  | .nil, bs, _, _, he => by
    simp only [encItems, Outcome.ok.injEq] at he
    simp [Ref.encItems, he]
  | .cons i r, bs, hw, hmem, he => by
    simp only [refWfItems, Bool.and_eq_true] at hw
    simp only [encItems] at he
    obtain ⟨a, ha, h2⟩ := bind_ok _ _ _ he
    obtain ⟨b, hb, h3⟩ := bind_ok _ _ _ h2
    simp only [Outcome.ok.injEq] at h3
    have hrest : ∀ x ∈ wireArrs c r v, x ∈ arrs := by
      intro x hx
      apply hmem
      cases i with
      | array id elem ew shape pad =>
        simp only [wireArrs]
        split
        · split
          · exact List.mem_cons_of_mem _ hx
          · exact hx
        · exact hx
      | chunk fs => simpa [wireArrs] using hx
      | typedef id ty sb => simpa [wireArrs] using hx
      | optional id ty ci cv => simpa [wireArrs] using hx
      | payload m => simpa [wireArrs] using hx
    have ihr := encItems_ref c hm all p v arrs hcorr hnd r b hw.2 hrest hb
    have hitem : Ref.encItem c.e arrs p v i = some a := by
      cases i with
      | chunk fs =>
        simp only [refWfItem, Bool.and_eq_true, beq_iff_eq, List.all_eq_true] at hw
        simp only [encItem, hm, BEq.rfl] at ha
        obtain ⟨X, hX, h4⟩ := bind_ok _ _ _ ha
        simp only [Outcome.ok.injEq] at h4
        obtain ⟨N, hN, hXN⟩ := chunk_ref all p.length v arrs hcorr fs 0 0 X
          (fun f hf => by simpa using hw.1.2 f hf) hX
        have : X = N := by simpa using hXN
        subst this
        simp only [Ref.encItem, hN, Option.map_some, intBytes_ref c.e (chunkBits fs) X hw.1.1, h4]
      | typedef id ty sb =>
        simp only [refWfItem] at hw
        simp only [encItem] at ha
        cases hv : v.get? id with
        | none => simp [hv] at ha
        | some x =>
          simp only [hv] at ha
          simp only [Ref.encItem, hv]
          exact encTy_ref c hm ty x a hw.1 ha
      | optional id ty ci cv =>
        simp only [refWfItem] at hw
        simp only [encItem] at ha
        cases hv : v.get? id with
        | none => simp only [hv, Outcome.ok.injEq] at ha; simp [Ref.encItem, hv, ha]
        | some x =>
          cases x with
          | null => simp only [hv, Outcome.ok.injEq] at ha; simp [Ref.encItem, hv, ha]
          | int n =>
            simp only [hv] at ha
            simp only [Ref.encItem, hv]
            cases ty with
            | scalar w =>
              simp only [refWfTy, beq_iff_eq] at hw
              simp only at ha
              split at ha
              · cases ha
              · split at ha
                · cases ha
                · rename_i h1 h2
                  simp only [Outcome.ok.injEq] at ha
                  have hlt : n < 2 ^ w := by
                    by_cases hbw : backingOf w > w
                    · have : ¬ n > maskBits w := fun hh => h2 ⟨hbw, hh⟩
                      have hpos : 0 < 2 ^ w := Nat.two_pow_pos w
                      unfold maskBits at this; omega
                    · have hle : backingOf w ≤ w := by omega
                      have : 2 ^ backingOf w ≤ 2 ^ w := Nat.pow_le_pow_right (by decide) hle
                      omega
                  simp only [Ref.encTy, fits, hlt, decide_true, ↓reduceIte, intBytes_ref c.e w n hw.1, ha]
            | enumTy nm en => exact encTy_ref c hm (.enumTy nm en) (.int n) a hw.1 ha
            | custom nm w => exact encTy_ref c hm (.custom nm w) (.int n) a hw.1 ha
            | struct nm b' => exact encTy_ref c hm (.struct nm b') (.int n) a hw.1 ha
          | arr l =>
            simp only [hv] at ha
            simp only [Ref.encItem, hv]
            cases ty with
            | scalar w => simp at ha
            | enumTy nm en => exact encTy_ref c hm (.enumTy nm en) (.arr l) a hw.1 ha
            | custom nm w => exact encTy_ref c hm (.custom nm w) (.arr l) a hw.1 ha
            | struct nm b' => exact encTy_ref c hm (.struct nm b') (.arr l) a hw.1 ha
          | obj l =>
            simp only [hv] at ha
            simp only [Ref.encItem, hv]
            cases ty with
            | scalar w => simp at ha
            | enumTy nm en => exact encTy_ref c hm (.enumTy nm en) (.obj l) a hw.1 ha
            | custom nm w => exact encTy_ref c hm (.custom nm w) (.obj l) a hw.1 ha
            | struct nm b' => exact encTy_ref c hm (.struct nm b') (.obj l) a hw.1 ha
      | payload m =>
        simp only [encItem, Outcome.ok.injEq] at ha
        simp [Ref.encItem, ha]
      | array id elem ew shape pad =>
        simp only [encItem] at ha
        obtain ⟨vs, hvs, h4⟩ := bind_ok _ _ _ ha
        obtain ⟨_, hcc, h5⟩ := bind_ok _ _ _ h4
        obtain ⟨_, _, h6⟩ := bind_ok _ _ _ h5
        obtain ⟨es, hes, h7⟩ := bind_ok _ _ _ h6
        have hget := listField_get v id vs hvs
        have hrec : ({ id := id, bytes := es, elemLens := vs.map (lenTy elem), count := vs.length } : ArrInfo) ∈ arrs := by
          apply hmem
          simp only [wireArrs, hget, hes]
          exact List.mem_cons_self ..
        have hlook := lookupArr_of_mem arrs _ hrec hnd
        simp only at hlook
        have hcnt : ∀ n, shape = .static n → vs.length = n := by
          intro n hs
          subst hs
          simp only [checkCount] at hcc
          split at hcc
          · assumption
          · cases hcc
        cases pad with
        | none =>
          simp only [padTo, Outcome.ok.injEq] at h7
          cases shape with
          | «static» n => simp [Ref.encItem, hlook, hcnt n rfl, h7]
          | countField => simp [Ref.encItem, hlook, h7]
          | sizeField => simp [Ref.encItem, hlook, h7]
          | unknown => simp [Ref.encItem, hlook, h7]
        | some q =>
          simp only [padTo] at h7
          split at h7
          · rename_i hle
            simp only [Outcome.ok.injEq] at h7
            cases shape with
            | «static» n => simp [Ref.encItem, hlook, hcnt n rfl, hle, h7]
            | countField => simp [Ref.encItem, hlook, hle, h7]
            | sizeField => simp [Ref.encItem, hlook, hle, h7]
            | unknown => simp [Ref.encItem, hlook, hle, h7]
          · cases h7
    simp only [Ref.encItems, hitem, ihr, h3]

end

/-- a packet or struct without parent -/
theorem encRoot_ref (c : Cfg) (hm : c.mode = .ideal) (nm : String) (items : Items) (v : Value) (bs : Bytes)
    (hw : refWfItems items items = true) (hl : lenWfItems items = true) (hnd : (arrayIds items).Nodup)
    (he : encBody c (.root nm items) v = .ok bs) : Ref.encBody c.e (.root nm items) v none = some bs := by
  have := encTy_ref c hm (.struct nm (.root nm items)) v bs
    (by simp [refWfTy, hw, hl, hnd]) (by simpa [encTy] using he)
  simpa [Ref.encTy] using this

/-- **The reference implementation writes the reference wire format.**  For every packet or
    struct without parent and every child of a packet without parent whose layout meets `refWfBody`
    (decidable; evaluated by the check on every generated layout), every value and both byte
    orders: whenever the encoder model in reference mode (`Mode.ideal`: the emitted encoder with
    every recorded deviation replaced by what doc/reference.md prescribes — the oracle the Python,
    C++ and Java back ends and the Rust decoder are compared with) produces bytes, they are exactly
    the bit-level reference encoding `Ref.encode`: bit-fields packed LSB-first into groups written
    in the file's byte order, size / count / element-size fields carrying the octet size (plus
    modifier), the count and the common element size of what they designate, reserved bits zero,
    padding zero, fixed and constrained fields at their constants, optional fields present iff the
    flag says so, the child in the parent's payload. -/
theorem encode_ideal_eq_ref (e : Endian) (b : Body) (hw : refWfBody b = true) (v : Value) (bs : Bytes)
    (he : encBody { e := e, mode := .ideal } b v = .ok bs) : Ref.encode e b v = some bs := by
  cases b with
  | root nm items =>
    simp only [refWfBody, Bool.and_eq_true, decide_eq_true_eq] at hw
    exact encRoot_ref { e := e, mode := .ideal } rfl nm items v bs hw.1.1 hw.1.2 hw.2 he
  | derived nm parent cs allCs items =>
    cases parent with
    | derived _ _ _ _ _ => simp [refWfBody] at hw
    | root pn pitems =>
      simp only [refWfBody, Bool.and_eq_true, decide_eq_true_eq] at hw
      obtain ⟨⟨⟨⟨⟨⟨hwi, hli⟩, hndi⟩, hwp⟩, hlp⟩, hndp⟩, hpay⟩ := hw
      let c : Cfg := { e := e, mode := .ideal }
      simp only [encBody] at he
      simp only [Ref.encode, Ref.encBody]
      split at he
      · cases he
      · rename_i p hp
        simp only [hp]
        simp only [encAround] at he
        have hv' : Value.obj (v.fields ++ allCs.map fun (k, c) => (k, Value.int c)) = withConstants allCs v := rfl
        simp only [hv'] at he ⊢
        -- the child's own bytes
        obtain ⟨own, hown⟩ := encItems_inner_needed c pitems _ _ _ pitems bs hpay he
        have hownLen : own.length = lenItems items (withConstants allCs v) := by
          rw [encItems_len c items p p.length _ items own hli hown]
          by_cases hh : items.hasPayload = true
          · simp only [hh, ↓reduceIte] at hp
            cases hg : v.get? "payload" with
            | none => simp [hg] at hp
            | some pv =>
              simp only [hg, Option.bind_some] at hp
              have hg' : (withConstants allCs v).get? "payload" = some pv := by
                simp only [withConstants, Value.get?, Value.fields] at hg ⊢
                rw [List.lookup_append, hg]; rfl
              rw [valBytes_length pv p hp, ← hg']
              exact lenItemsP_payloadLen _ items
          · have hh' : items.hasPayload = false := by simpa using hh
            exact lenItemsP_noPayload _ p.length items hh'
        obtain ⟨a1, a2⟩ := wireArrs_ref c rfl items (.ok p) p.length (withConstants allCs v) items own hwi hown
        have hndA : ((wireArrs c items (withConstants allCs v)).map (·.id)).Nodup :=
          (wireArrs_ids_sublist c _ items).nodup hndi
        have hRefOwn := encItems_ref c rfl items p (withConstants allCs v) _ a2 hndA items own hwi (fun a ha => ha) hown
        have a1' : Ref.arrays e items (withConstants allCs v) = some (wireArrs c items (withConstants allCs v)) := a1
        have hRefOwn' : Ref.encItems e (wireArrs c items (withConstants allCs v)) p (withConstants allCs v) items = some own := hRefOwn
        simp only [a1', hRefOwn']
        -- the parent's items around them
        rw [hown, ← hownLen] at he
        obtain ⟨b1, b2⟩ := wireArrs_ref c rfl pitems (.ok own) own.length (withConstants allCs v) pitems bs hwp he
        have hndB : ((wireArrs c pitems (withConstants allCs v)).map (·.id)).Nodup :=
          (wireArrs_ids_sublist c _ pitems).nodup hndp
        have b1' : Ref.arrays e pitems (withConstants allCs v) = some (wireArrs c pitems (withConstants allCs v)) := b1
        simp only [b1']
        exact encItems_ref c rfl pitems own (withConstants allCs v) _ b2 hndB pitems bs hwp (fun a ha => ha) he

/-! non-vacuity: `packet P { a: 3, b: 13, _size_(x): 8, x: 16[], _payload_ }` meets `refWfBody` -/
example : refWfBody (.root "P" (.cons (.chunk [.scalar "a" 3, .scalar "b" 13, .size "x" 8 0])
    (.cons (.array "x" (.scalar 16) (.static 2) .sizeField none) (.cons (.payload .last) .nil)))) = true := by
  simp [refWfBody, refWfItems, refWfItem, refWfTy, lenWfItems, lenWfItem, lenWfTy, staticTy, arrayIds,
    chunkBits, BitField.width, bfOk, targetOk, firstArray]

/-! ### the model of the emitted encoder vs the reference mode

The emitted encoder deviates from the reference in two recorded ways only: array size modifiers
are ignored (KF-C03-array-size-modifier) and array elements of width 24/40/48/56 are written
without a range check (KF-C05-array-elem-trunc).  Away from array size modifiers, whenever the
reference mode produces bytes the model of the emitted code produces the same bytes. -/

theorem encChunkFields_ideal_to_rust (all : Items) (pl : Nat) (v : Value) :
    ∀ (fs : List BitField) (shift acc X : Nat), fs.all bfNoArrayMod = true →
      encChunkFields true all pl v fs shift acc = .ok X → encChunkFields false all pl v fs shift acc = .ok X := by
  intro fs
  induction fs with
  | nil => intro shift acc X _ h; simpa [encChunkFields] using h
  | cons f fs ih =>
    intro shift acc X hnm h
    simp only [List.all_cons, Bool.and_eq_true] at hnm
    unfold encChunkFields at h ⊢
    cases f with
    | scalar id w =>
      simp only at h ⊢
      obtain ⟨x, hx, h2⟩ := bind_ok _ _ _ h
      rw [hx]; simp only [Outcome.bind]
      split at h2
      · cases h2
      · split at h2
        · cases h2
        · rename_i h1 h3
          simp only [h1, h3, ↓reduceIte]
          exact ih _ _ _ hnm.2 h2
    | flag id opts =>
      simp only at h ⊢
      cases opts with
      | nil => cases h
      | cons o rest =>
        simp only at h ⊢
        split at h
        · cases h
        · rename_i hc
          simp only [hc, ↓reduceIte]
          exact ih _ _ _ hnm.2 h
    | enumTy id ty e =>
      simp only at h ⊢
      obtain ⟨x, hx, h2⟩ := bind_ok _ _ _ h
      rw [hx]; simp only [Outcome.bind]
      split at h2
      · rename_i hok; simp only [hok, ↓reduceIte]; exact ih _ _ _ hnm.2 h2
      · cases h2
    | fixed w c => exact ih _ _ _ hnm.2 h
    | reserved w => exact ih _ _ _ hnm.2 h
    | size t w m =>
      simp only at h ⊢
      obtain ⟨s0, hs0, h2⟩ := bind_ok _ _ _ h
      rw [hs0]; simp only [Outcome.bind]
      simp only [Bool.true_or, ↓reduceIte] at h2
      simp only [bfNoArrayMod, Bool.or_eq_true, beq_iff_eq] at hnm
      have hsame : (if (false || t == "_payload_" || t == "_body_") = true then s0 + m else s0) = s0 + m := by
        rcases hnm.1 with (h1 | h1) | h1
        · simp [h1]
        · simp [h1]
        · split <;> simp [h1]
      simp only [hsame]
      split at h2
      · cases h2
      · rename_i hm; simp only [hm, ↓reduceIte]; exact ih _ _ _ hnm.2 h2
    | elemSize t w =>
      simp only at h ⊢
      obtain ⟨vs, hvs, h2⟩ := bind_ok _ _ _ h
      rw [hvs]; simp only [Outcome.bind]
      cases hty : encChunkFields.elemTy t all with
      | none => simp [hty] at h2
      | some ty =>
        simp only [hty] at h2 ⊢
        cases vs with
        | nil =>
          simp only [List.any_nil, Bool.false_eq_true, ↓reduceIte] at h2 ⊢
          split at h2
          · cases h2
          · rename_i h3; simp only [h3, ↓reduceIte]; exact ih _ _ _ hnm.2 h2
        | cons x xs =>
          simp only at h2 ⊢
          split at h2
          · cases h2
          · rename_i h1
            split at h2
            · cases h2
            · rename_i h3; simp only [h1, h3, ↓reduceIte]; exact ih _ _ _ hnm.2 h2
    | count t w =>
      simp only at h ⊢
      obtain ⟨vs, hvs, h2⟩ := bind_ok _ _ _ h
      rw [hvs]; simp only [Outcome.bind]
      simp only [true_or, true_and] at h2
      split at h2
      · cases h2
      · rename_i hm
        have : ¬ ((false = true ∨ w < 64) ∧ vs.length > maskBits w) := fun hh => hm hh.2
        simp only [this, ↓reduceIte]
        exact ih _ _ _ hnm.2 h2

/-- a level without payload item does not look at the inner encoding -/
theorem encItems_no_payload (c : Cfg) (all : Items) (inner inner' : Enc Bytes) (pl : Nat) (v : Value) :
    ∀ (is : Items), is.hasPayload = false → encItems c all inner pl v is = encItems c all inner' pl v is
  | .nil, _ => rfl
  | .cons i r, h => by
    cases i with
    | payload m => simp [Items.hasPayload] at h
    | chunk fs =>
      simp only [encItems, encItem]
      rw [encItems_no_payload c all inner inner' pl v r (by simpa [Items.hasPayload] using h)]
    | array id elem ew shape pad =>
      simp only [encItems, encItem]
      rw [encItems_no_payload c all inner inner' pl v r (by simpa [Items.hasPayload] using h)]
    | typedef id ty sb =>
      simp only [encItems, encItem]
      rw [encItems_no_payload c all inner inner' pl v r (by simpa [Items.hasPayload] using h)]
    | optional id ty ci cv =>
      simp only [encItems, encItem]
      rw [encItems_no_payload c all inner inner' pl v r (by simpa [Items.hasPayload] using h)]

mutual
theorem encTy_ideal_to_rust (e : Endian) : ∀ (ty : Ty) (x : Value) (bs : Bytes), noModTy ty = true →
    encTy { e := e, mode := .ideal } ty x = .ok bs → encTy { e := e, mode := .rust } ty x = .ok bs
  | .scalar w, x, bs, _, he => by
    cases x with
    | int n =>
      simp only [encTy, elemOutOfRange] at he ⊢
      split at he
      · cases he
      · rename_i h1
        by_cases hgt : n > maskBits w
        · simp [hgt] at he
        · simp only [hgt, decide_false, Bool.false_eq_true, ↓reduceIte] at he
          simp only [h1, ↓reduceIte, Bool.false_eq_true]; exact he
    | arr _ => simp [encTy] at he
    | obj _ => simp [encTy] at he
    | null => simp [encTy] at he
  | .enumTy _ _, x, bs, _, he => by
    cases x <;> simpa [encTy] using he
  | .custom _ _, x, bs, _, he => by
    cases x <;> simpa [encTy] using he
  | .struct _ b, x, bs, hn, he => by
    simp only [noModTy] at hn
    simp only [encTy] at he ⊢
    exact encBody_ideal_to_rust e b x bs hn he

theorem encItem_ideal_to_rust (e : Endian) (all : Items) (p : Enc Bytes) (pl : Nat) (v : Value) :
    ∀ (i : Item) (bs : Bytes), noModItem i = true →
      encItem { e := e, mode := .ideal } all p pl v i = .ok bs → encItem { e := e, mode := .rust } all p pl v i = .ok bs
  | .chunk fs, bs, hn, he => by
    simp only [noModItem] at hn
    simp only [encItem] at he ⊢
    obtain ⟨X, hX, h2⟩ := bind_ok _ _ _ he
    have hX' : encChunkFields true all pl v fs 0 0 = .ok X := by simpa using hX
    have := encChunkFields_ideal_to_rust all pl v fs 0 0 X hn hX'
    have hf : (({ e := e, mode := .rust } : Cfg).mode == Mode.ideal) = false := rfl
    rw [hf, this]; exact h2
  | .typedef id ty sb, bs, hn, he => by
    simp only [noModItem] at hn
    simp only [encItem] at he ⊢
    cases hv : v.get? id with
    | none => simp [hv] at he
    | some x => simp only [hv] at he ⊢; exact encTy_ideal_to_rust e ty x bs hn he
  | .optional id ty ci cv, bs, hn, he => by
    simp only [noModItem] at hn
    simp only [encItem] at he ⊢
    cases hv : v.get? id with
    | none => simpa [hv] using he
    | some x =>
      simp only [hv] at he ⊢
      cases x with
      | null => exact he
      | int n =>
        cases ty with
        | scalar w => exact he
        | enumTy nm en => exact encTy_ideal_to_rust e (.enumTy nm en) (.int n) bs hn he
        | custom nm w => exact encTy_ideal_to_rust e (.custom nm w) (.int n) bs hn he
        | struct nm b => exact encTy_ideal_to_rust e (.struct nm b) (.int n) bs hn he
      | arr l =>
        cases ty with
        | scalar w => exact he
        | enumTy nm en => exact encTy_ideal_to_rust e (.enumTy nm en) (.arr l) bs hn he
        | custom nm w => exact encTy_ideal_to_rust e (.custom nm w) (.arr l) bs hn he
        | struct nm b => exact encTy_ideal_to_rust e (.struct nm b) (.arr l) bs hn he
      | obj l =>
        cases ty with
        | scalar w => exact he
        | enumTy nm en => exact encTy_ideal_to_rust e (.enumTy nm en) (.obj l) bs hn he
        | custom nm w => exact encTy_ideal_to_rust e (.custom nm w) (.obj l) bs hn he
        | struct nm b => exact encTy_ideal_to_rust e (.struct nm b) (.obj l) bs hn he
  | .payload m, bs, _, he => by simpa [encItem] using he
  | .array id elem ew shape pad, bs, hn, he => by
    simp only [noModItem] at hn
    simp only [encItem] at he ⊢
    obtain ⟨vs, hvs, h3⟩ := bind_ok _ _ _ he
    obtain ⟨u1, hc1, h4⟩ := bind_ok _ _ _ h3
    obtain ⟨u2, hc2, h5⟩ := bind_ok _ _ _ h4
    obtain ⟨es, hes, h6⟩ := bind_ok _ _ _ h5
    have hes' : encListWith (encTy { e := e, mode := .rust } elem) vs = .ok es := by
      clear h5 h6 hc2 hc1 h4 h3 hvs he
      induction vs generalizing es with
      | nil => simpa [encListWith] using hes
      | cons x xs ih =>
        simp only [encListWith] at hes ⊢
        obtain ⟨a, ha, h7⟩ := bind_ok _ _ _ hes
        obtain ⟨b, hb, h8⟩ := bind_ok _ _ _ h7
        rw [encTy_ideal_to_rust e elem x a hn ha]
        simp only [Outcome.bind]
        rw [ih b hb]
        exact h8
    rw [hvs]; simp only [Outcome.bind, hc1, hc2, hes']
    exact h6

theorem encItems_ideal_to_rust (e : Endian) (all : Items) (p : Enc Bytes) (pl : Nat) (v : Value) :
    ∀ (is : Items) (bs : Bytes), noModItems is = true →
      encItems { e := e, mode := .ideal } all p pl v is = .ok bs → encItems { e := e, mode := .rust } all p pl v is = .ok bs
  | .nil, bs, _, he => by simpa [encItems] using he
  | .cons i r, bs, hn, he => by
    simp only [noModItems, Bool.and_eq_true] at hn
    simp only [encItems] at he ⊢
    obtain ⟨a, ha, h2⟩ := bind_ok _ _ _ he
    obtain ⟨b, hb, h3⟩ := bind_ok _ _ _ h2
    rw [encItem_ideal_to_rust e all p pl v i a hn.1 ha]
    simp only [Outcome.bind]
    rw [encItems_ideal_to_rust e all p pl v r b hn.2 hb]
    exact h3

theorem encAround_ideal_to_rust (e : Endian) : ∀ (b : Body) (v : Value) (inner : Enc Bytes) (len : Nat) (bs : Bytes),
    noModBody b = true → encAround { e := e, mode := .ideal } b v inner len = .ok bs →
      encAround { e := e, mode := .rust } b v inner len = .ok bs
  | .root _ items, v, inner, len, bs, hn, he => by
    simp only [noModBody] at hn
    simp only [encAround] at he ⊢
    exact encItems_ideal_to_rust e items inner len v items bs hn he
  | .derived _ parent _ _ items, v, inner, len, bs, hn, he => by
    simp only [noModBody, Bool.and_eq_true] at hn
    simp only [encAround] at he ⊢
    -- the inner encoding of this level: either ok in both modes, or not ok in the reference mode
    cases hin : encItems { e := e, mode := .ideal } items inner len v items with
    | ok ib =>
      rw [hin] at he
      rw [encItems_ideal_to_rust e items inner len v items ib hn.1 hin]
      exact encAround_ideal_to_rust e parent v (.ok ib) _ bs hn.2 he
    | err x =>
      rw [hin] at he
      -- the parent levels ignore a failed inner encoding only if they have no payload item; then
      -- the model of the emitted code gives the same bytes whatever its own inner outcome is
      exact encAround_inner_irrelevant e parent v _ _ _ bs hn.2 rfl he
    | panic q =>
      rw [hin] at he
      exact encAround_inner_irrelevant e parent v _ _ _ bs hn.2 rfl he

/-- if the ancestors produce bytes although the inner encoding failed, the inner encoding is not
    used at all (no payload item up the chain) -/
theorem encAround_inner_irrelevant (e : Endian) : ∀ (b : Body) (v : Value) (inner inner' : Enc Bytes) (len : Nat) (bs : Bytes),
    noModBody b = true → inner.isOk = false → encAround { e := e, mode := .ideal } b v inner len = .ok bs →
      encAround { e := e, mode := .rust } b v inner' len = .ok bs
  | .root _ items, v, inner, inner', len, bs, hn, hbad, he => by
    simp only [noModBody] at hn
    simp only [encAround] at he ⊢
    have h1 := encItems_ideal_to_rust e items inner len v items bs hn he
    by_cases hp : items.hasPayload = true
    · obtain ⟨ib, hib⟩ := encItems_inner_needed _ items inner len v items bs hp he
      rw [hib] at hbad; simp [Outcome.isOk] at hbad
    · have hp' : items.hasPayload = false := by simpa using hp
      rw [← encItems_no_payload _ items inner inner' len v items hp']
      exact h1
  | .derived _ parent _ _ items, v, inner, inner', len, bs, hn, hbad, he => by
    simp only [noModBody, Bool.and_eq_true] at hn
    simp only [encAround] at he ⊢
    by_cases hp : items.hasPayload = true
    · -- this level needs the inner bytes: its own encoding fails too
      have hbad2 : (encItems { e := e, mode := .ideal } items inner len v items).isOk = false := by
        cases hx : encItems { e := e, mode := .ideal } items inner len v items with
        | ok ib =>
          obtain ⟨ib', hib'⟩ := encItems_inner_needed _ items inner len v items ib hp hx
          rw [hib'] at hbad; simp [Outcome.isOk] at hbad
        | err _ => rfl
        | panic _ => rfl
      exact encAround_inner_irrelevant e parent v _ _ _ bs hn.2 hbad2 he
    · have hp' : items.hasPayload = false := by simpa using hp
      rw [← encItems_no_payload { e := e, mode := .rust } items inner inner' len v items hp']
      cases hin : encItems { e := e, mode := .ideal } items inner len v items with
      | ok ib =>
        rw [hin] at he
        rw [encItems_ideal_to_rust e items inner len v items ib hn.1 hin]
        exact encAround_ideal_to_rust e parent v (.ok ib) _ bs hn.2 he
      | err x =>
        rw [hin] at he
        exact encAround_inner_irrelevant e parent v _ _ _ bs hn.2 rfl he
      | panic q =>
        rw [hin] at he
        exact encAround_inner_irrelevant e parent v _ _ _ bs hn.2 rfl he

theorem encBody_ideal_to_rust (e : Endian) : ∀ (b : Body) (v : Value) (bs : Bytes), noModBody b = true →
    encBody { e := e, mode := .ideal } b v = .ok bs → encBody { e := e, mode := .rust } b v = .ok bs
  | .root _ items, v, bs, hn, he => by
    simp only [noModBody] at hn
    simp only [encBody] at he ⊢
    split
    · rename_i hp; simp only [hp] at he; cases he
    · rename_i p hp
      simp only [hp] at he
      exact encItems_ideal_to_rust e items (.ok p) p.length v items bs hn he
  | .derived _ parent _ allCs items, v, bs, hn, he => by
    simp only [noModBody, Bool.and_eq_true] at hn
    simp only [encBody] at he ⊢
    split
    · rename_i hp; simp only [hp] at he; cases he
    · rename_i p hp
      simp only [hp] at he
      cases hin : encItems { e := e, mode := .ideal } items (.ok p) p.length (Value.obj (v.fields ++ allCs.map fun (k, c) => (k, Value.int c))) items with
      | ok ib =>
        rw [hin] at he
        rw [encItems_ideal_to_rust e items (.ok p) p.length _ items ib hn.1 hin]
        exact encAround_ideal_to_rust e parent _ (.ok ib) _ bs hn.2 he
      | err x =>
        rw [hin] at he
        exact encAround_inner_irrelevant e parent _ _ _ _ bs hn.2 rfl he
      | panic q =>
        rw [hin] at he
        exact encAround_inner_irrelevant e parent _ _ _ _ bs hn.2 rfl he
end

/-- **C03.**  Away from array size modifiers (which the Rust back end ignores: recorded finding
    KF-C03-array-size-modifier), for every layout meeting `refWfBody`, both byte orders, and every
    value to which the reference assigns an encoding through the reference mode (`hid`): the model
    of the emitted Rust encoder succeeds and writes exactly `Ref.encode` — the wire format of
    doc/reference.md at bit level. -/
theorem encode_rust_eq_ref (e : Endian) (b : Body) (hw : refWfBody b = true) (hn : noModBody b = true)
    (v : Value) (bs : Bytes) (hid : encBody { e := e, mode := .ideal } b v = .ok bs) :
    encBody { e := e, mode := .rust } b v = .ok bs ∧ Ref.encode e b v = some bs :=
  ⟨encBody_ideal_to_rust e b v bs hn hid, encode_ideal_eq_ref e b hw v bs hid⟩

/-- and whatever else the emitted encoder writes for such a value, it is not a different
    encoding: encoding is a function -/
theorem encode_rust_unique (e : Endian) (b : Body) (hw : refWfBody b = true) (hn : noModBody b = true)
    (v : Value) (bs bs' : Bytes) (hid : encBody { e := e, mode := .ideal } b v = .ok bs)
    (hr : encBody { e := e, mode := .rust } b v = .ok bs') : Ref.encode e b v = some bs' := by
  obtain ⟨h1, h2⟩ := encode_rust_eq_ref e b hw hn v bs hid
  rw [h1] at hr
  simp only [Outcome.ok.injEq] at hr
  rw [← hr]; exact h2

end Pdlv
