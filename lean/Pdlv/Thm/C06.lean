/-
  C06 — inheritance is coherent: constraints, specialization, parent/child conversion.

  Statements about the model of the emitted `specialize()` match (`Pdlv.Inherit`) and of
  `decode_partial` (`Pdlv.decPartial`).  The model's match table is compared structurally with
  the table extracted from the emitted Rust on every run (`bin/check C06`).
-/
import Pdlv.Inherit

namespace Pdlv
namespace Inherit

/-- what it means for a parent value to match an arm of the emitted `match` -/
def ArmMatches (ids : List String) (a : Arm) (pv : Value) : Prop :=
  ∃ p ∈ a.pats, patMatches (ids.map fun k => (pv.get? k).bind Value.asNat?)
    (((pv.get? "payload").bind Value.asList?).getD []).length p = true

/-- **`specialize()` returns child X only when the parent's field values (and payload length,
    where children differ only in size) match a case of X** -/
theorem select_sound (ids : List String) (arms : List Arm) (pv : Value) (x : String)
    (h : select ids arms pv = some x) : ∃ a ∈ arms, a.child = x ∧ ArmMatches ids a pv := by
  unfold select at h
  simp only [Option.map_eq_some_iff] at h
  obtain ⟨a, ha, hx⟩ := h
  refine ⟨a, List.mem_of_find?_eq_some ha, hx, ?_⟩
  have := List.find?_some ha
  simp only [List.any_eq_true] at this
  obtain ⟨p, hp, hm⟩ := this
  exact ⟨p, hp, hm⟩

/-- **… and returns `None` exactly when no case of any child matches** -/
theorem select_none_iff (ids : List String) (arms : List Arm) (pv : Value) :
    select ids arms pv = none ↔ ∀ a ∈ arms, ¬ ArmMatches ids a pv := by
  unfold select
  simp only [Option.map_eq_none_iff, List.find?_eq_none, List.any_eq_true, not_exists, not_and]
  constructor
  · intro h a ha ⟨p, hp, hm⟩; exact h a ha p hp hm
  · intro h a ha p hp hm; exact h a ha ⟨p, hp, hm⟩

/-- when exactly one child has a matching case, that child is selected (no dependence on the
    order in which the arms were emitted) -/
theorem select_unique (ids : List String) (arms : List Arm) (pv : Value) (a : Arm)
    (ha : a ∈ arms) (hm : ArmMatches ids a pv)
    (huniq : ∀ b ∈ arms, ArmMatches ids b pv → b.child = a.child) :
    select ids arms pv = some a.child := by
  cases hs : select ids arms pv with
  | none =>
    exact absurd hm ((select_none_iff ids arms pv).mp hs a ha)
  | some x =>
    obtain ⟨b, hb, hbx, hbm⟩ := select_sound ids arms pv x hs
    rw [← hbx, huniq b hb hbm]

/-- **`Child::try_from(&parent)` fails with `ConstraintValueError` whenever a constraint of the
    child is violated by the parent's value** (the check precedes any parsing) -/
theorem decPartial_constraint_violated (c : Cfg) (parent : Body) (cs : List (String × Nat)) (items : Items)
    (pv : Value) (k : String) (cv : Nat) (hk : (k, cv) ∈ cs)
    (hv : parentField parent pv k ≠ some cv) :
    decPartial c parent cs items pv = .err .constraintValue := by
  unfold decPartial decPartialWith
  have : violated parent pv cs = true := by
    simp only [violated, List.any_eq_true, bne_iff_ne, ne_eq]
    exact ⟨(k, cv), hk, hv⟩
  simp [this]

/-- … and when every constraint of the child holds, the conversion goes on to parse the child's
    fields: the result is whatever parsing the parent's payload gives, never a spurious
    `ConstraintValueError` from this level -/
theorem decPartial_constraints_hold (c : Cfg) (parent : Body) (cs : List (String × Nat)) (items : Items)
    (pv : Value) (h : ∀ k cv, (k, cv) ∈ cs → parentField parent pv k = some cv)
    (hp : parent.hasPayload = false) :
    decPartial c parent cs items pv =
      .ok (.obj (pv.fields.filter fun (k, _) => k != "payload" && !(cs.any (·.1 == k)))) := by
  unfold decPartial decPartialWith
  have : violated parent pv cs = false := by
    simp only [violated, List.any_eq_false, bne_iff_ne, ne_eq, Decidable.not_not]
    intro x hx; exact h x.1 x.2 hx
  simp [this, hp]

/-- non-vacuity: `P { k: 8, _payload_ }`, `A : P (k = 1)`, `B : P (k = 2)`: k = 2 selects B -/
example :
    select ["k"] [{ child := "A", pats := [([some 1], none)] }, { child := "B", pats := [([some 2], none)] }]
      (.obj [("k", .int 2), ("payload", .arr [])]) = some "B" := by rfl


/-! ### an arm pattern is the conjunction of the case's constraints -/

theorem patMatches_map (f g : String → Option Nat) (n : Nat) (plen : Option Nat) : ∀ (ids : List String),
    patMatches (ids.map g) n (ids.map f, plen) = true ↔
      (∀ k ∈ ids, ∀ x, f k = some x → g k = some x) ∧ (∀ m, plen = some m → n = m)
  | [] => by
    simp only [patMatches, List.map_nil, List.zip_nil_left, List.all_nil, Bool.true_and, List.not_mem_nil,
      false_implies, implies_true, true_and]
    cases plen with
    | none => simp
    | some m => simp
  | a :: l => by
    have ih := patMatches_map f g n plen l
    simp only [patMatches, Bool.and_eq_true] at ih ⊢
    simp only [List.map_cons, List.zip_cons_cons, List.all_cons, Bool.and_eq_true, List.mem_cons, forall_eq_or_imp]
    constructor
    · intro ⟨⟨h1, h2⟩, h3⟩
      obtain ⟨q1, q2⟩ := ih.mp ⟨h2, h3⟩
      refine ⟨⟨?_, q1⟩, q2⟩
      intro x hx
      rw [hx] at h1
      simpa using h1
    · intro ⟨⟨h1, h2⟩, h3⟩
      obtain ⟨q1, q2⟩ := ih.mpr ⟨h2, h3⟩
      refine ⟨⟨?_, q1⟩, q2⟩
      cases hf : f a with
      | none => rfl
      | some x => simpa using h1 x hf

/-- **the pattern the emitted `match` tests for a case is exactly "every constraint of the case holds of the
    parent's field values" (and, where children differ only in size, "the payload has the case's length")**:
    `ids` is the tuple of field names the match scrutinises; a case contributes `Some(value)` at the names it
    constrains and `_` elsewhere -/
theorem patMatches_iff (ids : List String) (c : SpecCase) (plen : Option Nat) (pv : Value) :
    patMatches (ids.map fun k => (pv.get? k).bind Value.asNat?)
      (((pv.get? "payload").bind Value.asList?).getD []).length (tupleOf ids c, plen) = true ↔
    (∀ k ∈ ids, ∀ x, List.lookup k c.constraints = some x → (pv.get? k).bind Value.asNat? = some x) ∧
    (∀ n, plen = some n → (((pv.get? "payload").bind Value.asList?).getD []).length = n) :=
  patMatches_map (fun k => List.lookup k c.constraints) (fun k => (pv.get? k).bind Value.asNat?) _ plen ids

/-- `specialize()` returns child `x` only if some case of `x` — a set of accumulated constraints of `x` or of
    a descendant of `x`, gathered by `gather_specialize_cases` — holds of the parent value, constraint by
    constraint -/
theorem select_sound_constraints (ids : List String) (keep : List SpecCase) (withSize : Bool) (pv : Value) (x : String)
    (arms : List Arm)
    (harms : ∀ a ∈ arms, ∀ p ∈ a.pats, ∃ c ∈ keep, c.id = a.child ∧
      p = (tupleOf ids c, if withSize then (match c.size with | .static s => some (s / 8) | _ => none) else none))
    (h : select ids arms pv = some x) :
    ∃ c ∈ keep, c.id = x ∧
      ∀ k ∈ ids, ∀ v, List.lookup k c.constraints = some v → (pv.get? k).bind Value.asNat? = some v := by
  obtain ⟨a, ha, hax, p, hp, hm⟩ := select_sound ids arms pv x h
  obtain ⟨c, hc, hcid, rfl⟩ := harms a ha p hp
  exact ⟨c, hc, by rw [hcid, hax], ((patMatches_iff ids c _ pv).mp hm).1⟩


/-! ### the emitted table consists of gathered cases -/

theorem eraseDupsBy_loop_mem {α : Type} (r : α → α → Bool) : ∀ (as bs : List α) (x : α),
    x ∈ List.eraseDupsBy.loop r as bs → x ∈ as ∨ x ∈ bs
  | [], bs, x, h => by simp only [List.eraseDupsBy.loop, List.mem_reverse] at h; exact Or.inr h
  | a :: as, bs, x, h => by
    simp only [List.eraseDupsBy.loop] at h
    split at h
    · rcases eraseDupsBy_loop_mem r as bs x h with h | h
      · exact Or.inl (List.mem_cons_of_mem _ h)
      · exact Or.inr h
    · rcases eraseDupsBy_loop_mem r as (a :: bs) x h with h | h
      · exact Or.inl (List.mem_cons_of_mem _ h)
      · rcases List.mem_cons.mp h with rfl | h
        · exact Or.inl (List.mem_cons_self ..)
        · exact Or.inr h

theorem mem_of_mem_eraseDups {α : Type} [BEq α] (l : List α) (x : α) (h : x ∈ l.eraseDups) : x ∈ l := by
  rcases eraseDupsBy_loop_mem (· == ·) l [] x h with h | h
  · exact h
  · cases h

/-- every pattern of every arm of the emitted `match` is the pattern of a case that
    `gather_specialize_cases` collected for that child (or a descendant of it) -/
theorem table_arms_from_cases (f : File) (sc : List DeclSchema) (d : Decl) (ids : List String) (withSize : Bool)
    (arms : List Arm) (h : table f sc d = some (ids, withSize, arms)) :
    ∀ a ∈ arms, ∀ p ∈ a.pats, ∃ c ∈ allCases f sc d, c.id = a.child ∧
      p = (tupleOf ids c, if withSize then (match c.size with | .static s => some (s / 8) | _ => none) else none) := by
  simp only [table] at h
  split at h
  · cases h
  · simp only [Option.some.injEq, Prod.mk.injEq] at h
    obtain ⟨rfl, rfl, rfl⟩ := h
    intro a ha p hp
    simp only [List.mem_map] at ha
    obtain ⟨cid, _, rfl⟩ := ha
    simp only at hp
    have hp' := mem_of_mem_eraseDups _ p hp
    simp only [List.mem_map, List.mem_filter, beq_iff_eq] at hp'
    obtain ⟨c, ⟨⟨hc, _⟩, hcid⟩, rfl⟩ := hp'
    exact ⟨c, hc, hcid, rfl⟩

/-- **C06, `specialize()` selects only on matching constraints**: for the table the generator emits, a parent
    value is dispatched to child `x` only if every constraint of some gathered case of `x` holds of it -/
theorem specialize_selects_on_constraints (f : File) (sc : List DeclSchema) (d : Decl) (ids : List String)
    (withSize : Bool) (arms : List Arm) (h : table f sc d = some (ids, withSize, arms)) (pv : Value) (x : String)
    (hs : select ids arms pv = some x) :
    ∃ c ∈ allCases f sc d, c.id = x ∧
      ∀ k ∈ ids, ∀ v, List.lookup k c.constraints = some v → (pv.get? k).bind Value.asNat? = some v :=
  select_sound_constraints ids (allCases f sc d) withSize pv x arms (table_arms_from_cases f sc d ids withSize arms h) hs

end Inherit
end Pdlv
