/-
  C06 — inheritance is coherent: constraints, specialization, parent/child conversion.

  Statements about the model of the emitted `specialize()` match (`Pdlv.Inherit`) and of
  `decode_partial` (`Pdlv.decPartial`).  The model's match table is compared structurally with
  the table extracted from the emitted Rust on every run (`bin/check C06`).
-/
import Pdlv.Inherit

namespace Pdlv
namespace Inherit

/-- what it means for a parent value to match an arm of the emitted `match` -/
def ArmMatches (ids : List String) (a : Arm) (pv : Value) : Prop :=
  ∃ p ∈ a.pats, patMatches (ids.map fun k => (pv.get? k).bind Value.asNat?)
    (((pv.get? "payload").bind Value.asList?).getD []).length p = true

/-- **`specialize()` returns child X only when the parent's field values (and payload length,
    where children differ only in size) match a case of X** -/
theorem select_sound (ids : List String) (arms : List Arm) (pv : Value) (x : String)
    (h : select ids arms pv = some x) : ∃ a ∈ arms, a.child = x ∧ ArmMatches ids a pv := by
  unfold select at h
  simp only [Option.map_eq_some_iff] at h
  obtain ⟨a, ha, hx⟩ := h
  refine ⟨a, List.mem_of_find?_eq_some ha, hx, ?_⟩
  have := List.find?_some ha
  simp only [List.any_eq_true] at this
  obtain ⟨p, hp, hm⟩ := this
  exact ⟨p, hp, hm⟩

/-- **… and returns `None` exactly when no case of any child matches** -/
theorem select_none_iff (ids : List String) (arms : List Arm) (pv : Value) :
    select ids arms pv = none ↔ ∀ a ∈ arms, ¬ ArmMatches ids a pv := by
  unfold select
  simp only [Option.map_eq_none_iff, List.find?_eq_none, List.any_eq_true, not_exists, not_and]
  constructor
  · intro h a ha ⟨p, hp, hm⟩; exact h a ha p hp hm
  · intro h a ha p hp hm; exact h a ha ⟨p, hp, hm⟩

/-- when exactly one child has a matching case, that child is selected (no dependence on the
    order in which the arms were emitted) -/
theorem select_unique (ids : List String) (arms : List Arm) (pv : Value) (a : Arm)
    (ha : a ∈ arms) (hm : ArmMatches ids a pv)
    (huniq : ∀ b ∈ arms, ArmMatches ids b pv → b.child = a.child) :
    select ids arms pv = some a.child := by
  cases hs : select ids arms pv with
  | none =>
    exact absurd hm ((select_none_iff ids arms pv).mp hs a ha)
  | some x =>
    obtain ⟨b, hb, hbx, hbm⟩ := select_sound ids arms pv x hs
    rw [← hbx, huniq b hb hbm]

/-- **`Child::try_from(&parent)` fails with `ConstraintValueError` whenever a constraint of the
    child is violated by the parent's value** (the check precedes any parsing) -/
theorem decPartial_constraint_violated (c : Cfg) (parent : Body) (cs : List (String × Nat)) (items : Items)
    (pv : Value) (k : String) (cv : Nat) (hk : (k, cv) ∈ cs)
    (hv : parentField parent pv k ≠ some cv) :
    decPartial c parent cs items pv = .err .constraintValue := by
  unfold decPartial decPartialWith
  have : violated parent pv cs = true := by
    simp only [violated, List.any_eq_true, bne_iff_ne, ne_eq]
    exact ⟨(k, cv), hk, hv⟩
  simp [this]

/-- … and when every constraint of the child holds, the conversion goes on to parse the child's
    fields: the result is whatever parsing the parent's payload gives, never a spurious
    `ConstraintValueError` from this level -/
theorem decPartial_constraints_hold (c : Cfg) (parent : Body) (cs : List (String × Nat)) (items : Items)
    (pv : Value) (h : ∀ k cv, (k, cv) ∈ cs → parentField parent pv k = some cv)
    (hp : parent.hasPayload = false) :
    decPartial c parent cs items pv =
      .ok (.obj (pv.fields.filter fun (k, _) => k != "payload" && !(cs.any (·.1 == k)))) := by
  unfold decPartial decPartialWith
  have : violated parent pv cs = false := by
    simp only [violated, List.any_eq_false, bne_iff_ne, ne_eq, Decidable.not_not]
    intro x hx; exact h x.1 x.2 hx
  simp [this, hp]

/-- non-vacuity: `P { k: 8, _payload_ }`, `A : P (k = 1)`, `B : P (k = 2)`: k = 2 selects B -/
example :
    select ["k"] [{ child := "A", pats := [([some 1], none)] }, { child := "B", pats := [([some 2], none)] }]
      (.obj [("k", .int 2), ("payload", .arr [])]) = some "B" := by rfl

end Inherit
end Pdlv
