/-
  C15 — Enum conversions are exact over the entire value space.

  Property theorems only (helper lemmas: Pdlv/Lemmas/Enum.lean).  The model of the emitted
  Rust match arms is `Enum.rustFromArms?`; it is tied to the emitted code on every run by
  extracting the arms from pdlc's output and comparing them with the model's table
  (`bin/check C15`), so that `rust_from_exact` is a statement about the emitted program.
-/
import Pdlv.Lemmas.Enum

namespace Pdlv
namespace Enum

/-- What `check_enum_declarations` (analyzer.rs) guarantees of an accepted enum, stated
    declaratively.  E12 (ids), E13/E14 (values, nesting), E40/E41 (ranges), E43 (value tags
    outside ranges). -/
structure EnumWF (e : Decl) : Prop where
  width_le : e.width ≤ 64
  named_lt : ∀ t ∈ namedTags e.tags, t.value < 2 ^ e.width
  range_ok : ∀ r ∈ ranges e.tags, r.2.1 ≤ r.2.2 ∧ r.2.2 < 2 ^ e.width
  no_shadow : NoLateShadow e.tags
  ids_nodup : ((namedTags e.tags).map (·.id)).Nodup

theorem specTags_none_of_ge (e : Decl) (h : EnumWF e) (x : Nat) (hx : 2 ^ e.width ≤ x) :
    specTags e.tags x = none := by
  unfold specTags
  have h1 : (namedTags e.tags).find? (·.value == x) = none := by
    rw [List.find?_eq_none]; intro t ht hv
    have := h.named_lt t ht
    have : t.value = x := by simpa using hv
    omega
  have h2 : (ranges e.tags).find? (inRng · x) = none := by
    rw [List.find?_eq_none]; intro r hr hv
    have := h.range_ok r hr
    simp [inRng] at hv; omega
  simp [h1, h2]

theorem scalarMax_eq (w : Nat) (h : w ≤ 64) : scalarMax w = 2 ^ w - 1 := by
  unfold scalarMax; split
  · have : w = 64 := by omega
    subst this; rfl
  · rfl

theorem backing?_ge (w b : Nat) (h : backing? w = some b) : w ≤ b ∧ b ≤ 64 := by
  unfold backing? at h
  split at h
  · cases h; omega
  · split at h
    · cases h; omega
    · split at h
      · cases h; omega
      · split at h
        · cases h; omega
        · cases h

/-- **Rust `TryFrom<uN>` is exact.**  For an enum accepted by the analyzer, the emitted
    `match` (first matching arm) returns, for *every* value `x` of the backing type,
    exactly what the specification prescribes — including `Err` for `x ≥ 2^w` and for
    undeclared values of closed enums.  In particular some arm always matches
    (`= some _`): the emitted match is exhaustive, as rustc demands. -/
theorem rust_from_exact (e : Decl) (hwf : EnumWF e) (arms : Arms)
    (harms : rustFromArms? e = some arms) (b : Nat) (hb : backing? e.width = some b)
    (x : Nat) (hx : x < 2 ^ b) :
    evalArms arms x = some (spec e x) := by
  unfold rustFromArms? at harms
  rw [hb] at harms
  cases hc : isComplete? e.tags (scalarMax e.width) with
  | none => simp [hc] at harms
  | some c =>
    simp only [hc, Option.some.injEq] at harms
    subst harms
    have hwb := backing?_ge _ _ hb
    have hmax := scalarMax_eq e.width hwf.width_le
    unfold fromArmsWith
    rw [evalArms_append, tagArms_eval _ hwf.no_shadow, evalArms_append]
    by_cases hge : 2 ^ e.width ≤ x
    · -- out of the enum's width: every declared arm misses, the wildcard arm must exist
      have hne : b ≠ e.width := by
        intro heq; subst heq; omega
      rw [specTags_none_of_ge e hwf x hge]
      have hspec : spec e x = .err := by simp [spec, hge]
      rw [hspec]
      have hmid : evalArms (defaultArms c (otherTag e.tags) e.width) x = none := by
        unfold defaultArms
        split
        · simp only [evalArms, Pat.matches, hmax]
          have : ¬ x ≤ 2 ^ e.width - 1 := by
            have : 0 < 2 ^ e.width := Nat.two_pow_pos _
            omega
          simp [this]
        · simp [evalArms]
      rw [hmid]
      simp [Option.orElse, wildArms, hne, evalArms, Pat.matches, Rhs.eval]
    · have hlt : x < 2 ^ e.width := by omega
      have hspec : spec e x = (match specTags e.tags x with
          | some r => r
          | none => match otherTag e.tags with
            | some o => .dflt o x
            | none => .err) := by
        unfold spec specTags
        simp only [hge, ↓reduceIte]
        cases (namedTags e.tags).find? (·.value == x) with
        | some t => rfl
        | none =>
          cases (ranges e.tags).find? (inRng · x) with
          | some r => rfl
          | none => rfl
      rw [hspec]
      cases hst : specTags e.tags x with
      | some r => simp [Option.orElse]
      | none =>
        simp only [Option.orElse]
        -- a complete enum cannot miss x
        have hnc : c = false := by
          cases c with
          | false => rfl
          | true =>
            exfalso
            have hcov := complete_covers e.tags _ hc x (by rw [hmax]; omega)
            unfold specTags at hst
            rcases hcov with ⟨t, ht, hv⟩ | ⟨r, hr, hv⟩
            · have hmem := topTags_sub_named _ t ht
              cases hf : (namedTags e.tags).find? (·.value == x) with
              | some t' => simp [hf] at hst
              | none =>
                rw [List.find?_eq_none] at hf
                exact hf t hmem (by simp [hv])
            · cases hf : (namedTags e.tags).find? (·.value == x) with
              | some t' => simp [hf] at hst
              | none =>
                simp only [hf] at hst
                cases hg : (ranges e.tags).find? (inRng · x) with
                | some r' => simp [hg] at hst
                | none =>
                  rw [List.find?_eq_none] at hg
                  exact hg r hr hv
        subst hnc
        cases ho : otherTag e.tags with
        | some o =>
          simp only [defaultArms, evalArms, Pat.matches, hmax]
          have : x ≤ 2 ^ e.width - 1 := by omega
          simp [this, Rhs.eval]
        | none =>
          simp [defaultArms, wildArms, evalArms, Pat.matches, Rhs.eval]

/-- **Converting back yields x** (`impl From<&E> for uN` after `TryFrom`). -/
theorem rust_into_from (e : Decl) (hwf : EnumWF e) (x : Nat) (h : spec e x ≠ .err) :
    rustInto e (spec e x) = some x := by
  unfold spec at *
  split
  · rename_i hge; simp [hge] at h
  · rename_i hge
    simp only [hge, ↓reduceIte] at h
    cases hf : (namedTags e.tags).find? (·.value == x) with
    | some t =>
      simp only [rustInto]
      have hmem := List.mem_of_find?_eq_some hf
      have hval : t.value = x := by simpa using List.find?_some hf
      have : (namedTags e.tags).find? (·.id == t.id) = some t := by
        have hnd := hwf.ids_nodup
        generalize namedTags e.tags = l at hmem hnd
        induction l with
        | nil => cases hmem
        | cons a l ih =>
          simp only [List.map_cons, List.nodup_cons] at hnd
          simp only [List.find?]
          by_cases ha : a.id == t.id
          · simp only [ha]
            rcases List.mem_cons.mp hmem with rfl | hm
            · rfl
            · exfalso
              apply hnd.1
              have : a.id = t.id := by simpa using ha
              rw [this]
              exact List.mem_map_of_mem hm
          · simp only [ha]
            rcases List.mem_cons.mp hmem with rfl | hm
            · simp at ha
            · exact ih hm hnd.2
      simp [this, hval]
    | none =>
      simp only [hf] at h ⊢
      cases hg : (ranges e.tags).find? (inRng · x) with
      | some r => simp [rustInto]
      | none =>
        simp only [hg] at h ⊢
        cases ho : otherTag e.tags with
        | some o => simp [rustInto]
        | none => simp [ho] at h

/-- **Integers at or above 2^w are rejected** (spec level; with `rust_from_exact` this is
    the emitted code's behaviour on every value of the backing type). -/
theorem spec_rejects_wide (e : Decl) (x : Nat) (h : 2 ^ e.width ≤ x) : spec e x = .err := by
  simp [spec, h]

/-- **Success iff tag, range or default** (the "succeeds iff" clause of the property). -/
theorem spec_ok_iff (e : Decl) (x : Nat) (hx : x < 2 ^ e.width) :
    spec e x ≠ .err ↔
      (∃ t ∈ namedTags e.tags, t.value = x) ∨ (∃ r ∈ ranges e.tags, inRng r x = true) ∨
      (otherTag e.tags).isSome := by
  have hge : ¬ 2 ^ e.width ≤ x := by omega
  unfold spec
  simp only [hge, ↓reduceIte]
  cases hf : (namedTags e.tags).find? (·.value == x) with
  | some t =>
    simp only [ne_eq, reduceCtorEq, not_false_eq_true, true_iff]
    left
    exact ⟨t, List.mem_of_find?_eq_some hf, by simpa using List.find?_some hf⟩
  | none =>
    have hn : ¬ ∃ t ∈ namedTags e.tags, t.value = x := by
      rw [List.find?_eq_none] at hf
      rintro ⟨t, ht, hv⟩; exact hf t ht (by simp [hv])
    cases hg : (ranges e.tags).find? (inRng · x) with
    | some r =>
      simp only [ne_eq, reduceCtorEq, not_false_eq_true, true_iff]
      right; left
      exact ⟨r, List.mem_of_find?_eq_some hg, List.find?_some (p := fun r => inRng r x) hg⟩
    | none =>
      have hr : ¬ ∃ r ∈ ranges e.tags, inRng r x = true := by
        rw [List.find?_eq_none] at hg
        rintro ⟨r, hr, hv⟩; exact hg r hr hv
      cases ho : otherTag e.tags <;> simp [hn, hr]

/-- **Widening preserves the value**: `uN::from(e) as uM` for `M ≥ N` is the identity on
    values below `2^N` (Rust's `as` between unsigned types reduces modulo `2^M`). -/
theorem rust_widening (n m v : Nat) (hnm : n ≤ m) (hv : v < 2 ^ n) : v % 2 ^ m = v :=
  Nat.mod_eq_of_lt (Nat.lt_of_lt_of_le hv (Nat.pow_le_pow_right (by omega) hnm))

/-! ### C++ -/

/-- nested tags lie inside their own range (E14 for nested tags) -/
def NestedInside : List Tag → Prop
  | [] => True
  | .range _ lo hi sub _ :: ts => (∀ t ∈ sub, lo ≤ t.value ∧ t.value ≤ hi) ∧ NestedInside ts
  | _ :: ts => NestedInside ts

theorem named_top_or_inrange (tags : List Tag) (h : NestedInside tags) :
    ∀ t ∈ namedTags tags, t ∈ topTags tags ∨ ∃ r ∈ ranges tags, inRng r t.value = true := by
  induction tags with
  | nil => simp [namedTags]
  | cons tg ts ih =>
    cases tg with
    | value t =>
      intro t' h'
      simp only [namedTags, List.mem_cons, NestedInside] at *
      rcases h' with rfl | h'
      · left; simp [topTags]
      · rcases ih h t' h' with h1 | ⟨r, hr, hv⟩
        · left; simp [topTags, h1]
        · right; exact ⟨r, by simpa [ranges] using hr, hv⟩
    | other id l =>
      intro t' h'
      simp only [namedTags, NestedInside] at *
      rcases ih h t' h' with h1 | ⟨r, hr, hv⟩
      · left; simpa [topTags] using h1
      · right; exact ⟨r, by simpa [ranges] using hr, hv⟩
    | range id lo hi sub l =>
      intro t' h'
      simp only [namedTags, List.mem_append, NestedInside] at *
      rcases h' with h' | h'
      · right; refine ⟨(id, lo, hi), by simp [ranges], ?_⟩
        have := h.1 t' h'
        simp [inRng, this]
      · rcases ih h.2 t' h' with h1 | ⟨r, hr, hv⟩
        · left; simpa [topTags] using h1
        · right; exact ⟨r, by simp [ranges, hr], hv⟩

/-- **C++ `IsValidE(x)` holds iff conversion succeeds**, for closed enums. -/
theorem cxx_is_valid_iff (e : Decl) (hn : NestedInside e.tags) (hclosed : otherTag e.tags = none)
    (x : Nat) (hx : x < 2 ^ e.width) :
    cxxIsValid e x = true ↔ spec e x ≠ .err := by
  rw [spec_ok_iff e x hx]
  simp only [cxxIsValid, Bool.or_eq_true, List.any_eq_true, beq_iff_eq, hclosed,
    Option.isSome_none, Bool.false_eq_true, or_false]
  constructor
  · rintro (⟨t, ht, hv⟩ | h)
    · left; exact ⟨t, topTags_sub_named _ t ht, hv⟩
    · right; exact h
  · rintro (⟨t, ht, hv⟩ | h)
    · rcases named_top_or_inrange _ hn t ht with h1 | ⟨r, hr, hv'⟩
      · left; exact ⟨t, h1, hv⟩
      · right; exact ⟨r, hr, by rw [← hv]; exact hv'⟩
    · right; exact h

/-- closed enums reject everything at or above 2^w in C++ too -/
theorem cxx_rejects_wide (e : Decl) (hwf : EnumWF e) (x : Nat) (h : 2 ^ e.width ≤ x) :
    cxxIsValid e x = false := by
  simp only [cxxIsValid, Bool.or_eq_false_iff, List.any_eq_false, beq_iff_eq]
  constructor
  · intro t ht hv
    have := hwf.named_lt t (topTags_sub_named _ t ht)
    omega
  · intro r hr hv
    have := hwf.range_ok r hr
    simp [inRng] at hv; omega

/-! ### Python -/

/-- **Python `from_int` succeeds iff conversion succeeds**, for x below 2^w. -/
theorem py_from_int_ok_iff (e : Decl) (hn : NestedInside e.tags) (x : Nat) (hx : x < 2 ^ e.width) :
    pyFromInt e x ≠ .raise ↔ spec e x ≠ .err := by
  rw [spec_ok_iff e x hx]
  unfold pyFromInt
  cases hf : (topTags e.tags).find? (·.value == x) with
  | some t =>
    simp only [ne_eq, reduceCtorEq, not_false_eq_true, true_iff]
    left
    exact ⟨t, topTags_sub_named _ t (List.mem_of_find?_eq_some hf),
      by simpa using List.find?_some hf⟩
  | none =>
    simp only
    cases ho : otherTag e.tags with
    | some o => simp
    | none =>
      simp only [Option.isSome_none, Bool.false_eq_true, ↓reduceIte, or_false]
      by_cases hr : (ranges e.tags).any (inRng · x) = true
      · simp only [hr, ↓reduceIte, ne_eq, reduceCtorEq, not_false_eq_true, true_iff]
        right; simpa using hr
      · simp only [hr, Bool.false_eq_true, ↓reduceIte, ne_eq, not_true_eq_false, false_iff]
        rintro (⟨t, ht, hv⟩ | h)
        · rcases named_top_or_inrange _ hn t ht with h1 | ⟨r, hr', hv'⟩
          · rw [List.find?_eq_none] at hf
            exact hf t h1 (by simp [hv])
          · apply hr; simp only [List.any_eq_true]; exact ⟨r, hr', by rw [← hv]; exact hv'⟩
        · apply hr; simpa using h

/-- closed enums: Python rejects everything at or above 2^w -/
theorem py_rejects_wide_closed (e : Decl) (hwf : EnumWF e) (hclosed : otherTag e.tags = none)
    (x : Nat) (h : 2 ^ e.width ≤ x) : pyFromInt e x = .raise := by
  unfold pyFromInt
  have h1 : (topTags e.tags).find? (·.value == x) = none := by
    rw [List.find?_eq_none]; intro t ht hv
    have := hwf.named_lt t (topTags_sub_named _ t ht)
    have : t.value = x := by simpa using hv
    omega
  have h2 : (ranges e.tags).any (inRng · x) = false := by
    simp only [List.any_eq_false]; intro r hr hv
    have := hwf.range_ok r hr
    simp [inRng] at hv; omega
  simp [h1, h2, hclosed]

/-- **Negation witness (H21).** The full statement "Python rejects integers at or above
    2^w" is *false* of `from_int` on open enums: the emitted handler is `return v`. -/
def pyOpenWitness : Decl := ⟨3, [.value ⟨"A", 0, {}⟩, .other "UNKNOWN" {}]⟩
theorem py_open_accepts_wide : pyFromInt pyOpenWitness 200 = .int 200 ∧ 2 ^ pyOpenWitness.width ≤ 200 := by
  decide

/-! ### Non-vacuity: the hypotheses are met by a concrete, non-trivial enum
    (`IncompleteTruncatedOpenWithRange` of the repository's snapshot test). -/

def exE : Decl :=
  ⟨3, [.value ⟨"A", 0, {}⟩, .range "B" 1 6 [⟨"X", 1, {}⟩, ⟨"Y", 2, {}⟩] {}, .other "UNKNOWN" {}]⟩

example : EnumWF exE where
  width_le := by decide
  named_lt := by decide
  range_ok := by decide
  no_shadow := by simp [exE, NoLateShadow, namedTags]
  ids_nodup := by decide

example : rustFromArms? exE = some
    [(.lit 0, .named "A"), (.lit 1, .named "X"), (.lit 2, .named "Y"), (.rng 1 6, .inRange "B"),
     (.rng 0 7, .dflt "UNKNOWN"), (.wild, .err)] := by decide

example : NestedInside exE.tags := by simp [exE, NestedInside]

end Enum
end Pdlv
