/-
  Pdlv.Ast — the PDL abstract syntax, mirroring pdl-compiler/src/ast.rs.

  Core Lean only (no Mathlib, no `Lean` import) so that everything built on it
  links into the native driver.  The JSON reader for serde's output lives in
  `Pdlv.Json`.
-/

namespace Pdlv

structure SrcLoc where
  offset : Nat := 0
  line : Nat := 0
  column : Nat := 0
deriving DecidableEq, Repr, Inhabited

structure SrcRange where
  start : SrcLoc := {}
  stop : SrcLoc := {}
deriving DecidableEq, Repr, Inhabited

inductive Endian | little | big
deriving DecidableEq, Repr, Inhabited

structure TagV where
  id : String
  value : Nat
  loc : SrcRange := {}
deriving DecidableEq, Repr, Inhabited

inductive Tag
  | value (t : TagV)
  | range (id : String) (lo hi : Nat) (tags : List TagV) (loc : SrcRange)
  | other (id : String) (loc : SrcRange)
deriving DecidableEq, Repr, Inhabited

def Tag.id : Tag → String
  | .value t => t.id
  | .range id .. => id
  | .other id _ => id

def Tag.loc : Tag → SrcRange
  | .value t => t.loc
  | .range _ _ _ _ l => l
  | .other _ l => l

structure Constraint where
  id : String
  value : Option Nat
  tagId : Option String
  loc : SrcRange := {}
deriving DecidableEq, Repr, Inhabited

inductive FieldDesc
  | checksum (fieldId : String)
  | padding (octets : Nat)
  | size (fieldId : String) (width : Nat)
  | count (fieldId : String) (width : Nat)
  | elementSize (fieldId : String) (width : Nat)
  | body
  | payload (modifier : Option String)
  | fixedScalar (width value : Nat)
  | fixedEnum (enumId tagId : String)
  | reserved (width : Nat)
  | array (id : String) (width : Option Nat) (typeId : Option String)
          (modifier : Option String) (count : Option Nat)
  | scalar (id : String) (width : Nat)
  | flag (id : String) (opt : List (String × Nat))
  | typedef (id typeId : String)
  | group (groupId : String) (cs : List Constraint)
deriving DecidableEq, Repr, Inhabited

structure Field where
  desc : FieldDesc
  cond : Option Constraint := none
  loc : SrcRange := {}
deriving DecidableEq, Repr, Inhabited

def Field.id? (f : Field) : Option String :=
  match f.desc with
  | .array id .. => some id
  | .scalar id _ => some id
  | .flag id _ => some id
  | .typedef id _ => some id
  | _ => none

def Field.kind (f : Field) : String :=
  match f.desc with
  | .checksum _ => "payload"
  | .padding _ => "padding"
  | .size .. => "size"
  | .count .. => "count"
  | .elementSize .. => "elementsize"
  | .body => "body"
  | .payload _ => "payload"
  | .fixedScalar .. | .fixedEnum .. => "fixed"
  | .reserved _ => "reserved"
  | .group .. => "group"
  | .array .. => "array"
  | .scalar .. | .flag .. => "scalar"
  | .typedef .. => "typedef"

inductive DeclDesc
  | checksum (id fn : String) (width : Nat)
  | customField (id : String) (width : Option Nat) (fn : String)
  | enum (id : String) (tags : List Tag) (width : Nat)
  | packet (id : String) (cs : List Constraint) (fields : List Field) (parent : Option String)
  | struct (id : String) (cs : List Constraint) (fields : List Field) (parent : Option String)
  | group (id : String) (fields : List Field)
  | test (typeId : String)
deriving DecidableEq, Repr, Inhabited

structure Decl where
  desc : DeclDesc
  loc : SrcRange := {}
deriving DecidableEq, Repr, Inhabited

def Decl.id? (d : Decl) : Option String :=
  match d.desc with
  | .test _ => none
  | .checksum id .. | .customField id .. | .enum id .. | .packet id .. | .struct id ..
  | .group id _ => some id

def Decl.parent? (d : Decl) : Option String :=
  match d.desc with
  | .packet _ _ _ p | .struct _ _ _ p => p
  | _ => none

def Decl.constraints (d : Decl) : List Constraint :=
  match d.desc with
  | .packet _ cs _ _ | .struct _ cs _ _ => cs
  | _ => []

def Decl.fields (d : Decl) : List Field :=
  match d.desc with
  | .packet _ _ fs _ | .struct _ _ fs _ | .group _ fs => fs
  | _ => []

def Decl.kind (d : Decl) : String :=
  match d.desc with
  | .checksum .. => "checksum"
  | .customField .. => "custom field"
  | .enum .. => "enum"
  | .packet .. => "packet"
  | .struct .. => "struct"
  | .group .. => "group"
  | .test .. => "test"

structure File where
  endian : Endian
  decls : List Decl
deriving DecidableEq, Repr, Inhabited

/-- `Scope.typedef`: the *last* declaration with a given id wins in a Rust `HashMap::insert`
    loop; the analyzer rejects duplicates (E1) so on analyzed files first = last. -/
def File.lookup (f : File) (id : String) : Option Decl :=
  f.decls.find? (fun d => d.id? == some id)

def File.children (f : File) (d : Decl) : List Decl :=
  match d.id? with
  | none => []
  | some id => f.decls.filter (fun c => c.parent? == some id)

end Pdlv
