/-
  Pdlv.Runtime — the provided methods of `trait Packet` (pdl-runtime/src/lib.rs), written over
  an arbitrary implementor.

  A slice `&[u8]` is a `Bytes` value; `decode_mut(&mut buf)` returns the result together with
  the caller's slice afterwards.  `encode(&self, buf: &mut impl BufMut)` is abstracted as the
  bytes it appends: every write the generated code performs is a `BufMut::put_*`, whose
  contract is to append (modelled, not verified: the `bytes` crate).
-/
import Pdlv.Wire

namespace Pdlv
namespace Runtime

structure Impl (α : Type) where
  decode : Bytes → Dec (α × Bytes)
  /-- the bytes `encode` appends to its buffer -/
  encode : α → Enc Bytes
  encodedLen : α → Nat

variable {α : Type}

/-- `fn decode_mut(buf: &mut &[u8])`:
    `let (packet, remaining) = Self::decode(buf)?; *buf = remaining; Ok(packet)` -/
def decodeMut (P : Impl α) (buf : Bytes) : Dec α × Bytes :=
  match P.decode buf with
  | .ok (v, rest) => (.ok v, rest)
  | .err e => (.err e, buf)
  | .panic h => (.panic h, buf)

/-- `fn decode_full(buf)`: `if remaining.is_empty() { Ok(packet) } else { Err(TrailingBytesError) }` -/
def decodeFull (P : Impl α) (buf : Bytes) : Dec α :=
  match P.decode buf with
  | .ok (v, rest) => if rest.isEmpty then .ok v else .err .trailingBytes
  | .err e => .err e
  | .panic h => .panic h

/-- `encode` into a caller's buffer holding `buf` -/
def encodeInto (P : Impl α) (v : α) (buf : Bytes) : Enc Bytes :=
  match P.encode v with
  | .ok bs => .ok (buf ++ bs)
  | .err e => .err e
  | .panic h => .panic h

/-- `encode_to_vec`: `Vec::with_capacity(len); self.encode(&mut buf)?; Ok(buf)` -/
def encodeToVec (P : Impl α) (v : α) : Enc Bytes := encodeInto P v []

/-- `encode_to_bytes`: the same through `BytesMut` and `freeze` -/
def encodeToBytes (P : Impl α) (v : α) : Enc Bytes := encodeInto P v []

/-- the implementor generated for a packet / struct of a description -/
def ofBody (c : Cfg) (b : Body) : Impl Value :=
  { decode := decBody c b, encode := encBody c b, encodedLen := lenBody b }

end Runtime
end Pdlv
