/-
  Pdlv.Schema — model of `analyzer::Schema::new`, `element_size`, `array_size`
  (pdl-compiler/src/analyzer.rs).

  `Schema::new` walks the declarations in file order and indexes hash maps with the keys
  of already-annotated declarations (`self.decl_size[&key]` panics on a missing key).  The
  model is the same fold; `none` = the real code panics (a typedef'd declaration that has
  not been annotated yet — impossible after `analyze`, which sorts topologically).
-/
import Pdlv.Ast

namespace Pdlv

inductive Size
  | static (bits : Nat)
  | dynamic
  | unknown
deriving DecidableEq, Repr, Inhabited

namespace Size
def add : Size → Size → Size
  | unknown, _ | _, unknown => unknown
  | dynamic, _ | _, dynamic => dynamic
  | static a, static b => static (a + b)

def mulNat : Size → Nat → Size
  | unknown, _ => unknown
  | dynamic, _ => dynamic
  | static a, n => static (a * n)

instance : Add Size := ⟨add⟩

def static? : Size → Option Nat
  | static n => some n
  | _ => none
end Size

structure DeclSizes where
  declSize : Size
  parentSize : Size
  payloadSize : Size
deriving DecidableEq, Repr, Inhabited

def DeclSizes.total (s : DeclSizes) : Size := s.declSize + s.parentSize + s.payloadSize

structure FieldSizes where
  fieldSize : Size
  padded : Option Nat      -- bits
deriving DecidableEq, Repr, Inhabited

structure DeclSchema where
  id : Option String
  sizes : DeclSizes
  fields : List FieldSizes
deriving Repr, Inhabited

abbrev SEnv := List (String × DeclSizes)

def hasPayloadSize (fs : List Field) : Bool :=
  fs.any fun f => match f.desc with
    | .size t _ => t == "_body_" || t == "_payload_"
    | _ => false

def hasArraySize (fs : List Field) (id : String) : Bool :=
  fs.any fun f => match f.desc with
    | .size t _ | .count t _ => t == id
    | _ => false

/-- `annotate_field` -/
def fieldSize (env : SEnv) (declFields : List Field) (f : Field) : Option Size :=
  if f.cond.isSome then some .dynamic else
  match f.desc with
  | .checksum _ | .padding _ => some (.static 0)
  | .size _ w | .count _ w | .elementSize _ w | .fixedScalar w _ | .reserved w | .scalar _ w =>
    some (.static w)
  | .flag _ _ => some (.static 1)
  | .body | .payload _ => some (if hasPayloadSize declFields then .dynamic else .unknown)
  | .typedef _ t | .fixedEnum t _ | .group t _ => (env.lookup t).map DeclSizes.total
  | .array _ (some w) _ _ (some n) => some (.static (n * w))
  | .array _ none (some t) _ (some n) => (env.lookup t).map fun s => s.total.mulNat n
  | .array id _ _ _ none => some (if hasArraySize declFields id then .dynamic else .unknown)
  | .array _ none none _ (some _) => none      -- `unreachable!()`

/-- padding look-ahead: a field is padded iff the next field is a `_padding_` -/
def paddedSizes : List Field → List (Option Nat)
  | [] => []
  | [_] => [none]
  | _ :: g :: rest =>
    (match g.desc with
     | .padding n => some (8 * n)
     | _ => none) :: paddedSizes (g :: rest)

def annotateFields (env : SEnv) (all : List Field) :
    List Field → List (Option Nat) → Option (List FieldSizes)
  | [], _ => some []
  | f :: fs, p :: ps =>
    match fieldSize env all f, annotateFields env all fs ps with
    | some s, some r => some ({ fieldSize := s, padded := p } :: r)
    | _, _ => none
  | _ :: _, [] => none

/-- the field loop of `annotate_decl`: running `decl_size` and `payload_size`
    (every payload field overwrites `payload_size`, so the last one wins) -/
def sumDecl : List Field → List FieldSizes → Size → Size → Size × Size
  | f :: fs, s :: ss, d, p =>
    match f.desc with
    | .payload _ | .body => sumDecl fs ss d s.fieldSize
    | _ => sumDecl fs ss (d + (match s.padded with | some pad => Size.static pad | none => s.fieldSize)) p
  | _, _, d, p => (d, p)

def annotateDecl (env : SEnv) (d : Decl) : Option DeclSchema :=
  let fs := d.fields
  match annotateFields env fs fs (paddedSizes fs) with
  | none => none
  | some fsz =>
    let parentSize : Size := match d.parent? with
      | none => .static 0
      | some p => match env.lookup p with
        | some s => s.declSize + s.parentSize
        | none => .static 0
    let (ds, ps) := sumDecl fs fsz (.static 0) (.static 0)
    let (ds, ps) : Size × Size := match d.desc with
      | .packet .. | .struct .. | .group .. => (ds, ps)
      | .enum _ _ w | .checksum _ _ w | .customField _ (some w) _ => (.static w, .static 0)
      | .customField _ none _ => (.dynamic, .static 0)
      | .test _ => (.static 0, .static 0)
    some { id := d.id?, sizes := { declSize := ds, parentSize := parentSize, payloadSize := ps },
           fields := fsz }

def schemaFold : SEnv → List Decl → Option (List DeclSchema)
  | _, [] => some []
  | env, d :: ds =>
    match annotateDecl env d with
    | none => none
    | some s =>
      let env' := match d.id? with
        | some id => (id, s.sizes) :: env
        | none => env
      (schemaFold env' ds).map (s :: ·)

def Schema.build (f : File) : Option (List DeclSchema) := schemaFold [] f.decls

def Schema.total (sc : List DeclSchema) (id : String) : Option Size :=
  (sc.find? (·.id == some id)).map (·.sizes.total)

/-! ### `element_size` / `array_size` -/

inductive ElementSize | static (octets : Nat) | dynamic | unknown
deriving DecidableEq, Repr, Inhabited

inductive ArraySize | staticCount (n : Nat) | dynamicCount | dynamicSize | unknown
deriving DecidableEq, Repr, Inhabited

def hasElementSize (fs : List Field) (id : String) : Bool :=
  fs.any fun f => match f.desc with
    | .elementSize t _ => t == id
    | _ => false

def elementSize (sc : List DeclSchema) (d : Decl) (f : Field) : Option ElementSize :=
  match f.desc with
  | .array _ (some w) _ _ _ => some (.static (w / 8))
  | .array id none (some t) _ _ =>
    match Schema.total sc t with
    | none => none
    | some (.static w) => some (.static (w / 8))
    | some _ => some (if hasElementSize d.fields id then .dynamic else .unknown)
  | _ => some .unknown

def arraySize (d : Decl) (f : Field) : ArraySize :=
  match f.desc with
  | .array _ _ _ _ (some n) => .staticCount n
  | .array id _ _ _ none =>
    match d.fields.find? (fun g => match g.desc with
        | .size t _ | .count t _ => t == id
        | _ => false) with
    | some g => (match g.desc with
        | .count .. => .dynamicCount
        | .size .. => .dynamicSize
        | _ => .unknown)
    | none => .unknown
  | _ => .unknown

end Pdlv
