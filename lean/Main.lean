/-
  pdlv — line-protocol driver for the executable models.
  One JSON request per line on stdin, one JSON response per line on stdout.
-/
import Pdlv.Driver

def main : IO Unit := Pdlv.Driver.main
