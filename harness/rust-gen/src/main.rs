// Harness around pdlc-generated Rust: one request per line
//   <desc> <type> <op> <arg>
// one JSON response per line.  Every request runs under catch_unwind.
#![allow(unused, non_camel_case_types, non_snake_case, clippy::all)]
use pdl_runtime::{DecodeError, EncodeError, Packet};
use serde_json::{json, Value};
use std::alloc::{GlobalAlloc, Layout, System};
use std::io::{BufRead, Write};
use std::sync::atomic::{AtomicUsize, Ordering};
use std::sync::Mutex;

pub mod gen;

struct Counting;
static LIVE: AtomicUsize = AtomicUsize::new(0);
static PEAK: AtomicUsize = AtomicUsize::new(0);
const SINGLE_CAP: usize = 1 << 31;

unsafe impl GlobalAlloc for Counting {
    unsafe fn alloc(&self, l: Layout) -> *mut u8 {
        if l.size() > SINGLE_CAP {
            return std::ptr::null_mut();
        }
        let p = System.alloc(l);
        if !p.is_null() {
            let live = LIVE.fetch_add(l.size(), Ordering::Relaxed) + l.size();
            PEAK.fetch_max(live, Ordering::Relaxed);
        }
        p
    }
    unsafe fn dealloc(&self, p: *mut u8, l: Layout) {
        LIVE.fetch_sub(l.size(), Ordering::Relaxed);
        System.dealloc(p, l)
    }
}
#[global_allocator]
static A: Counting = Counting;

static LAST_PANIC: Mutex<Option<String>> = Mutex::new(None);

pub fn hex(b: &[u8]) -> String {
    b.iter().map(|x| format!("{:02x}", x)).collect()
}
pub fn unhex(s: &str) -> Vec<u8> {
    (0..s.len() / 2).map(|i| u8::from_str_radix(&s[2 * i..2 * i + 2], 16).unwrap()).collect()
}
pub fn variant<E: std::fmt::Debug>(e: &E) -> String {
    let s = format!("{:?}", e);
    s.split(|c: char| c == ' ' || c == '{' || c == '(').next().unwrap_or("").to_string()
}

pub fn packet_ops<T>(op: &str, arg: &str) -> Value
where
    T: Packet + serde::Serialize + serde::de::DeserializeOwned + PartialEq + std::fmt::Debug + Clone,
{
    match op {
        "dec" => {
            let b = unhex(arg);
            match T::decode(&b) {
                Ok((v, rest)) => {
                    let suffix = b.len() >= rest.len() && &b[b.len() - rest.len()..] == rest;
                    json!({"r": "ok", "value": serde_json::to_value(&v).unwrap(), "rest": rest.len(), "suffix": suffix})
                }
                Err(e) => json!({"r": "err", "e": variant(&e)}),
            }
        }
        "decfull" => {
            let b = unhex(arg);
            match T::decode_full(&b) {
                Ok(v) => json!({"r": "ok", "value": serde_json::to_value(&v).unwrap(), "rest": 0}),
                Err(e) => json!({"r": "err", "e": variant(&e)}),
            }
        }
        "decmut" => {
            let b = unhex(arg);
            let mut s: &[u8] = &b;
            match T::decode_mut(&mut s) {
                Ok(v) => {
                    let suffix = b.len() >= s.len() && &b[b.len() - s.len()..] == s;
                    json!({"r": "ok", "value": serde_json::to_value(&v).unwrap(), "rest": s.len(), "suffix": suffix})
                }
                Err(e) => json!({"r": "err", "e": variant(&e), "untouched": s.len() == b.len() && s.as_ptr() == b.as_ptr()}),
            }
        }
        "enc" | "encall" | "len" | "rt" => {
            let v: T = match serde_json::from_str(arg) {
                Ok(v) => v,
                Err(e) => return json!({"r": "badvalue", "m": e.to_string()}),
            };
            match op {
                "len" => json!({"r": "ok", "len": v.encoded_len()}),
                "enc" => match v.encode_to_vec() {
                    Ok(b) => json!({"r": "ok", "hex": hex(&b), "len": v.encoded_len()}),
                    Err(e) => json!({"r": "err", "e": variant(&e)}),
                },
                "rt" => match v.encode_to_vec() {
                    Ok(b) => match T::decode_full(&b) {
                        Ok(w) => json!({"r": "ok", "hex": hex(&b), "eq": w == v, "value": serde_json::to_value(&w).unwrap()}),
                        Err(e) => json!({"r": "ok", "hex": hex(&b), "eq": false, "dec_err": variant(&e)}),
                    },
                    Err(e) => json!({"r": "err", "e": variant(&e)}),
                },
                _ => {
                    let f = |r: Result<Vec<u8>, EncodeError>| match r {
                        Ok(b) => json!({"ok": hex(&b)}),
                        Err(e) => json!({"err": variant(&e)}),
                    };
                    let a = f(v.encode_to_vec());
                    let b = f(v.encode_to_bytes().map(|b| b.to_vec()));
                    let mut pv: Vec<u8> = vec![0xAA, 0xBB, 0xCC];
                    let c = f(v.encode(&mut pv).map(|_| pv.clone()));
                    let mut bm = bytes::BytesMut::new();
                    bm.extend_from_slice(&[0xAA, 0xBB, 0xCC]);
                    let d = f(v.encode(&mut bm).map(|_| bm.to_vec()));
                    let mut empty: Vec<u8> = vec![];
                    let e = f(v.encode(&mut empty).map(|_| empty.clone()));
                    json!({"r": "ok", "to_vec": a, "to_bytes": b, "append_vec": c, "append_bytesmut": d, "encode": e, "len": v.encoded_len()})
                }
            }
        }
        _ => json!({"r": "badop"}),
    }
}

pub fn from_json<T: serde::de::DeserializeOwned>(arg: &str) -> Result<T, Value> {
    serde_json::from_str(arg).map_err(|e| json!({"r": "badvalue", "m": e.to_string()}))
}

pub fn dec_result<T: serde::Serialize>(r: Result<T, DecodeError>) -> Value {
    match r {
        Ok(v) => json!({"r": "ok", "value": serde_json::to_value(&v).unwrap()}),
        Err(e) => json!({"r": "err", "e": variant(&e)}),
    }
}

pub fn enc_result<T: serde::Serialize>(r: Result<T, EncodeError>) -> Value {
    match r {
        Ok(v) => json!({"r": "ok", "value": serde_json::to_value(&v).unwrap()}),
        Err(e) => json!({"r": "err", "e": variant(&e)}),
    }
}

fn main() {
    std::panic::set_hook(Box::new(|info| {
        let msg = if let Some(s) = info.payload().downcast_ref::<&str>() {
            s.to_string()
        } else if let Some(s) = info.payload().downcast_ref::<String>() {
            s.clone()
        } else {
            "panic".to_string()
        };
        let loc = info.location().map(|l| format!("{}:{}", l.file(), l.line())).unwrap_or_default();
        *LAST_PANIC.lock().unwrap() = Some(format!("{} @ {}", msg, loc));
    }));
    let stdin = std::io::stdin();
    let stdout = std::io::stdout();
    for line in stdin.lock().lines() {
        let line = match line {
            Ok(l) => l,
            Err(_) => break,
        };
        let mut it = line.splitn(4, ' ');
        let (d, t, op, arg) = (it.next().unwrap_or(""), it.next().unwrap_or(""), it.next().unwrap_or(""), it.next().unwrap_or(""));
        let base = LIVE.load(Ordering::Relaxed);
        PEAK.store(base, Ordering::Relaxed);
        let r = std::panic::catch_unwind(std::panic::AssertUnwindSafe(|| gen::dispatch(d, t, op, arg)));
        let mut resp = match r {
            Ok(v) => v,
            Err(_) => {
                let m = LAST_PANIC.lock().unwrap().take().unwrap_or_default();
                json!({"r": "panic", "m": m})
            }
        };
        let peak = PEAK.load(Ordering::Relaxed).saturating_sub(base);
        if let Some(o) = resp.as_object_mut() {
            o.insert("peak".into(), json!(peak));
        }
        let mut o = stdout.lock();
        writeln!(o, "{}", resp).unwrap();
        o.flush().unwrap();
    }
}
