// Generic, reflection-based harness around pdlc-generated Java.
//
//   java -ea -cp <classes>:<harness classes> Harness <schema.json>
//   java -cp <harness classes> Harness --compile <classes dir> <src dir> <pkg>...   (build step)
//
// One request per line on stdin:   <desc> <type> <op> <arg>
// one JSON response per line on stdout.  The schema (written by vlib/javagen.py from the
// analyzed AST of every description) tells which class / builder / getters / setters belong to
// which declaration and how the fields map to the JSON value shape of the Rust harness and the
// Lean model; no per-type code lives here.
//
// ops:  enc <json value>   build the object with the generated Builder, call toBytes()
//       dec <hex>          <Type>.fromBytes(byte[]), object -> JSON value by its getters
//       size <json value>  build the object, call width()
//       str <json value>   build the object, call toString()
//       tag <int>          (enum types) <Enum>.from<Byte|Short|Int|Long>(v)
import java.io.BufferedReader;
import java.io.InputStreamReader;
import java.io.OutputStream;
import java.io.PrintStream;
import java.lang.reflect.Array;
import java.lang.reflect.Constructor;
import java.lang.reflect.InvocationTargetException;
import java.lang.reflect.Method;
import java.lang.reflect.Modifier;
import java.math.BigInteger;
import java.nio.charset.StandardCharsets;
import java.nio.file.Files;
import java.nio.file.Paths;
import java.util.ArrayList;
import java.util.HashMap;
import java.util.LinkedHashMap;
import java.util.List;
import java.util.Map;

public final class Harness {
    // ------------------------------------------------------------------ JSON
    static final class JsonError extends RuntimeException {
        JsonError(String m) { super(m); }
    }

    static final class Parser {
        final String s;
        int i = 0;
        Parser(String s) { this.s = s; }

        void ws() {
            while (i < s.length() && Character.isWhitespace(s.charAt(i))) i++;
        }

        Object value() {
            ws();
            if (i >= s.length()) throw new JsonError("unexpected end");
            char c = s.charAt(i);
            if (c == '{') {
                i++;
                Map<String, Object> m = new LinkedHashMap<>();
                ws();
                if (s.charAt(i) == '}') { i++; return m; }
                while (true) {
                    ws();
                    String k = string();
                    ws();
                    expect(':');
                    m.put(k, value());
                    ws();
                    if (s.charAt(i) == ',') { i++; continue; }
                    expect('}');
                    return m;
                }
            }
            if (c == '[') {
                i++;
                List<Object> l = new ArrayList<>();
                ws();
                if (s.charAt(i) == ']') { i++; return l; }
                while (true) {
                    l.add(value());
                    ws();
                    if (s.charAt(i) == ',') { i++; continue; }
                    expect(']');
                    return l;
                }
            }
            if (c == '"') return string();
            if (s.startsWith("null", i)) { i += 4; return null; }
            if (s.startsWith("true", i)) { i += 4; return Boolean.TRUE; }
            if (s.startsWith("false", i)) { i += 5; return Boolean.FALSE; }
            int j = i;
            if (j < s.length() && s.charAt(j) == '-') j++;
            while (j < s.length() && Character.isDigit(s.charAt(j))) j++;
            boolean integral = true;
            while (j < s.length() && "+-.eE0123456789".indexOf(s.charAt(j)) >= 0) { integral = false; j++; }
            if (j == i) throw new JsonError("unexpected character '" + c + "' at " + i);
            String num = s.substring(i, j);
            i = j;
            if (integral) return new BigInteger(num);
            return Double.valueOf(num);
        }

        void expect(char c) {
            if (i >= s.length() || s.charAt(i) != c) throw new JsonError("expected '" + c + "' at " + i);
            i++;
        }

        String string() {
            expect('"');
            StringBuilder b = new StringBuilder();
            while (true) {
                char c = s.charAt(i++);
                if (c == '"') return b.toString();
                if (c == '\\') {
                    char e = s.charAt(i++);
                    switch (e) {
                        case 'n': b.append('\n'); break;
                        case 't': b.append('\t'); break;
                        case 'r': b.append('\r'); break;
                        case 'b': b.append('\b'); break;
                        case 'f': b.append('\f'); break;
                        case 'u': b.append((char) Integer.parseInt(s.substring(i, i + 4), 16)); i += 4; break;
                        default: b.append(e);
                    }
                } else {
                    b.append(c);
                }
            }
        }
    }

    static Object parseJson(String s) {
        Parser p = new Parser(s);
        Object v = p.value();
        p.ws();
        if (p.i != s.length()) throw new JsonError("trailing characters at " + p.i);
        return v;
    }

    static void quote(StringBuilder b, String s) {
        b.append('"');
        for (int i = 0; i < s.length(); i++) {
            char c = s.charAt(i);
            if (c == '"' || c == '\\') b.append('\\').append(c);
            else if (c == '\n') b.append("\\n");
            else if (c < 0x20 || c > 0x7e) b.append(String.format("\\u%04x", (int) c));
            else b.append(c);
        }
        b.append('"');
    }

    @SuppressWarnings("unchecked")
    static void write(StringBuilder b, Object o) {
        if (o == null) b.append("null");
        else if (o instanceof String) quote(b, (String) o);
        else if (o instanceof Map) {
            b.append('{');
            boolean first = true;
            for (Map.Entry<String, Object> e : ((Map<String, Object>) o).entrySet()) {
                if (!first) b.append(',');
                first = false;
                quote(b, e.getKey());
                b.append(':');
                write(b, e.getValue());
            }
            b.append('}');
        } else if (o instanceof List) {
            b.append('[');
            boolean first = true;
            for (Object x : (List<Object>) o) {
                if (!first) b.append(',');
                first = false;
                write(b, x);
            }
            b.append(']');
        } else b.append(o.toString());   // BigInteger, Long, Integer, Boolean
    }

    static Map<String, Object> obj(Object... kv) {
        Map<String, Object> m = new LinkedHashMap<>();
        for (int i = 0; i + 1 < kv.length; i += 2) m.put((String) kv[i], kv[i + 1]);
        return m;
    }

    // ------------------------------------------------------------------ errors
    /** The JSON value cannot be turned into the back end's object. */
    static final class BadValue extends Exception {
        BadValue(String m) { super(m); }
    }

    /** The harness / schema does not fit the generated code (a bug of the glue, not of the back end). */
    static final class Glue extends Exception {
        Glue(String m) { super(m); }
    }

    /** The type cannot be handled (e.g. no constructible class). */
    static final class Unsupported extends Exception {
        Unsupported(String m) { super(m); }
    }

    /** Generated code threw. */
    static final class Thrown extends Exception {
        final Throwable t;
        final String at;
        Thrown(Throwable t, String at) { super(t); this.t = t; this.at = at; }
    }

    // ------------------------------------------------------------------ schema access
    static Map<String, Object> schema;
    static final Map<String, Class<?>> classCache = new HashMap<>();
    static final Map<String, Method> methodCache = new HashMap<>();

    @SuppressWarnings("unchecked")
    static Map<String, Object> m(Object o) { return (Map<String, Object>) o; }

    @SuppressWarnings("unchecked")
    static List<Object> l(Object o) { return (List<Object>) o; }

    static Class<?> load(String pkg, String cls) throws Glue {
        String n = pkg + "." + cls;
        Class<?> c = classCache.get(n);
        if (c == null) {
            try {
                c = Class.forName(n);
            } catch (ClassNotFoundException | LinkageError e) {
                throw new Glue("cannot load class " + n + ": " + e);
            }
            classCache.put(n, c);
        }
        return c;
    }

    /** A method by name (and arity) anywhere in the class's hierarchy, made accessible. */
    static Method method(Class<?> c, String name, int arity) throws Glue {
        String key = c.getName() + "#" + name + "/" + arity;
        Method r = methodCache.get(key);
        if (r != null) return r;
        if (methodCache.containsKey(key)) throw new Glue("no method " + name + "/" + arity + " in " + c.getName());
        for (Class<?> k = c; k != null && r == null; k = k.getSuperclass()) {
            for (Method x : k.getDeclaredMethods()) {
                if (x.getName().equals(name) && x.getParameterCount() == arity && !x.isBridge() && !x.isSynthetic()) {
                    r = x;
                    break;
                }
            }
        }
        methodCache.put(key, r);
        if (r == null) throw new Glue("no method " + name + "/" + arity + " in " + c.getName());
        try {
            r.setAccessible(true);
        } catch (RuntimeException e) {
            throw new Glue("cannot access " + key + ": " + e);
        }
        return r;
    }

    /** A static method declared by exactly this class or inherited from a superclass, by signature. */
    static Method staticMethod(Class<?> c, String name, Class<?>... sig) throws Glue {
        StringBuilder kb = new StringBuilder(c.getName()).append("::").append(name);
        for (Class<?> s : sig) kb.append(',').append(s.getName());
        String key = kb.toString();
        Method r = methodCache.get(key);
        if (r != null) return r;
        for (Class<?> k = c; k != null && r == null; k = k.getSuperclass()) {
            try {
                Method x = k.getDeclaredMethod(name, sig);
                if (Modifier.isStatic(x.getModifiers())) r = x;
            } catch (NoSuchMethodException e) {
                // keep looking
            }
        }
        if (r == null) throw new Glue("no static method " + key);
        r.setAccessible(true);
        methodCache.put(key, r);
        return r;
    }

    static Object call(Method mth, Object self, String at, Object... args) throws Thrown, Glue {
        try {
            return mth.invoke(self, args);
        } catch (InvocationTargetException e) {
            throw new Thrown(e.getCause(), at);
        } catch (IllegalAccessException | IllegalArgumentException e) {
            throw new Glue("cannot invoke " + mth + ": " + e);
        }
    }

    // ------------------------------------------------------------------ scalars
    static int javaBits(int w) {
        return w <= 8 ? 8 : w <= 16 ? 16 : w <= 32 ? 32 : 64;
    }

    static Class<?> primClass(int w) {
        return w <= 8 ? byte.class : w <= 16 ? short.class : w <= 32 ? int.class : long.class;
    }

    static String cap(int w) {
        return w <= 8 ? "Byte" : w <= 16 ? "Short" : w <= 32 ? "Int" : "Long";
    }

    static Object toPrim(Object json, int w, boolean allowBool, String where) throws BadValue {
        if (!(json instanceof BigInteger)) throw new BadValue(where + ": expected an integer, got " + show(json));
        BigInteger v = (BigInteger) json;
        if (v.signum() < 0) throw new BadValue(where + ": negative value " + v);
        if (w == 1 && allowBool) {
            if (v.bitLength() > 1) throw new BadValue(where + ": " + v + " does not fit boolean");
            return v.signum() != 0;
        }
        int bits = javaBits(w);
        if (v.bitLength() > bits) throw new BadValue(where + ": " + v + " does not fit the Java type (" + bits + " bits)");
        switch (bits) {
            case 8: return (byte) v.intValue();
            case 16: return (short) v.intValue();
            case 32: return v.intValue();
            default: return v.longValue();
        }
    }

    static Object fromPrim(Object o) throws Glue {
        if (o instanceof Boolean) return ((Boolean) o) ? 1 : 0;
        if (o instanceof Byte) return ((Byte) o) & 0xff;
        if (o instanceof Short) return ((Short) o) & 0xffff;
        if (o instanceof Integer) return ((Integer) o) & 0xffffffffL;
        if (o instanceof Long) {
            long x = (Long) o;
            if (x >= 0) return x;
            return new BigInteger(Long.toUnsignedString(x));
        }
        throw new Glue("not a primitive: " + (o == null ? "null" : o.getClass().getName()));
    }

    static String show(Object json) {
        StringBuilder b = new StringBuilder();
        write(b, json);
        String s = b.toString();
        return s.length() > 80 ? s.substring(0, 80) + "..." : s;
    }

    // ------------------------------------------------------------------ value -> object
    static final class Desc {
        final String pkg;
        final Map<String, Object> types, classes;
        Desc(Map<String, Object> d) {
            pkg = (String) d.get("pkg");
            types = m(d.get("types"));
            classes = m(d.get("classes"));
        }
    }

    static final Map<String, Desc> descs = new HashMap<>();

    static int intOf(Object o) { return ((BigInteger) o).intValue(); }

    static Object enumOf(Desc d, String typeId, Object json, String where) throws BadValue, Glue {
        Map<String, Object> t = m(d.types.get(typeId));
        if (t == null) throw new Glue("unknown enum " + typeId);
        int w = intOf(t.get("w"));
        Object prim = toPrim(json, w, false, where);
        Class<?> c = load(d.pkg, (String) t.get("cls"));
        Method from = staticMethod(c, "from" + cap(w), primClass(w));
        try {
            return call(from, null, where, prim);
        } catch (Thrown e) {
            throw new BadValue(where + ": " + e.t.getClass().getSimpleName() + ": " + e.t.getMessage());
        }
    }

    static Object elemToJava(Desc d, Map<String, Object> f, Object json, String where)
            throws BadValue, Glue, Thrown, Unsupported {
        String k = (String) f.get("k");
        switch (k) {
            case "int": return toPrim(json, intOf(f.get("w")), !Boolean.TRUE.equals(f.get("elem")), where);
            case "enum": return enumOf(d, (String) f.get("t"), json, where);
            case "struct": return build(d, (String) f.get("t"), json, where);
            case "array": {
                if (!(json instanceof List)) throw new BadValue(where + ": expected a list, got " + show(json));
                List<Object> xs = l(json);
                Map<String, Object> e = m(f.get("e"));
                Class<?> comp = compClass(d, e);
                Object arr = Array.newInstance(comp, xs.size());
                for (int i = 0; i < xs.size(); i++) {
                    Array.set(arr, i, elemToJava(d, e, xs.get(i), where + "[" + i + "]"));
                }
                return arr;
            }
            default: throw new Glue("unknown field kind " + k);
        }
    }

    static Class<?> compClass(Desc d, Map<String, Object> e) throws Glue {
        String k = (String) e.get("k");
        if (k.equals("int")) return primClass(intOf(e.get("w")));
        Map<String, Object> t = m(d.types.get((String) e.get("t")));
        if (t == null) throw new Glue("unknown type " + e.get("t"));
        return load(d.pkg, (String) t.get("cls"));
    }

    static Object build(Desc d, String typeId, Object json, String where)
            throws BadValue, Glue, Thrown, Unsupported {
        Map<String, Object> t = m(d.types.get(typeId));
        if (t == null || t.get("fields") == null) throw new Glue("not a packet/struct type: " + typeId);
        if (t.get("unsupported") != null) throw new Unsupported((String) t.get("unsupported"));
        if (!(json instanceof Map)) throw new BadValue(where + ": expected an object, got " + show(json));
        Map<String, Object> v = m(json);
        List<Object> fields = l(t.get("fields"));
        boolean payload = Boolean.TRUE.equals(t.get("payload"));
        int expected = fields.size() + (payload ? 1 : 0);
        for (Object fo : fields) {
            if (!v.containsKey((String) m(fo).get("id"))) throw new BadValue(where + ": missing field " + m(fo).get("id"));
        }
        if (payload && !v.containsKey("payload")) throw new BadValue(where + ": missing field payload");
        if (v.size() != expected) {
            for (String key : v.keySet()) {
                boolean known = payload && key.equals("payload");
                for (Object fo : fields) known |= key.equals(m(fo).get("id"));
                if (!known) throw new BadValue(where + ": unknown field " + key);
            }
        }
        if (t.get("build") == null) throw new Unsupported((String) t.get("why"));
        Class<?> bc = load(d.pkg, t.get("build") + "$Builder");
        Object builder;
        try {
            Constructor<?> ctor = bc.getDeclaredConstructor();
            ctor.setAccessible(true);
            builder = ctor.newInstance();
        } catch (InvocationTargetException e) {
            throw new Thrown(e.getCause(), where + ":new Builder");
        } catch (ReflectiveOperationException e) {
            throw new Glue("cannot instantiate " + bc.getName() + ": " + e);
        }
        for (Object fo : fields) {
            Map<String, Object> f = m(fo);
            String id = (String) f.get("id");
            Object arg = elemToJava(d, f, v.get(id), where + "." + id);
            call(method(bc, (String) f.get("set"), 1), builder, where + "." + f.get("set"), arg);
        }
        if (payload) {
            Object pj = v.get("payload");
            if (!(pj instanceof List)) throw new BadValue(where + ".payload: expected a list, got " + show(pj));
            List<Object> xs = l(pj);
            byte[] bytes = new byte[xs.size()];
            for (int i = 0; i < bytes.length; i++) bytes[i] = (Byte) toPrim(xs.get(i), 8, false, where + ".payload[" + i + "]");
            call(method(bc, "setPayload", 1), builder, where + ".setPayload", (Object) bytes);
        }
        return call(method(bc, "build", 0), builder, where + ".build");
    }

    // ------------------------------------------------------------------ object -> value
    static Object elemFromJava(Desc d, Map<String, Object> f, Object o, String where) throws Glue, Thrown {
        String k = (String) f.get("k");
        if (o == null) throw new Glue(where + ": null");
        switch (k) {
            case "int": return fromPrim(o);
            case "enum": {
                Map<String, Object> t = m(d.types.get((String) f.get("t")));
                int w = intOf(t.get("w"));
                return fromPrim(call(method(o.getClass(), "to" + cap(w), 0), o, where + ".to" + cap(w)));
            }
            case "struct": return toValue(d, o, where)[1];
            case "array": {
                Map<String, Object> e = m(f.get("e"));
                int n = Array.getLength(o);
                List<Object> out = new ArrayList<>(n);
                for (int i = 0; i < n; i++) out.add(elemFromJava(d, e, Array.get(o, i), where + "[" + i + "]"));
                return out;
            }
            default: throw new Glue("unknown field kind " + k);
        }
    }

    /** Returns {declaration id, value}. */
    static Object[] toValue(Desc d, Object o, String where) throws Glue, Thrown {
        String simple = o.getClass().getSimpleName();
        String typeId = (String) d.classes.get(simple);
        if (typeId == null) throw new Glue(where + ": object of unknown class " + o.getClass().getName());
        Map<String, Object> t = m(d.types.get(typeId));
        Map<String, Object> out = new LinkedHashMap<>();
        for (Object fo : l(t.get("fields"))) {
            Map<String, Object> f = m(fo);
            Object x = call(method(o.getClass(), (String) f.get("get"), 0), o, where + "." + f.get("get"));
            out.put((String) f.get("id"), elemFromJava(d, f, x, where + "." + f.get("id")));
        }
        if (Boolean.TRUE.equals(t.get("payload"))) {
            Object x = call(method(o.getClass(), "getPayload", 0), o, where + ".getPayload");
            if (!(x instanceof byte[])) throw new Glue(where + ".getPayload: " + x);
            List<Object> bytes = new ArrayList<>();
            for (byte b : (byte[]) x) bytes.add(b & 0xff);
            out.put("payload", bytes);
        }
        return new Object[] {typeId, out};
    }

    // ------------------------------------------------------------------ requests
    static String hex(byte[] b) {
        StringBuilder s = new StringBuilder(b.length * 2);
        for (byte x : b) s.append(Character.forDigit((x >> 4) & 15, 16)).append(Character.forDigit(x & 15, 16));
        return s.toString();
    }

    static byte[] unhex(String s) throws BadValue {
        s = s.trim();
        if (s.length() % 2 != 0) throw new BadValue("odd number of hex digits");
        byte[] b = new byte[s.length() / 2];
        for (int i = 0; i < b.length; i++) {
            int hi = Character.digit(s.charAt(2 * i), 16), lo = Character.digit(s.charAt(2 * i + 1), 16);
            if (hi < 0 || lo < 0) throw new BadValue("not a hex digit");
            b[i] = (byte) (hi << 4 | lo);
        }
        return b;
    }

    static String msg(Throwable t) {
        String s = String.valueOf(t.getMessage());
        return s.length() > 300 ? s.substring(0, 300) + "..." : s;
    }

    /** Was the throwable raised by a `throw` in generated code (and not by the JDK under it)? */
    static boolean own(Desc d, Throwable t) {
        StackTraceElement[] st = t.getStackTrace();
        return st.length > 0 && st[0].getClassName().startsWith(d.pkg + ".");
    }

    static String top(Throwable t) {
        StackTraceElement[] st = t.getStackTrace();
        return st.length > 0 ? st[0].getClassName() + "." + st[0].getMethodName() : "";
    }

    static Map<String, Object> thrown(Desc d, Thrown e, boolean decoding) {
        Throwable t = e.t;
        boolean own = own(d, t);
        String r;
        if (decoding) r = (t instanceof Exception) ? "err" : "exception";
        else r = (t instanceof IllegalArgumentException && own) ? "err" : "exception";
        return obj("r", r, "e", t.getClass().getSimpleName(), "m", msg(t), "own", own, "at", e.at, "top", top(t));
    }

    static Map<String, Object> handle(String ds, String typeId, String op, String arg) {
        Desc d = descs.get(ds);
        if (d == null) return obj("r", "baddesc");
        Map<String, Object> t = m(d.types.get(typeId));
        if (t == null) return obj("r", "badtype");
        boolean decoding = op.equals("dec");
        try {
            if ("enum".equals(t.get("kind"))) {
                if (!op.equals("tag")) return obj("r", "badop");
                Object json = parseJson(arg);
                Object e = enumOf(d, typeId, json, typeId);
                int w = intOf(t.get("w"));
                Object back = fromPrim(call(method(e.getClass(), "to" + cap(w), 0), e, "to" + cap(w)));
                return obj("r", "ok", "class", e.getClass().getSimpleName(), "value", back, "str", String.valueOf(e));
            }
            switch (op) {
                case "dec": {
                    byte[] bytes = unhex(arg);
                    Class<?> c = load(d.pkg, (String) t.get("cls"));
                    Method from = staticMethod(c, "fromBytes", byte[].class);
                    Object o = call(from, null, "fromBytes", (Object) bytes);
                    if (o == null) return obj("r", "exception", "e", "null", "m", "fromBytes returned null");
                    if (!c.isInstance(o)) {
                        return obj("r", "err", "e", "ClassCastException", "own", false, "at", "fromBytes",
                                   "m", "inherited fromBytes returned " + o.getClass().getSimpleName()
                                        + " which is not a " + c.getSimpleName());
                    }
                    Object[] tv = toValue(d, o, typeId);
                    return obj("r", "ok", "type", tv[0], "class", o.getClass().getSimpleName(), "value", tv[1], "rest", 0);
                }
                case "enc": case "size": case "str": {
                    Object json;
                    try {
                        json = parseJson(arg);
                    } catch (RuntimeException e) {
                        return obj("r", "badvalue", "m", "json: " + e.getMessage());
                    }
                    Object o = build(d, typeId, json, typeId);
                    Object len = null;
                    String lenErr = null;
                    try {
                        len = call(method(o.getClass(), "width", 0), o, "width");
                    } catch (Thrown e) {
                        if (op.equals("size")) throw e;
                        lenErr = e.t.getClass().getSimpleName();
                    }
                    if (op.equals("size")) return obj("r", "ok", "len", len);
                    if (op.equals("str")) return obj("r", "ok", "s", String.valueOf(call(method(o.getClass(), "toString", 0), o, "toString")));
                    byte[] out = (byte[]) call(method(o.getClass(), "toBytes", 0), o, "toBytes");
                    Map<String, Object> r = obj("r", "ok", "hex", hex(out), "len", len);
                    if (lenErr != null) r.put("len_exception", lenErr);
                    return r;
                }
                default:
                    return obj("r", "badop");
            }
        } catch (BadValue e) {
            return obj("r", "badvalue", "m", e.getMessage());
        } catch (Unsupported e) {
            return obj("r", "unsupported", "m", e.getMessage());
        } catch (Glue e) {
            return obj("r", "glue", "m", e.getMessage());
        } catch (Thrown e) {
            return thrown(d, e, decoding);
        }
    }

    // ------------------------------------------------------------------ compile mode
    /** `Harness --compile <classes dir> <src dir> <pkg>...`: compiles every package on its own with
     *  the in-process javac (one warm JVM instead of one javac start per description) and prints
     *  one JSON line per package: {"pkg":..,"ok":..,"errors":[..]}. */
    static void compileAll(String[] args, PrintStream out) throws Exception {
        final String classes = args[1], src = args[2];
        final javax.tools.JavaCompiler jc = javax.tools.ToolProvider.getSystemJavaCompiler();
        if (jc == null) {
            out.println("{\"fatal\":\"no system java compiler (JRE without jdk.compiler)\"}");
            return;
        }
        int threads = Math.max(1, Math.min(4, Runtime.getRuntime().availableProcessors() / 2));
        java.util.concurrent.ExecutorService ex = java.util.concurrent.Executors.newFixedThreadPool(threads);
        List<java.util.concurrent.Future<Map<String, Object>>> results = new ArrayList<>();
        for (int k = 3; k < args.length; k++) {
            final String pkg = args[k];
            results.add(ex.submit(() -> {
                List<Object> errors = new ArrayList<>();
                boolean ok = false;
                try {
                    javax.tools.DiagnosticCollector<javax.tools.JavaFileObject> diags = new javax.tools.DiagnosticCollector<>();
                    try (javax.tools.StandardJavaFileManager fm = jc.getStandardFileManager(diags, null, StandardCharsets.UTF_8)) {
                        java.io.File[] files = new java.io.File(src, pkg).listFiles((d, n) -> n.endsWith(".java"));
                        if (files == null || files.length == 0) {
                            errors.add(pkg + ": no source files");
                        } else {
                            java.util.Arrays.sort(files);
                            List<String> opts = java.util.Arrays.asList("-d", classes, "-nowarn", "-proc:none", "-g:none",
                                    "-implicit:none", "-Xmaxerrs", "200", "-cp", classes, "-sourcepath", src);
                            ok = jc.getTask(null, fm, diags, opts, null, fm.getJavaFileObjects(files)).call();
                        }
                    }
                    for (javax.tools.Diagnostic<? extends javax.tools.JavaFileObject> d : diags.getDiagnostics()) {
                        if (d.getKind() != javax.tools.Diagnostic.Kind.ERROR) continue;
                        String file = d.getSource() == null ? "?" : new java.io.File(d.getSource().toUri().getPath()).getName();
                        String m = d.getMessage(null).replace('\n', ' ');
                        if (m.length() > 300) m = m.substring(0, 300) + "...";
                        errors.add(pkg + "/" + file + ":" + d.getLineNumber() + ": error: " + m);
                    }
                } catch (Throwable t) {
                    ok = false;
                    errors.add(pkg + ": javac crashed: " + t);
                }
                if (!ok && errors.isEmpty()) errors.add(pkg + ": javac failed without diagnostics");
                return obj("pkg", pkg, "ok", ok, "errors", errors);
            }));
        }
        for (java.util.concurrent.Future<Map<String, Object>> f : results) {
            StringBuilder b = new StringBuilder();
            write(b, f.get());
            out.println(b);
            out.flush();
        }
        ex.shutdown();
    }

    public static void main(String[] args) throws Exception {
        PrintStream out = new PrintStream(new java.io.FileOutputStream(java.io.FileDescriptor.out), false, "UTF-8");
        if (args.length >= 3 && args[0].equals("--compile")) {
            compileAll(args, out);
            out.flush();
            return;
        }
        PrintStream devnull = new PrintStream(OutputStream.nullOutputStream());
        System.setOut(devnull);
        System.setErr(devnull);
        schema = m(parseJson(new String(Files.readAllBytes(Paths.get(args[0])), StandardCharsets.UTF_8)));
        for (Map.Entry<String, Object> e : schema.entrySet()) descs.put(e.getKey(), new Desc(m(e.getValue())));
        BufferedReader in = new BufferedReader(new InputStreamReader(System.in, StandardCharsets.UTF_8), 1 << 16);
        String line;
        while ((line = in.readLine()) != null) {
            String[] p = line.split(" ", 4);
            Map<String, Object> r;
            if (p.length < 3) {
                r = obj("r", "badrequest");
            } else {
                try {
                    r = handle(p[0], p[1], p[2], p.length > 3 ? p[3] : "");
                } catch (Throwable t) {
                    // StackOverflowError / OutOfMemoryError inside reflection plumbing, bugs of this file
                    r = obj("r", "exception", "e", t.getClass().getSimpleName(), "m", msg(t), "at", "harness", "top", top(t));
                }
            }
            StringBuilder b = new StringBuilder();
            write(b, r);
            b.append('\n');
            out.print(b);
            out.flush();
        }
    }
}
