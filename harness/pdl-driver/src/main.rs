// Line-protocol driver around pdl-compiler's public entry points.
// One JSON request per line on stdin, one JSON response per line on stdout.
use codespan_reporting::term::termcolor;
use pdl_compiler::{analyzer, ast, backends, parser};
use serde_json::{json, Value};
use std::io::{BufRead, Write};
use std::sync::Mutex;

static LAST_PANIC: Mutex<Option<String>> = Mutex::new(None);

fn size_json(s: analyzer::Size) -> Value {
    match s {
        analyzer::Size::Static(n) => json!({"static": n}),
        analyzer::Size::Dynamic => json!("dynamic"),
        analyzer::Size::Unknown => json!("unknown"),
    }
}

fn parse(text: &str) -> (ast::SourceDatabase, Result<ast::File, String>) {
    let mut db = ast::SourceDatabase::new();
    let r = parser::parse_inline(&mut db, "stdin", text.to_owned());
    let r = r.map_err(|d| d.message.clone());
    (db, r)
}

fn diag_json(db: &ast::SourceDatabase, diags: &analyzer::Diagnostics) -> Value {
    let mut out = vec![];
    for d in &diags.diagnostics {
        let labels: Vec<Value> = d
            .labels
            .iter()
            .map(|l| json!({"start": l.range.start, "end": l.range.end, "file": l.file_id,
                             "primary": matches!(l.style, codespan_reporting::diagnostic::LabelStyle::Primary)}))
            .collect();
        out.push(json!({"code": d.code, "severity": format!("{:?}", d.severity), "message": d.message, "labels": labels}));
    }
    let mut buf = termcolor::Buffer::no_color();
    let emit = diags.emit(db, &mut buf);
    json!({"diagnostics": out, "emit_ok": emit.is_ok(), "emit_len": buf.as_slice().len()})
}

fn filter_declarations(file: ast::File, exclude: &[String]) -> ast::File {
    ast::File {
        declarations: file
            .declarations
            .into_iter()
            .filter(|decl| decl.id().map(|id| !exclude.contains(&id.to_owned())).unwrap_or(true))
            .collect(),
        ..file
    }
}

fn handle(req: &Value) -> Value {
    let op = req["op"].as_str().unwrap_or("");
    let text = req["text"].as_str().unwrap_or("");
    let exclude: Vec<String> = req["exclude"]
        .as_array()
        .map(|a| a.iter().filter_map(|v| v.as_str().map(String::from)).collect())
        .unwrap_or_default();
    match op {
        "ping" => json!({"status": "ok"}),
        "parse" => {
            let (_db, r) = parse(text);
            match r {
                Ok(f) => json!({"status": "ok", "file": serde_json::to_value(&f).unwrap()}),
                Err(m) => json!({"status": "parse_err", "message": m}),
            }
        }
        "analyze" | "schema" | "gen" | "tokens" => {
            let (db, r) = parse(text);
            let f = match r {
                Ok(f) => f,
                Err(m) => return json!({"status": "parse_err", "message": m}),
            };
            let f = filter_declarations(f, &exclude);
            let parsed = if req["with_parsed"].as_bool().unwrap_or(false) {
                serde_json::to_value(&f).unwrap()
            } else {
                Value::Null
            };
            let a = match analyzer::analyze(&f) {
                Ok(a) => a,
                Err(d) => {
                    let mut v = diag_json(&db, &d);
                    v["status"] = json!("err");
                    v["parsed"] = parsed;
                    return v;
                }
            };
            match op {
                "analyze" => json!({"status": "ok", "file": serde_json::to_value(&a).unwrap(), "parsed": parsed}),
                "schema" => {
                    let scope = analyzer::Scope::new(&a).unwrap();
                    let schema = analyzer::Schema::new(&a);
                    let mut decls = vec![];
                    for d in &a.declarations {
                        let mut fields = vec![];
                        for fl in d.fields() {
                            let es = match analyzer::element_size(&scope, &schema, d, fl) {
                                analyzer::ElementSize::Static(n) => json!({"static": n}),
                                analyzer::ElementSize::Dynamic => json!("dynamic"),
                                analyzer::ElementSize::Unknown => json!("unknown"),
                            };
                            let asz = match analyzer::array_size(d, fl) {
                                analyzer::ArraySize::StaticCount(n) => json!({"static_count": n}),
                                analyzer::ArraySize::DynamicCount => json!("dynamic_count"),
                                analyzer::ArraySize::DynamicSize => json!("dynamic_size"),
                                analyzer::ArraySize::Unknown => json!("unknown"),
                            };
                            fields.push(json!({
                                "field_size": size_json(schema.field_size(fl.key)),
                                "padded_size": schema.padded_size(fl.key),
                                "element_size": es,
                                "array_size": asz,
                                "is_bitfield": scope.is_bitfield(fl),
                            }));
                        }
                        decls.push(json!({
                            "id": d.id(),
                            "decl_size": size_json(schema.decl_size(d.key)),
                            "parent_size": size_json(schema.parent_size(d.key)),
                            "payload_size": size_json(schema.payload_size(d.key)),
                            "total_size": size_json(schema.total_size(d.key)),
                            "fields": fields,
                        }));
                    }
                    json!({"status": "ok", "file": serde_json::to_value(&a).unwrap(), "schema": decls})
                }
                "tokens" => {
                    let t = backends::rust::generate_tokens(&db, &a, &[]);
                    let syntax_tree: syn::File = syn::parse2(t).expect("Could not parse code");
                    json!({"status": "ok", "text": prettyplease::unparse(&syntax_tree)})
                }
                _ => {
                    let backend = req["backend"].as_str().unwrap_or("rust");
                    let custom: Vec<String> = req["custom_field"]
                        .as_array()
                        .map(|a| a.iter().filter_map(|v| v.as_str().map(String::from)).collect())
                        .unwrap_or_default();
                    let text = match backend {
                        "rust" => backends::rust::generate(&db, &a, &custom),
                        "python" => backends::python::generate(
                            &db,
                            &a,
                            custom.first().map(String::as_str),
                            &exclude,
                        ),
                        "cxx" => backends::cxx::generate(
                            &db,
                            &a,
                            req["namespace"].as_str(),
                            &[],
                            &[],
                            &exclude,
                        ),
                        "json" => backends::json::generate(&f).unwrap(),
                        "java" => {
                            let dir = req["output_dir"].as_str().unwrap();
                            let pkg = req["package"].as_str().unwrap_or("pdlv");
                            match backends::java::generate(&db, &a, &custom, std::path::Path::new(dir), pkg) {
                                Ok(()) => String::new(),
                                Err(e) => return json!({"status": "gen_err", "message": e}),
                            }
                        }
                        _ => return json!({"status": "bad_request"}),
                    };
                    json!({"status": "ok", "text": text})
                }
            }
        }
        "srcloc" => {
            // SourceLocation::new(offset, line_starts)
            let off = req["offset"].as_u64().unwrap_or(0) as usize;
            let ls: Vec<usize> = req["line_starts"]
                .as_array()
                .map(|a| a.iter().filter_map(|v| v.as_u64().map(|x| x as usize)).collect())
                .unwrap_or_default();
            let l = ast::SourceLocation::new(off, &ls);
            json!({"status": "ok", "offset": l.offset, "line": l.line, "column": l.column})
        }
        _ => json!({"status": "bad_request"}),
    }
}

fn main() {
    std::panic::set_hook(Box::new(|info| {
        let msg = if let Some(s) = info.payload().downcast_ref::<&str>() {
            s.to_string()
        } else if let Some(s) = info.payload().downcast_ref::<String>() {
            s.clone()
        } else {
            "panic".to_string()
        };
        let loc = info.location().map(|l| format!("{}:{}", l.file(), l.line())).unwrap_or_default();
        *LAST_PANIC.lock().unwrap() = Some(format!("{} @ {}", msg, loc));
    }));
    let stdin = std::io::stdin();
    let stdout = std::io::stdout();
    for line in stdin.lock().lines() {
        let line = match line {
            Ok(l) => l,
            Err(_) => break,
        };
        if line.trim().is_empty() {
            continue;
        }
        let req: Value = match serde_json::from_str(&line) {
            Ok(v) => v,
            Err(e) => {
                let mut o = stdout.lock();
                writeln!(o, "{}", json!({"status": "bad_json", "message": e.to_string()})).unwrap();
                o.flush().unwrap();
                continue;
            }
        };
        let req2 = req.clone();
        let h = std::thread::Builder::new()
            .stack_size(64 << 20)
            .spawn(move || handle(&req2))
            .unwrap();
        let resp = match h.join() {
            Ok(v) => v,
            Err(_) => {
                let m = LAST_PANIC.lock().unwrap().take().unwrap_or_default();
                json!({"status": "panic", "message": m})
            }
        };
        let mut o = stdout.lock();
        writeln!(o, "{}", resp).unwrap();
        o.flush().unwrap();
    }
}
