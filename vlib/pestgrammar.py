"""Translator: the pest grammar embedded in pdl-compiler/src/parser.rs -> the JSON form of Pdlv.Peg.Grammar.

Run on every C12 / C10 check: the Lean PEG interpreter then runs the grammar the compiler was built
from, and the translated grammar is compared rule by rule with the transcribed `Pdlv.Syntax.grammar`
(the one the tree-to-AST model was written against).

Supported pest syntax (everything parser.rs uses): rules `name = [_@$!]? { expr }`, string literals
with escapes, character ranges 'a'..'z', identifiers (ANY, SOI, EOI built in), grouping, the
postfix operators * + ?, the prefix predicates ! &, sequence ~ and ordered choice |, // comments.
Anything else raises GrammarError (reported as a broken translation, never guessed at)."""
import os
import re


class GrammarError(Exception):
    pass


def extract(parser_rs_text):
    m = re.search(r'#\[grammar_inline\s*=\s*r#"(.*?)"#\]', parser_rs_text, re.S)
    if not m:
        raise GrammarError("no #[grammar_inline = r#\"...\"#] attribute found")
    return m.group(1)


TOKEN = re.compile(r"""
    (?P<ws>\s+|//[^\n]*)
  | (?P<range>'(?:\\.|[^'\\])'\s*\.\.\s*'(?:\\.|[^'\\])')
  | (?P<str>"(?:\\.|[^"\\])*")
  | (?P<ident>[A-Za-z_][A-Za-z0-9_]*)
  | (?P<punct>[=_@$!&{}()|~*+?])
""", re.X)

ESC = {"n": "\n", "r": "\r", "t": "\t", "\\": "\\", '"': '"', "'": "'", "0": "\0"}


def unescape(s):
    out, i = [], 0
    while i < len(s):
        if s[i] == "\\":
            i += 1
            if i >= len(s) or s[i] not in ESC:
                raise GrammarError("unsupported escape in %r" % s)
            out.append(ESC[s[i]])
        else:
            out.append(s[i])
        i += 1
    return "".join(out)


def tokenize(text):
    pos, toks = 0, []
    while pos < len(text):
        m = TOKEN.match(text, pos)
        if not m:
            raise GrammarError("unexpected character %r at offset %d of the grammar" % (text[pos], pos))
        pos = m.end()
        if m.lastgroup == "ws":
            continue
        toks.append((m.lastgroup, m.group(m.lastgroup)))
    return toks


class P:
    def __init__(self, toks):
        self.t, self.i = toks, 0

    def peek(self):
        return self.t[self.i] if self.i < len(self.t) else (None, None)

    def take(self, kind=None, val=None):
        k, v = self.peek()
        if k is None or (kind and k != kind) or (val and v != val):
            raise GrammarError("expected %s %s, found %s %r" % (kind or "", val or "", k, v))
        self.i += 1
        return v

    def grammar(self):
        rules = []
        while self.peek()[0] is not None:
            rules.append(self.rule())
        return rules

    def rule(self):
        name = self.take("ident")
        self.take("punct", "=")
        kind = "normal"
        k, v = self.peek()
        if k == "punct" and v in "_@$!":
            self.i += 1
            kind = {"_": "silent", "@": "atomic", "$": "compound"}.get(v)
            if kind is None:
                raise GrammarError("rule modifier %r is not modelled" % v)
        elif k == "ident" and v == "_":
            self.i += 1
            kind = "silent"
        self.take("punct", "{")
        e = self.expr()
        self.take("punct", "}")
        return {"name": name, "kind": kind, "body": e}

    def expr(self):
        alts = [self.seq()]
        while self.peek() == ("punct", "|"):
            self.i += 1
            alts.append(self.seq())
        return alts[0] if len(alts) == 1 else {"t": "choice", "a": alts}

    def seq(self):
        items = [self.unary()]
        while self.peek() == ("punct", "~"):
            self.i += 1
            items.append(self.unary())
        return items[0] if len(items) == 1 else {"t": "seq", "a": items}

    def unary(self):
        k, v = self.peek()
        if k == "punct" and v in "!&":
            self.i += 1
            return {"t": "not" if v == "!" else "and", "e": self.unary()}
        e = self.primary()
        while True:
            k, v = self.peek()
            if k == "punct" and v in "*+?":
                self.i += 1
                e = {"t": {"*": "star", "+": "plus", "?": "opt"}[v], "e": e}
            else:
                return e

    def primary(self):
        k, v = self.peek()
        if k == "str":
            self.i += 1
            return {"t": "str", "v": unescape(v[1:-1])}
        if k == "range":
            self.i += 1
            lo, hi = re.match(r"'((?:\\.|[^'\\]))'\s*\.\.\s*'((?:\\.|[^'\\]))'", v).groups()
            return {"t": "range", "lo": unescape(lo), "hi": unescape(hi)}
        if k == "ident":
            self.i += 1
            if v == "ANY":
                return {"t": "any"}
            if v == "SOI":
                return {"t": "soi"}
            if v == "EOI":
                return {"t": "eoi"}
            if v.isupper() and v in ("PUSH", "POP", "PEEK", "DROP", "ASCII_DIGIT", "ASCII_ALPHA", "ASCII_ALPHANUMERIC", "NEWLINE"):
                raise GrammarError("pest built-in %s is not modelled" % v)
            return {"t": "rule", "n": v}
        if k == "punct" and v == "(":
            self.i += 1
            e = self.expr()
            self.take("punct", ")")
            return e
        raise GrammarError("unexpected token %s %r" % (k, v))


def translate(parser_rs_path):
    """-> list of rules in the JSON form the model driver's `grammar` request reads"""
    text = open(parser_rs_path, encoding="utf-8").read()
    rules = P(tokenize(extract(text))).grammar()
    names = [r["name"] for r in rules]
    if len(set(names)) != len(names):
        raise GrammarError("duplicate rule names")
    return rules


def parser_rs(repo):
    return os.path.join(repo, "pdl-compiler", "src", "parser.rs")
