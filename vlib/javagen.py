"""Assemble, build and drive the harness around pdlc-generated Java (harness/java/Harness.java).

    h = JavaHarness(name, descs)   # descs: dicts with "text", "analyzed", "java_dir"
    ok = h.build()                 # False + h.build_log + h.failed when generated code does not compile
    r = h.ask(i, type_name, op, arg)
    h.close()

The generated classes of description i live in package d<i> (the `package` line of the files found
in java_dir is rewritten, so a description can be generated once and re-indexed freely).  All
packages are compiled with javac into .cache/javagen/<name>/classes and one persistent
`java -ea Harness schema.json` process answers the requests by reflection; schema.json is the glue,
generated per description from the analyzed AST by `schema_for`.

Self-test:  python3 /verif/vlib/javagen.py --selftest [--seed N] [--n 15] [--values 5] [--usable 10]
"""
import hashlib
import json
import os
import re
import shutil
import sys

if __name__ == "__main__" and __package__ is None:
    sys.path.insert(0, os.path.dirname(os.path.dirname(os.path.abspath(__file__))))
    import vlib  # noqa: F401  (relative imports below need the parent package loaded)
    __package__ = "vlib"

from . import common as C
from . import gen_value as GV

HARNESS_SRC = os.path.join(C.VERIF, "harness", "java", "Harness.java")
ROOT = os.path.join(C.CACHE, "javagen")
HARNESS_CLASSES = os.path.join(ROOT, "_harness")
GEN_ROOT = os.path.join(ROOT, "_gen")
JAVA_FLAGS = ["-ea", "-Xmx768m", "-Xss4m", "-XX:+UseSerialGC", "-XX:-OmitStackTraceInFastThrow"]


# ---------------------------------------------------------------------------
# identifier conversions of the back end (heck 0.4.1, feature "unicode" off)

def _words(s):
    out = []
    for word in re.split(r"[^0-9A-Za-z]", s):
        init, mode = 0, "b"
        n = len(word)
        for i, c in enumerate(word):
            if i + 1 < n:
                nxt = word[i + 1]
                nm = "l" if c.islower() else "u" if c.isupper() else mode
                if nm == "l" and nxt.isupper():
                    out.append(word[init:i + 1])
                    init, mode = i + 1, "b"
                elif mode == "u" and c.isupper() and nxt.islower():
                    out.append(word[init:i])
                    init, mode = i, "b"
                else:
                    mode = nm
            else:
                out.append(word[init:])
    return [w for w in out if w]


def upper_camel(s):
    return "".join(w[0].upper() + w[1:].lower() for w in _words(s))


def lower_camel(s):
    ws = _words(s)
    return "".join(w.lower() if i == 0 else w[0].upper() + w[1:].lower() for i, w in enumerate(ws))


def class_name(decl_id):
    """Class::name_from_id"""
    return upper_camel(decl_id) + ("_" if decl_id.endswith("_") else "")


# ---------------------------------------------------------------------------
# glue: the schema of one description

def schema_for(i, file_json):
    """Maps every declaration to its generated class, builder, getters and setters, in the JSON
    value shape of gen_value.Types.data_fields (+ "payload")."""
    T = GV.Types(file_json)
    types, classes = {}, {}

    def elem(width, type_id, is_elem):
        if type_id is None:
            e = {"k": "int", "w": width}
            if is_elem:
                e["elem"] = True
            return e, None
        td = T.decls.get(type_id)
        if td is None:
            return None, "unknown type %s" % type_id
        if td["kind"] == "enum_declaration":
            return {"k": "enum", "t": type_id}, None
        if td["kind"] in ("struct_declaration", "packet_declaration"):
            return {"k": "struct", "t": type_id}, None
        return None, "%s fields are not handled by the Java back end" % td["kind"].replace("_declaration", "")

    for d in file_json["declarations"]:
        kind = d["kind"]
        did = d.get("id")
        if kind == "enum_declaration":
            types[did] = {"kind": "enum", "cls": class_name(did), "w": d["width"]}
            continue
        if kind not in ("packet_declaration", "struct_declaration"):
            continue
        cls = class_name(did)
        t = {"kind": "packet" if kind == "packet_declaration" else "struct", "cls": cls, "fields": []}
        has_payload = any(f["kind"] == "payload_field" for f in d["fields"])
        has_body = any(f["kind"] == "body_field" for f in d["fields"])
        t["payload"] = has_payload or has_body
        classes[cls] = did
        if has_payload:
            t["build"] = "Unknown" + cls
            classes["Unknown" + cls] = did
        elif has_body:
            t["build"] = None
            t["why"] = "a declaration with a _body_ field becomes an abstract class without fallback child"
        else:
            t["build"] = cls
        for owner in T.parent_chain(d):
            for f in owner["fields"]:
                if f.get("cond"):
                    t["unsupported"] = "optional fields are not handled by the Java back end"
                if f["kind"] in ("checksum_field", "padding_field", "elementsize_field", "flag_field"):
                    t["unsupported"] = "%s is not handled by the Java back end" % f["kind"]
        for owner, f in T.data_fields(d):
            jn = lower_camel(f["id"])
            e = {"id": f["id"], "get": "get" + upper_camel(jn), "set": "set" + upper_camel(jn)}
            if f["kind"] == "scalar_field":
                x, why = elem(f["width"], None, False)
            elif f["kind"] == "typedef_field":
                x, why = elem(None, f["type_id"], False)
            else:
                inner, why = elem(f.get("width"), f.get("type_id"), True)
                x = {"k": "array", "e": inner, "n": f.get("size")}
            if why:
                t["unsupported"] = why
                continue
            e.update(x)
            t["fields"].append(e)
        types[did] = t
    return {"pkg": "d%d" % i, "types": types, "classes": classes}


# ---------------------------------------------------------------------------
# code generation through the driver

def generate(drv, text, key=None):
    """Ask the driver (common.driver()) for the Java code of one description.  Returns
    {"status": "ok", "java_dir": <dir holding the .java files>} or {"status": "panic"/"gen_err"/"dead", "message": ..}.
    The package written by pdlc is a placeholder; JavaHarness re-packages the files."""
    key = key or hashlib.sha1(text.encode()).hexdigest()[:20]
    out = os.path.join(GEN_ROOT, key)
    shutil.rmtree(out, ignore_errors=True)
    os.makedirs(out, exist_ok=True)
    r = drv.ask({"op": "gen", "backend": "java", "text": text, "output_dir": out, "package": "p"})
    if r is None:
        shutil.rmtree(out, ignore_errors=True)
        return {"status": "dead", "message": drv.last_death, "java_dir": None}
    if r.get("status") != "ok":
        shutil.rmtree(out, ignore_errors=True)
        return {"status": r.get("status"), "message": r.get("message") or r.get("diagnostics"), "java_dir": None}
    return {"status": "ok", "java_dir": os.path.join(out, "p")}


def write_if_changed(path, content):
    if os.path.exists(path) and open(path).read() == content:
        return False
    with open(path, "w") as f:
        f.write(content)
    return True


def javac_errors(out, limit=400):
    """javac echoes the offending source line, and pdlc emits a class on one line: keep the
    diagnostics only."""
    keep = []
    for l in out.splitlines():
        if re.match(r"^\S.*\.java:\d+: (error|warning):", l) or re.match(r"^(error|warning|\d+ errors?|Note):?", l):
            keep.append(l[:limit])
        elif re.match(r"^\s+(symbol|location|required|found|reason):", l):
            keep.append(l[:limit])
    return "\n".join(keep)


def build_harness_class():
    """Compile Harness.java once (shared by all harness instances)."""
    os.makedirs(HARNESS_CLASSES, exist_ok=True)
    with C.Lock("javagen-harness"):
        stamp = os.path.join(HARNESS_CLASSES, ".stamp")
        h = hashlib.sha1(open(HARNESS_SRC, "rb").read()).hexdigest()
        if os.path.exists(stamp) and open(stamp).read() == h and os.path.exists(os.path.join(HARNESS_CLASSES, "Harness.class")):
            return True, ""
        rc, out = C.run(["javac", "-d", HARNESS_CLASSES, "-nowarn", "-proc:none", "-encoding", "UTF-8", HARNESS_SRC], timeout=600)
        if rc == 0:
            with open(stamp, "w") as f:
                f.write(h)
        return rc == 0, (javac_errors(out) or out)


class JavaHarness:
    """descs: list of dict(text=<pdl>, analyzed=<file json>, java_dir=<dir with the emitted .java files>)."""

    def __init__(self, name, descs, timeout=10.0):
        self.name, self.descs, self.timeout = name, descs, timeout
        self.dir = os.path.join(ROOT, name)
        self.src = os.path.join(self.dir, "src")
        self.classes = os.path.join(self.dir, "classes")
        self.schema_path = os.path.join(self.dir, "schema.json")
        self.proc = None
        self.build_log = ""
        self.failed = []
        self.errors = {}          # description index -> javac diagnostics

    # -- sources ------------------------------------------------------------
    def assemble(self):
        """Copies the emitted files to src/d<i>/ (package line rewritten).  Returns {i: source hash}."""
        os.makedirs(self.src, exist_ok=True)
        os.makedirs(self.classes, exist_ok=True)
        hashes = {}
        keep = set()
        for i, d in enumerate(self.descs):
            pkg = "d%d" % i
            keep.add(pkg)
            jd = d.get("java_dir")
            dst = os.path.join(self.src, pkg)
            if not jd or not os.path.isdir(jd):
                shutil.rmtree(dst, ignore_errors=True)
                hashes[i] = None
                continue
            same = os.path.realpath(jd) == os.path.realpath(dst)
            os.makedirs(dst, exist_ok=True)
            names = sorted(f for f in os.listdir(jd) if f.endswith(".java"))
            hh = hashlib.sha1()
            for f in names:
                txt = open(os.path.join(jd, f), encoding="utf-8", errors="replace").read()
                if not same:
                    txt = re.sub(r"^(\s*)package\s+[\w.]+\s*;", r"\1package %s;" % pkg, txt, count=1, flags=re.M)
                    write_if_changed(os.path.join(dst, f), txt)
                hh.update(f.encode() + b"\0" + txt.encode() + b"\0")
            if not same:
                for f in os.listdir(dst):
                    if f not in names:
                        os.remove(os.path.join(dst, f))
            hashes[i] = hh.hexdigest()
        for root in (self.src, self.classes):
            for f in os.listdir(root):
                if f not in keep:
                    p = os.path.join(root, f)
                    shutil.rmtree(p) if os.path.isdir(p) else os.remove(p)
        return hashes

    def _javac(self, idxs):
        """Compiles the packages d<i>, each on its own, inside one JVM (Harness --compile).
        Returns {i: (ok, diagnostics)}."""
        res = {i: (False, "javac did not report on this package") for i in idxs}
        argv = (["java", "-XX:+UseSerialGC", "-Xss16m", "-Xshare:auto", "-cp", HARNESS_CLASSES, "Harness", "--compile",
                 self.classes, self.src] + ["d%d" % i for i in idxs])
        try:
            rc, out = C.run(argv, timeout=3600)
        except Exception as e:
            return {i: (False, "javac run failed: %s" % e) for i in idxs}
        for line in out.splitlines():
            try:
                r = json.loads(line)
            except Exception:
                continue
            if "fatal" in r:
                return {i: (False, r["fatal"]) for i in idxs}
            if "pkg" in r:
                res[int(r["pkg"][1:])] = (bool(r["ok"]), "\n".join(r["errors"]))
        if rc != 0:
            for i in idxs:
                if res[i][1].startswith("javac did not report"):
                    res[i] = (False, "compile run failed (rc=%s): %s" % (rc, out[-500:]))
        return res

    def build(self, keep_going=False):
        """Compiles every description.  On failure returns False with self.build_log and
        self.failed = indices of the descriptions whose code could not be generated / compiled
        (self.errors[i] holds the diagnostics).  With keep_going=True the remaining descriptions
        stay usable and True is returned unless the harness itself is broken; `ask` answers
        {"r": "baddesc"} for the failed ones."""
        self.close()
        self.failed, self.errors, self.build_log = [], {}, ""
        ok, out = build_harness_class()
        if not ok:
            self.build_log = "Harness.java does not compile:\n" + out
            return False
        with C.Lock("javagen-" + self.name):
            hashes = self.assemble()
            todo = []
            for i, h in hashes.items():
                stamp = os.path.join(self.classes, "d%d" % i, ".stamp")
                if h is None:
                    self.failed.append(i)
                    self.errors[i] = "no generated code (generator failed): %s" % (self.descs[i].get("gen_error") or "")
                elif not (os.path.exists(stamp) and open(stamp).read() == h):
                    shutil.rmtree(os.path.join(self.classes, "d%d" % i), ignore_errors=True)
                    todo.append(i)
            if todo:
                for i, (ok, log) in sorted(self._javac(todo).items()):
                    cdir = os.path.join(self.classes, "d%d" % i)
                    if ok:
                        os.makedirs(cdir, exist_ok=True)
                        with open(os.path.join(cdir, ".stamp"), "w") as f:
                            f.write(hashes[i])
                    else:
                        shutil.rmtree(cdir, ignore_errors=True)
                        self.failed.append(i)
                        self.errors[i] = log
            self.failed.sort()
            schema = {}
            for i, d in enumerate(self.descs):
                if i not in self.failed:
                    schema[str(i)] = schema_for(i, d["analyzed"])
            write_if_changed(self.schema_path, json.dumps(schema, separators=(",", ":")))
        self.build_log = "\n".join("d%d: %s" % (i, self.errors[i]) for i in self.failed)
        return keep_going or not self.failed

    # -- process --------------------------------------------------------------
    def start(self, timeout=None):
        cp = self.classes + os.pathsep + HARNESS_CLASSES
        self.proc = C.LineProc(["java"] + JAVA_FLAGS + ["-cp", cp, "Harness", self.schema_path],
                               timeout=timeout or self.timeout)
        return self.proc

    def ask(self, d, t, op, arg, timeout=None):
        """Returns a dict, never raises; {"r": "timeout"} / {"r": "abort", "m": ..} when the
        harness process hung / died (it is restarted on the next request)."""
        try:
            if self.proc is None:
                self.start()
            if not isinstance(arg, str):
                arg = json.dumps(arg, separators=(",", ":"))
            raw = self.proc.ask_raw("%s %s %s %s" % (d, t, op, arg), timeout)
            if raw is None:
                why = self.proc.last_death or ""
                if str(why).startswith("timeout"):
                    return {"r": "timeout"}
                return {"r": "abort", "m": why}
            try:
                return json.loads(raw)
            except Exception:
                return {"r": "garbled", "raw": raw[:300]}
        except Exception as e:   # e.g. java missing
            return {"r": "abort", "m": "%s: %s" % (type(e).__name__, e)}

    def close(self):
        if self.proc:
            self.proc.kill()
            self.proc = None


# ---------------------------------------------------------------------------
# self-test

def type_text(text, type_id):
    m = re.search(r"^(packet|struct|enum)\s+%s\b.*?^\}" % re.escape(type_id), text, re.M | re.S)
    return m.group(0) if m else type_id


def clip(text, n=30):
    ls = text.splitlines()
    return "\n".join(ls[:n] + (["... (%d more lines)" % (len(ls) - n)] if len(ls) > n else []))


def selftest(argv):
    import argparse
    import random
    import time
    from . import gen_descr as GD
    ap = argparse.ArgumentParser()
    ap.add_argument("--selftest", action="store_true")
    ap.add_argument("--seed", type=int, default=20260923)
    ap.add_argument("--n", type=int, default=15)
    ap.add_argument("--values", type=int, default=5)
    ap.add_argument("--show", type=int, default=4)
    ap.add_argument("--name", default="selftest")
    ap.add_argument("--usable", type=int, default=10, help="keep generating until this many descriptions compile")
    ap.add_argument("--rounds", type=int, default=6)
    a = ap.parse_args(argv)
    rng = random.Random(a.seed)
    opts = GD.Opts.for_backend("java")
    ok, out = C.build_driver() if not os.path.exists(C.DRIVER_BIN) else (True, "")
    if not ok:
        print("driver build failed:\n" + out[-2000:])
        return 2
    drv = C.driver()
    texts = [t for t, _ in GD.stratified(rng, opts)]
    while len(texts) < a.n + 3:
        texts.append(GD.generate(rng, opts)[0])
    descs, gen_failed = [], []
    t_gen = t_build = 0.0
    h = None
    for rnd in range(a.rounds):
        # most descriptions of the class do not survive pdlc's java generator + javac today:
        # keep adding descriptions until enough of them are usable
        t0 = time.time()
        for text in texts:
            r = drv.ask({"op": "analyze", "text": text})
            if not r or r.get("status") != "ok":
                print("analyzer rejected a generated description (%s)" % ((r or {}).get("status")))
                continue
            g = generate(drv, text)
            if g["status"] != "ok":
                gen_failed.append((text, g))
                continue
            descs.append({"text": text, "analyzed": r["file"], "java_dir": g["java_dir"]})
        t1 = time.time()
        h = JavaHarness(a.name, descs)
        if not h.build(keep_going=True):
            print("harness build failed:\n" + h.build_log[-3000:])
            return 2
        t_gen, t_build = t_gen + t1 - t0, t_build + time.time() - t1
        if len(descs) - len(h.failed) >= a.usable:
            break
        texts = [GD.generate(rng, opts)[0] for _ in range(a.n)]
    drv.kill()
    print("descriptions: %d accepted by the generator in %.1fs, %d generator failures; build %.1fs, %d do not compile, %d usable"
          % (len(descs), t_gen, len(gen_failed), t_build, len(h.failed), len(descs) - len(h.failed)))
    seen = set()
    for text, g in gen_failed:
        m = str(g.get("message"))
        key = re.sub(r"\d+", "N", m)[:80]
        if key in seen:
            continue
        seen.add(key)
        print("--- generator %s: %s\n%s" % (g["status"], m[:300], clip(text)))
    seen = set()
    for i in h.failed:
        errs = [re.sub(r"^.*/src/", "", l) for l in h.errors[i].splitlines() if ": error:" in l]
        key = tuple(sorted(set(re.sub(r"^\S+ ", "", re.sub(r"\d+", "N", e))[:70] for e in errs)))
        if key in seen:
            continue
        seen.add(key)
        bad = sorted(set(e.split("/")[1].split(".java")[0] for e in errs if "/" in e))
        ids = [d["id"] for d in descs[i]["analyzed"]["declarations"]
               if "id" in d and (class_name(d["id"]) in bad or "Unknown" + class_name(d["id"]) in bad)]
        print("--- d%d does not compile (%s): %s\n%s" % (i, ", ".join(bad), "\n    ".join(e[:200] for e in errs[:4]),
                                                       "\n".join(type_text(descs[i]["text"], x) for x in ids[:3]) or clip(descs[i]["text"])))
    counts = {}
    shown = {}

    def note(kind, i, tid, detail):
        counts[kind] = counts.get(kind, 0) + 1
        if kind in ("ok",):
            return
        sig = (kind, re.sub(r"\d+", "N", json.dumps(detail.get("sig", detail), sort_keys=True))[:120])
        if sig in shown or sum(1 for s in shown if s[0] == kind) >= a.show:
            return
        shown[sig] = True
        print("--- %s  d%d %s\n%s\n%s" % (kind, i, tid, type_text(descs[i]["text"], tid),
                                         "\n".join("    %s: %s" % (k, json.dumps(v, sort_keys=True)[:600]) for k, v in detail.items() if k != "sig")))

    n_req = 0
    t3 = time.time()
    for i, d in enumerate(descs):
        if i in h.failed:
            continue
        types = GV.Types(d["analyzed"])
        for decl in d["analyzed"]["declarations"]:
            if decl["kind"] not in ("packet_declaration", "struct_declaration"):
                continue
            tid = decl["id"]
            for _ in range(a.values):
                v, _inj = GV.gen_value(types, tid, rng)
                e = h.ask(i, tid, "enc", v)
                n_req += 1
                if e.get("r") != "ok":
                    kind = {"err": "enc_err", "exception": "enc_exception"}.get(e.get("r"), "enc_" + str(e.get("r")))
                    note(kind, i, tid, {"value": v, "enc": e, "sig": [e.get("r"), e.get("e"), e.get("m")]})
                    continue
                if e.get("len") is not None and e["len"] != len(e["hex"]) // 2:
                    note("len_mismatch", i, tid, {"value": v, "enc": e, "sig": "len"})
                r = h.ask(i, tid, "dec", e["hex"])
                n_req += 1
                if r.get("r") != "ok":
                    kind = {"err": "dec_err", "exception": "dec_exception"}.get(r.get("r"), "dec_" + str(r.get("r")))
                    note(kind, i, tid, {"value": v, "hex": e["hex"], "dec": r, "sig": [r.get("r"), r.get("e"), r.get("m")]})
                    continue
                if r.get("type") != tid:
                    note("specialized", i, tid, {"value": v, "hex": e["hex"], "dec": r, "sig": "spec"})
                    continue
                if json.dumps(r["value"], sort_keys=True) != json.dumps(v, sort_keys=True):
                    diff = [k for k in v if r["value"].get(k) != v[k]] + [k for k in r["value"] if k not in v]
                    note("mismatch", i, tid, {"value": v, "hex": e["hex"], "decoded": r["value"], "differs": diff,
                                              "sig": diff})
                    continue
                note("ok", i, tid, {})
    t4 = time.time()
    deaths = h.proc.deaths if h.proc else 0
    h.close()
    print("requests: %d in %.1fs (%.0f/s); harness restarts: %d" % (n_req, t4 - t3, n_req / max(t4 - t3, 1e-9), deaths))
    print("summary: " + " ".join("%s=%d" % kv for kv in sorted(counts.items())))
    return 0


if __name__ == "__main__":
    if "--selftest" in sys.argv:
        sys.exit(selftest(sys.argv[1:]))
    print(__doc__)
