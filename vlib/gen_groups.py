"""Descriptions using groups (nesting <= 3, scalar and enum constraints) together with the
hand-inlined equivalent: group fields written in place, constrained fields as fixed fields."""


def gen_pair(rng):
    enums = "enum Ge : 8 { GA = 1, GB = 2, GC = 0x30 }\n"
    # leaf fields: (text, kind, id, width/type)
    def leaf(k):
        r = rng.random()
        if r < 0.5:
            w = rng.choice([3, 5, 8, 13, 16])
            return ("g%d: %d" % (k, w), "scalar", "g%d" % k, w)
        if r < 0.75:
            return ("g%d: Ge" % k, "enum", "g%d" % k, "Ge")
        if r < 0.85:
            return ("_reserved_: %d" % rng.choice([3, 5, 8]), "other", None, None)
        return ("g%d: 8[2]" % k, "other", None, None)

    counter = [0]
    gcount = [0]
    groups = []       # (name, [items]) items: ("leaf", leaf) | ("group", name, constraints)

    def make_group(depth):
        gcount[0] += 1
        name = "Grp%d" % gcount[0]
        items = []
        for _ in range(rng.randint(1, 4)):
            if depth < 3 and rng.random() < 0.3 and True:
                sub = make_group(depth + 1)
                items.append(("group", sub, pick_constraints(sub)))
            else:
                counter[0] += 1
                items.append(("leaf", leaf(counter[0])))
        groups.append((name, items))
        return name

    def leaves_of(name):
        out = []
        for it in dict(groups)[name]:
            if it[0] == "leaf":
                out.append(it[1])
            else:
                out += leaves_of(it[1])
        return out

    def direct_leaves(name):
        return [it[1] for it in dict(groups)[name] if it[0] == "leaf"]

    def pick_constraints(name):
        # only fields declared directly in the group: the analyzer looks constraint identifiers up in
        # the group's own field list (a constraint on a field of a nested group is E15)
        cs = {}
        for (_, kind, fid, ty) in direct_leaves(name):
            if kind == "scalar" and rng.random() < 0.4:
                cs[fid] = str(rng.randrange(1 << ty))
            elif kind == "enum" and rng.random() < 0.4:
                cs[fid] = rng.choice(["GA", "GB", "GC"])
        return cs

    top = make_group(1)
    top_cs = pick_constraints(top)

    def render_group_decl(name):
        parts = []
        for it in dict(groups)[name]:
            if it[0] == "leaf":
                parts.append(it[1][0])
            else:
                cs = it[2]
                parts.append(it[1] + ((" { %s }" % ", ".join("%s = %s" % kv for kv in cs.items())) if cs else ""))
        return "group %s {\n  %s\n}\n" % (name, ",\n  ".join(parts))

    def inline(name, cs):
        out = []
        for it in dict(groups)[name]:
            if it[0] == "leaf":
                text, kind, fid, ty = it[1]
                if fid in cs and kind == "scalar":
                    out.append("_fixed_ = %s : %d" % (cs[fid], ty))
                elif fid in cs and kind == "enum":
                    out.append("_fixed_ = %s : Ge" % cs[fid])
                else:
                    out.append(text)
            else:
                merged = dict(cs)
                merged.update(it[2])
                out += inline(it[1], merged)
        return out

    inl = inline(top, top_cs)
    # pad the packet to a byte multiple with a trailing reserved field computed from widths
    def width_of(t):
        import re
        m = re.match(r"(?:\w+|_reserved_): (\d+)$", t)
        if m:
            return int(m.group(1))
        m = re.match(r"_fixed_ = \w+ : (\d+)$", t)
        if m:
            return int(m.group(1))
        if t.endswith(": Ge") :
            return 8
        return 0 if "[" in t else 0
    # arrays must start on a byte boundary: put a reserved filler before each array as needed
    def align(fields):
        out, bits = [], 0
        for t in fields:
            if "[" in t:
                if bits % 8:
                    out.append("_reserved_: %d" % (8 - bits % 8))
                    bits = 0
                out.append(t)
            else:
                out.append(t)
                bits += width_of(t)
        if bits % 8:
            out.append("_reserved_: %d" % (8 - bits % 8))
        return out
    # alignment fillers cannot be inserted inside groups consistently; keep it simple: retry until aligned as is
    bits, ok = 0, True
    for t in inl:
        if "[" in t:
            if bits % 8:
                ok = False
            bits = 0
        else:
            bits += width_of(t)
    tail = (8 - bits % 8) % 8
    if not ok:
        return None
    use = top + ((" { %s }" % ", ".join("%s = %s" % kv for kv in top_cs.items())) if top_cs else "")
    tailf = [("_reserved_: %d" % tail)] if tail else []
    e = rng.choice(["little", "big"])
    head = "%s_endian_packets\n%s" % (e, enums)
    with_groups = head + "".join(render_group_decl(n) for n, _ in groups) + \
        "packet Host {\n  h0: 8,\n  %s\n}\n" % ",\n  ".join([use] + tailf + ["h1: 16"])
    inlined = head + "packet Host {\n  h0: 8,\n  %s\n}\n" % ",\n  ".join(inl + tailf + ["h1: 16"])
    return with_groups, inlined


def gen(rng):
    for _ in range(200):
        p = gen_pair(rng)
        if p:
            return p
    raise RuntimeError("no aligned group pair")


def gen_shared(rng, force=None):
    """One group used by several declarations, with and without constraints, in any order (the group must
    be expanded per use site).  Returns (text with groups, hand-inlined text).
    `force`: "plain-first" makes the FIRST use unconstrained and the second constrained, "plain-last" the reverse
    (what an expansion cache keyed by the group alone gets wrong depends on which comes first)."""
    enums = "enum Ge : 8 { GA = 1, GB = 2, GC = 0x30 }\n"
    w1, w2 = rng.choice([(8, 8), (3, 5), (12, 4), (16, 8)])
    gfields = [("len", w1), ("kind", "Ge"), ("seq", w2)]
    group = "group Header { len: %d, kind: Ge, seq: %d }\n" % (w1, w2)
    n = rng.randint(2, 5)
    # how the uses differ: independently drawn constraints; or only in the tag the enum field is pinned to (the
    # integer constraints equal or absent in every use); or only in one integer constraint
    mode = rng.choice(["mixed", "mixed", "enum_only", "enum_with_same_scalars", "one_scalar"])
    same = {fid: str(rng.randrange(1 << ty)) for (fid, ty) in gfields if ty != "Ge" and rng.random() < 0.5}
    with_g, inl = [], []
    for i in range(n):
        cs = {}
        if mode == "mixed":
            if rng.random() < 0.6:
                for (fid, ty) in gfields:
                    if rng.random() < 0.5:
                        cs[fid] = rng.choice(["GA", "GB", "GC"]) if ty == "Ge" else str(rng.randrange(1 << ty))
        elif mode in ("enum_only", "enum_with_same_scalars"):
            if rng.random() < 0.85:
                cs["kind"] = ["GA", "GB", "GC"][i % 3] if rng.random() < 0.7 else rng.choice(["GA", "GB", "GC"])
            if mode == "enum_with_same_scalars":
                cs.update(same)
        else:
            cs["len"] = str((i * 37 + 1) % (1 << w1))
        if force and i < 2:
            plain = (i == 0) == (force == "plain-first")
            cs = {} if plain else {"kind": "GB", "len": str((w1 * 5 + 3) % (1 << w1))}
        use = "Header" + ((" { %s }" % ", ".join("%s = %s" % kv for kv in cs.items())) if cs else "")
        flat = []
        for (fid, ty) in gfields:
            if fid in cs:
                flat.append("_fixed_ = %s : %s" % (cs[fid], ty))
            else:
                flat.append("%s: %s" % (fid, ty))
        tail = "x%d: %d" % (i, rng.choice([8, 16]))
        with_g.append("packet Msg%d {\n  %s,\n  %s\n}\n" % (i, use, tail))
        inl.append("packet Msg%d {\n  %s,\n  %s\n}\n" % (i, ",\n  ".join(flat), tail))
    e = rng.choice(["little", "big"])
    head = "%s_endian_packets\n%s" % (e, enums)
    return head + group + "".join(with_g), head + "".join(inl)


def gen_shared_payload(rng):
    """One group that CONTAINS the payload (or an unsized array), inlined into several declarations that put
    different amounts of static data after it: whatever the compiler derives per use site (the octets kept after
    the payload, padded sizes, ...) must not leak from one use to another.  Returns (grouped text, inlined text)."""
    w = rng.choice([8, 16])
    pay = rng.choice(["_payload_", "_body_"])
    pre = rng.choice([["opcode: %d" % w], ["opcode: %d" % w, "seq: 8"], ["a: 4", "b: 4", "opcode: %d" % w]])
    group = "group Framed { %s, %s }\n" % (", ".join(pre), pay)
    n = rng.randint(2, 4)
    tails = []
    choices = [[], ["crc: 16"], ["crc: 8"], ["crc: 16", "t: 8"], ["tag: 8[4]"], ["tag: 8[2]", "_padding_[4]"], ["crc: 32"]]
    rng.shuffle(choices)
    with_g, inl = [], []
    for i in range(n):
        tail = ["%s%d%s" % (f.split(":")[0], i, f[len(f.split(":")[0]):]) if not f.startswith("_") else f for f in choices[i]]
        with_g.append("packet Fr%d {\n  %s\n}\n" % (i, ",\n  ".join(["Framed"] + tail)))
        inl.append("packet Fr%d {\n  %s\n}\n" % (i, ",\n  ".join(pre + [pay] + tail)))
    order = list(range(n))
    rng.shuffle(order)
    e = rng.choice(["little", "big"])
    head = "%s_endian_packets\n" % e
    return head + group + "".join(with_g[k] for k in order), head + "".join(inl[k] for k in order)


def gen_distinct_users(rng):
    """Several declarations that each inline a DIFFERENT group, the groups having fields of different widths at the same
    positions, one of them reached through another group; groups declared before, between and after their users.
    Whatever the compiler keys by "the n-th inlined field" must not be shared between declarations.
    Returns (grouped text, inlined text)."""
    splits = [[3, 13], [12, 4], [8, 24], [5, 3], [16, 8, 8], [1, 7, 8], [4, 4, 16], [24, 8], [2, 6]]
    rng.shuffle(splits)
    n = rng.randint(2, 4)
    groups, users, inl = [], [], []
    names = ["a", "b", "c"]
    for i in range(n):
        ws = splits[i]
        fs = ["%s: %d" % (names[k], w) for k, w in enumerate(ws)]
        groups.append("group Gd%d {\n  %s\n}\n" % (i, ",\n  ".join(fs)))
        extra = rng.choice([[], ["t%d: 8" % i], ["u%d: 16" % i, "v%d: 8[]" % i]])
        users.append("packet Us%d {\n  %s\n}\n" % (i, ",\n  ".join(["Gd%d" % i] + extra)))
        inl.append("packet Us%d {\n  %s\n}\n" % (i, ",\n  ".join(fs + extra)))
    # one user behind another group
    j = rng.randrange(n)
    fs = ["%s: %d" % (names[k], w) for k, w in enumerate(splits[j])]
    groups.append("group Outer {\n  h: 8,\n  Gd%d,\n  k: 8\n}\n" % j)
    users.append("struct Nest {\n  Outer\n}\n")
    inl.append("struct Nest {\n  %s\n}\n" % ",\n  ".join(["h: 8"] + fs + ["k: 8"]))
    order = list(range(len(users)))
    rng.shuffle(order)
    e = rng.choice(["little", "big"])
    head = "%s_endian_packets\n" % e
    # groups before, between and after their users
    g = list(groups)
    rng.shuffle(g)
    cut = rng.randint(0, len(g))
    grouped = head + "".join(g[:cut]) + "".join(users[k] for k in order[:1]) + "".join(g[cut:]) + "".join(users[k] for k in order[1:])
    return grouped, head + "".join(inl[k] for k in order)
