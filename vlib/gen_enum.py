"""Generator of well-formed PDL enum declarations covering the shapes C15 quantifies over."""


def upper_camel(ident):
    """heck::ToUpperCamelCase on the identifiers this generator produces
    ([A-Z][A-Z0-9]* words joined by '_')."""
    return "".join(w[:1].upper() + w[1:].lower() for w in ident.split("_") if w)


class EnumSpec:
    def __init__(self, name, width, tags):
        self.name, self.width, self.tags = name, width, tags  # tags: list of dicts

    def pdl(self):
        parts = []
        for t in self.tags:
            if t["kind"] == "value":
                parts.append("%s = %s" % (t["id"], t["lit"]))
            elif t["kind"] == "range":
                s = "%s = %s..%s" % (t["id"], t["lo_lit"], t["hi_lit"])
                if t["tags"]:
                    s += " { " + ", ".join("%s = %s" % (n["id"], n["lit"]) for n in t["tags"]) + " }"
                parts.append(s)
            else:
                parts.append("%s = .." % t["id"])
        return "enum %s : %d {\n  %s\n}\n" % (self.name, self.width, ",\n  ".join(parts))

    def critical_points(self):
        w = self.width
        pts = {0, 1, (1 << w) - 1, 1 << w, (1 << w) + 1, (1 << w) - 2 if w > 1 else 0}
        for t in self.tags:
            if t["kind"] == "value":
                pts |= {t["value"] - 1, t["value"], t["value"] + 1}
            elif t["kind"] == "range":
                pts |= {t["lo"] - 1, t["lo"], t["lo"] + 1, t["hi"] - 1, t["hi"], t["hi"] + 1}
                for n in t["tags"]:
                    pts |= {n["value"] - 1, n["value"], n["value"] + 1}
        back = 8 if w <= 8 else 16 if w <= 16 else 32 if w <= 32 else 64
        pts |= {(1 << back) - 1, (1 << back) - 2, 1 << (back - 1)}
        for k in range(0, back, max(1, back // 8)):
            pts.add(1 << k)
        return sorted(p for p in pts if 0 <= p < (1 << back)), back


def lit(rng, v):
    r = rng.random()
    if r < 0.5:
        return str(v)
    return "0x%x" % v


def gen_enum(rng, name, shape=None):
    """shape: dict with keys open, complete, ranges, nested, width (any may be None=random)."""
    shape = dict(shape or {})
    width = shape.get("width") or rng.choice([1, 2, 3, 4, 5, 7, 8, 9, 12, 15, 16, 17, 24, 31, 32, 33, 48, 63, 64])
    is_open = shape.get("open", rng.random() < 0.4)
    complete = shape.get("complete", rng.random() < 0.3)
    with_ranges = shape.get("ranges", rng.random() < 0.6)
    nested = shape.get("nested", rng.random() < 0.5)
    maxv = (1 << width) - 1
    if width == 1 and with_ranges:
        with_ranges = rng.random() < 0.3
    # choose cut points partitioning [0, maxv] into segments; each segment is a value tag
    # (if length 1), a range, or (when incomplete) a gap.
    segs = []
    if complete:
        if width <= 4 and not with_ranges:
            segs = [("v", v, v) for v in range(maxv + 1)]
        else:
            n = rng.randint(1, 5)
            cuts = sorted(set(rng.randint(1, maxv) for _ in range(n - 1))) if maxv >= 1 else []
            lo = 0
            for c in cuts + [maxv + 1]:
                hi = c - 1
                if hi < lo:
                    continue
                if lo == hi:
                    segs.append(("v", lo, hi))
                elif with_ranges:
                    segs.append(("r", lo, hi))
                else:
                    # without ranges a complete enum needs every value: only feasible for tiny widths
                    segs.append(("r", lo, hi))
                lo = c
    else:
        n = rng.randint(1, 6)
        used = []
        tries = 0
        force_edges = rng.random() < 0.5
        while len(used) < n and tries < 50:
            tries += 1
            if with_ranges and rng.random() < 0.5 and maxv >= 1:
                lo = rng.randint(0, maxv - 1)
                hi = min(maxv, lo + rng.choice([1, 1, 2, 5, 1 << max(0, width - 2)]))
                if force_edges and not used:
                    lo, hi = 0, min(maxv, rng.choice([1, 2, 3]))
            else:
                lo = hi = rng.choice([0, maxv, rng.randint(0, maxv)])
            if any(not (hi < a or b < lo) for (_, a, b) in used):
                continue
            used.append(("r" if hi > lo else "v", lo, hi))
        segs = used
        rng.shuffle(segs)
        # an incomplete enum must really miss a value, unless it is open (then harmless)
        total = sum(b - a + 1 for (_, a, b) in segs)
        if total == maxv + 1 and not is_open:
            segs = segs[:-1] or [("v", 0, 0)] if maxv >= 1 else segs
    if complete:
        if rng.random() < 0.5:
            rng.shuffle(segs)
    tags, k = [], 0
    for kind, lo, hi in segs:
        k += 1
        if kind == "v":
            tags.append({"kind": "value", "id": "T%d_V" % k if rng.random() < 0.3 else "A%d" % k,
                         "value": lo, "lit": lit(rng, lo)})
        else:
            sub = []
            if nested:
                for j, v in enumerate(sorted(set(rng.choice([lo, hi, rng.randint(lo, hi)])
                                                 for _ in range(rng.randint(0, 3))))):
                    sub.append({"id": "N%d_%d" % (k, j), "value": v, "lit": lit(rng, v)})
                rng.shuffle(sub)
            tags.append({"kind": "range", "id": "R%d" % k, "lo": lo, "hi": hi,
                         "lo_lit": lit(rng, lo), "hi_lit": lit(rng, hi), "tags": sub})
    if not tags:
        tags.append({"kind": "value", "id": "A0", "value": 0, "lit": "0"})
    if is_open:
        pos = rng.randint(1, len(tags))      # never first: the Rust back end `todo!()`s (H14, C10)
        tags.insert(pos, {"kind": "other", "id": "UNKNOWN"})
    return EnumSpec(name, width, tags)


def stratified_shapes():
    shapes = []
    for op in (False, True):
        for comp in (False, True):
            for rg in (False, True):
                for ne in ((False, True) if rg else (False,)):
                    shapes.append({"open": op, "complete": comp, "ranges": rg, "nested": ne})
    return shapes
