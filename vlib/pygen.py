"""Assemble, check and drive the harness around pdlc-generated Python.

Same interface as rustgen.RustHarness:
    h = PyHarness(name, descs)     descs: list of dict(text=<pdl>, analyzed=<file json>, python=<emitted code or None>)
    ok = h.build()                 False + h.build_log + h.failed when some emitted module does not import
    r = h.ask(i, type_name, op, arg)
    h.close()

The generated modules are written to .cache/pygen/<name>/d<i>.py and are only ever imported by a
child python3 process (runner.py, written next to them from RUNNER below).  The glue (how a JSON
value maps onto the generated dataclasses and back) is a table computed per description from the
analyzed AST (`glue_for`) and handed to the runner as glue.json.

ops (arg is a str):
    enc      JSON value -> {"r":"ok","hex":..,"len":<obj.size or null>}
                         | {"r":"err","e":"ValueError","k":"scalar|size|count","m":..}   the serializer's own range checks
                         | {"r":"exception","e":<class>,"m":..} | {"r":"badvalue","m":..}
    dec      hex        -> T.parse_all(bytes): {"r":"ok","type":<class of the result>,"value":..,"rest":0}
                         | {"r":"err","e":<DecodeError subclass>,"m":..} | {"r":"exception","e":<class>,"m":..}
    decroot  hex        -> same, through parse_all of the root ancestor of T (a derived packet's own
                           `parse` takes the parent's fields and cannot be called by parse_all)
    size     JSON value -> {"r":"ok","len":n}
    rt       JSON value -> enc, then decroot of the result: {"r":"ok","hex":..,"type":..,"value":..,"eq":bool,
                           "objeq": <built object == parsed object, by the dataclasses' __eq__>}

self-test:  python3 /verif/vlib/pygen.py --selftest [--seed N] [--n N] [--values N]
"""
import json
import os
import sys

if __name__ == "__main__" and __package__ in (None, ""):
    sys.path.insert(0, os.path.dirname(os.path.dirname(os.path.abspath(__file__))))
    import vlib  # noqa: F401  (run as a script: make the relative imports below work)
    __package__ = "vlib"

from . import common as C

ROOT = os.path.join(C.CACHE, "pygen")
TIMEOUT = 5.0


# ---------------------------------------------------------------------------
# glue: analyzed AST -> table read by the runner

def decl_index(file_json):
    return {d["id"]: d for d in file_json["declarations"] if "id" in d}


def parent_chain(idx, d):
    out, seen = [d], {d["id"]}
    while out[-1].get("parent_id") in idx and out[-1]["parent_id"] not in seen:
        seen.add(out[-1]["parent_id"])
        out.append(idx[out[-1]["parent_id"]])
    return out   # child first


def type_ref(idx, type_id):
    """How a value of declared type `type_id` is represented: ["enum"|"custom"|"struct", name]."""
    k = idx[type_id]["kind"]
    if k == "enum_declaration":
        return ["enum", type_id]
    if k in ("custom_field_declaration", "checksum_declaration"):
        return ["custom", type_id]
    return ["struct", type_id]


def glue_for(file_json):
    """Per packet/struct: the data fields in gen_value.Types.data_fields order (the declaration's own
    fields first, then its ancestors'), each as [field id, conv] where conv is
    ["int"] | ["enum",E] | ["custom",C] | ["struct",S] | ["bytes"] (8-bit array, a bytearray in the
    generated class) | ["list", conv]."""
    idx = decl_index(file_json)
    types, customs = {}, {}
    for d in file_json["declarations"]:
        k = d["kind"]
        if k == "custom_field_declaration":
            customs[d["id"]] = d.get("width")
        if k not in ("packet_declaration", "struct_declaration"):
            continue
        chain = parent_chain(idx, d)
        cs = {}
        for x in chain:
            for c in x.get("constraints", []):
                cs[c["id"]] = c
        fields = []
        for x in chain:
            for f in x["fields"]:
                if "id" not in f or f["id"] in cs:
                    continue
                fk = f["kind"]
                if fk == "scalar_field":
                    fields.append([f["id"], ["int"]])
                elif fk == "typedef_field":
                    fields.append([f["id"], type_ref(idx, f["type_id"])])
                elif fk == "array_field":
                    if f["width"] == 8:
                        fields.append([f["id"], ["bytes"]])
                    elif f["width"] is not None:
                        fields.append([f["id"], ["list", ["int"]]])
                    else:
                        fields.append([f["id"], ["list", type_ref(idx, f["type_id"])]])
        types[d["id"]] = {
            "fields": fields,
            "payload": any(f["kind"] in ("payload_field", "body_field") for f in d["fields"]),
            "root": chain[-1]["id"],
            "constrained": sorted(cs),
        }
    return {"endian": "little" if file_json["endianness"]["value"] == "little_endian" else "big",
            "customs": customs, "types": types}


def generate(drv, text):
    """Ask the driver (common.driver()) for the Python code of a description.
    Returns (code or None, reply)."""
    r = drv.ask({"op": "gen", "backend": "python", "text": text})
    if r is None:
        return None, {"status": "dead", "message": drv.last_death}
    if r.get("status") != "ok":
        return None, r
    return r["text"], r


def write_if_changed(path, content):
    if os.path.exists(path) and open(path).read() == content:
        return False
    with open(path, "w") as f:
        f.write(content)
    return True


# ---------------------------------------------------------------------------
# the child process

RUNNER = r'''# Written by vlib/pygen.py -- do not edit.  One request per line: <desc> <type> <op> <arg>
import sys, os, json, re, signal, dataclasses, importlib.util, traceback

DIR = os.path.dirname(os.path.abspath(__file__))
GLUE = json.load(open(os.path.join(DIR, "glue.json")))
MODS = {}
SOFT_TIMEOUT = %(soft)s
OWN_ERR = re.compile(r"^Invalid (scalar|size|count) value ")


class SoftTimeout(BaseException):
    pass


class BadValue(Exception):
    pass


def on_alarm(sig, frm):
    raise SoftTimeout()


def make_custom(holder, name, width, endian):
    n = width // 8

    class Custom:
        def __init__(self, value=0):
            self.value = value

        @staticmethod
        def parse(span):
            if len(span) < n:
                raise holder["mod"].LengthError(name, n, len(span))
            return Custom(int.from_bytes(span[:n], byteorder=endian)), span[n:]

        @staticmethod
        def parse_all(span):
            v, rest = Custom.parse(span)
            if len(rest) > 0:
                raise holder["mod"].TrailingBytesError(name, len(rest))
            return v

        def serialize(self, payload=None):
            return int.to_bytes(self.value, length=n, byteorder=endian)

        @property
        def size(self):
            return n

        def __eq__(self, o):
            return isinstance(o, Custom) and o.value == self.value

        def __repr__(self):
            return "%%s(%%r)" %% (name, self.value)

    Custom.__name__ = Custom.__qualname__ = name
    Custom._pdlv_custom = True
    return Custom


def load(i):
    """Import d<i>.py (once).  Custom field classes are not emitted by the back end: they are
    injected into the module namespace before its code runs."""
    if i in MODS:
        return MODS[i]
    g = GLUE[i] if 0 <= i < len(GLUE) else None
    if g is None:
        MODS[i] = "no such description / no python code"
        return MODS[i]
    try:
        name = "d%%d" %% i
        spec = importlib.util.spec_from_file_location(name, os.path.join(DIR, name + ".py"))
        mod = importlib.util.module_from_spec(spec)
        holder = {"mod": mod}
        for cn, w in g["customs"].items():
            if w is not None:      # custom fields without a declared width are not supported
                setattr(mod, cn, make_custom(holder, cn, w, g["endian"]))
        sys.modules[name] = mod
        spec.loader.exec_module(mod)
        MODS[i] = mod
    except BaseException as e:
        MODS[i] = "%%s: %%s\n%%s" %% (type(e).__name__, e, traceback.format_exc()[-1500:])
    return MODS[i]


def check(i):
    """Import problems, and disagreements between the glue table and the generated classes."""
    mod = load(i)
    if isinstance(mod, str):
        return {"import": mod}
    warn = []
    for t, info in GLUE[i]["types"].items():
        cls = getattr(mod, t, None)
        if cls is None or not dataclasses.is_dataclass(cls):
            warn.append("%%s: no such dataclass" %% t)
            continue
        have = set(f.name for f in dataclasses.fields(cls))
        want = set(f[0] for f in info["fields"]) | set(info["constrained"]) | {"payload"}
        if have != want:
            warn.append("%%s: dataclass fields %%s, glue expects %%s" %% (t, sorted(have), sorted(want)))
    return {"warn": warn} if warn else {}


# -- JSON value -> object ------------------------------------------------------

def conv_in(mod, g, conv, v, where):
    k = conv[0]
    if k == "int":
        if isinstance(v, bool) or not isinstance(v, int):
            raise BadValue("%%s: expected an integer, got %%r" %% (where, v))
        return v
    if k == "enum":
        if isinstance(v, bool) or not isinstance(v, int):
            raise BadValue("%%s: expected an integer (enum %%s), got %%r" %% (where, conv[1], v))
        try:
            return getattr(mod, conv[1])(v)
        except (ValueError, TypeError):
            # not a member (TypeError: an IntEnum without any member, e.g. an enum of ranges only)
            return v
    if k == "custom":
        if isinstance(v, bool) or not isinstance(v, int):
            raise BadValue("%%s: expected an integer (custom %%s), got %%r" %% (where, conv[1], v))
        return getattr(mod, conv[1])(v)
    if k == "struct":
        return to_obj(mod, g, conv[1], v, where)
    if k == "bytes":
        if not isinstance(v, list):
            raise BadValue("%%s: expected a list, got %%r" %% (where, v))
        try:
            return bytearray(v)
        except (ValueError, TypeError) as e:
            # an element beyond 8 bits cannot be put in the bytearray the class declares: keep the list
            if all(isinstance(x, int) and not isinstance(x, bool) for x in v):
                return list(v)
            raise BadValue("%%s: %%s" %% (where, e))
    if k == "list":
        if not isinstance(v, list):
            raise BadValue("%%s: expected a list, got %%r" %% (where, v))
        return [conv_in(mod, g, conv[1], x, "%%s[%%d]" %% (where, n)) for n, x in enumerate(v)]
    raise BadValue("%%s: unknown conversion %%r" %% (where, conv))


def to_obj(mod, g, t, v, where=""):
    info = g["types"].get(t)
    if info is None:
        raise BadValue("%%s: %%s is not a packet or struct" %% (where, t))
    if not isinstance(v, dict):
        raise BadValue("%%s: expected an object for %%s, got %%r" %% (where, t, v))
    kw = {}
    known = set()
    for fid, conv in info["fields"]:
        known.add(fid)
        if fid not in v:
            raise BadValue("%%s: missing key %%s of %%s" %% (where, fid, t))
        x = v[fid]
        kw[fid] = None if x is None else conv_in(mod, g, conv, x, "%%s.%%s" %% (where, fid))
    if info["payload"]:
        known.add("payload")
        if "payload" not in v:
            raise BadValue("%%s: missing key payload of %%s" %% (where, t))
        try:
            kw["payload"] = bytes(v["payload"])
        except (ValueError, TypeError) as e:
            raise BadValue("%%s.payload: %%s" %% (where, e))
    extra = [k for k in v if k not in known]
    if extra:
        raise BadValue("%%s: unexpected keys %%s for %%s" %% (where, extra, t))
    return getattr(mod, t)(**kw)


# -- object -> JSON value ------------------------------------------------------

def conv_out(mod, g, v):
    if v is None:
        return None
    if isinstance(v, int):
        return int(v)
    if isinstance(v, (bytes, bytearray)):
        return list(v)
    if isinstance(v, (list, tuple)):
        return [conv_out(mod, g, x) for x in v]
    if getattr(type(v), "_pdlv_custom", False):
        return v.value
    if dataclasses.is_dataclass(v):
        return from_obj(mod, g, v)
    raise TypeError("harness: cannot convert %%r to a JSON value" %% (v,))


def from_obj(mod, g, o):
    t = type(o).__name__
    info = g["types"].get(t)
    if info is None:
        raise TypeError("harness: the parser returned a %%s" %% t)
    out = {}
    for fid, conv in info["fields"]:
        out[fid] = conv_out(mod, g, getattr(o, fid))
    if info["payload"]:
        out["payload"] = conv_out(mod, g, o.payload)
    return out


# -- ops -----------------------------------------------------------------------

def exc(e):
    return {"r": "exception", "e": type(e).__name__, "m": str(e)[:300]}


def do_dec(mod, g, t, arg, root, keep=None):
    try:
        b = bytes.fromhex(arg.strip())
    except ValueError as e:
        return {"r": "badvalue", "m": str(e)}
    cls = getattr(mod, g["types"][t]["root"] if root else t)
    try:
        o = cls.parse_all(b)
    except mod.DecodeError as e:
        return {"r": "err", "e": type(e).__name__, "m": str(e)[:300]}
    except Exception as e:
        return exc(e)
    if keep is not None:
        keep.append(o)
    try:
        return {"r": "ok", "type": type(o).__name__, "value": from_obj(mod, g, o), "rest": 0}
    except Exception as e:
        return {"r": "exception", "e": "Unconvertible", "m": "%%s: %%s" %% (type(e).__name__, str(e)[:300])}


def do_enc(mod, g, o):
    try:
        b = o.serialize()
    except ValueError as e:
        m = OWN_ERR.match(str(e))
        if m:
            return {"r": "err", "e": "ValueError", "k": m.group(1), "m": str(e)[:300]}
        return exc(e)
    except Exception as e:
        return exc(e)
    if not isinstance(b, (bytes, bytearray)):
        return {"r": "exception", "e": "NotBytes", "m": repr(b)[:300]}
    r = {"r": "ok", "hex": bytes(b).hex()}
    try:
        n = o.size
        r["len"] = int(n) if isinstance(n, int) else None
        if not isinstance(n, int):
            r["len_exc"] = "size is %%r" %% (n,)
    except Exception as e:
        r["len"] = None
        r["len_exc"] = "%%s: %%s" %% (type(e).__name__, str(e)[:200])
    return r


def handle(d, t, op, arg):
    try:
        i = int(d)
    except ValueError:
        return {"r": "baddesc"}
    mod = load(i)
    if isinstance(mod, str):
        return {"r": "baddesc", "m": mod[:500]}
    g = GLUE[i]
    if t not in g["types"]:
        return {"r": "badtype"}
    if op == "dec":
        return do_dec(mod, g, t, arg, False)
    if op == "decroot":
        return do_dec(mod, g, t, arg, True)
    if op in ("enc", "size", "rt"):
        try:
            v = json.loads(arg)
        except ValueError as e:
            return {"r": "badvalue", "m": "json: %%s" %% e}
        try:
            o = to_obj(mod, g, t, v, t)
        except BadValue as e:
            return {"r": "badvalue", "m": str(e)[:300]}
        except Exception as e:
            # the dataclass constructor / __post_init__ refused the value
            return {"r": "badvalue", "m": "%%s: %%s" %% (type(e).__name__, str(e)[:300]), "ctor": True}
        if op == "size":
            try:
                n = o.size
            except Exception as e:
                return exc(e)
            return {"r": "ok", "len": n if isinstance(n, int) else repr(n)}
        r = do_enc(mod, g, o)
        if op == "rt" and r["r"] == "ok":
            keep = []
            dr = do_dec(mod, g, t, r["hex"], True, keep)
            if dr["r"] == "ok":
                r["type"], r["value"] = dr["type"], dr["value"]
                r["eq"] = dr["type"] == t and json.dumps(dr["value"], sort_keys=True) == json.dumps(v, sort_keys=True)
                try:
                    r["objeq"] = bool(o == keep[0])     # the dataclasses' own __eq__
                except Exception as e:
                    r["objeq"] = "%%s: %%s" %% (type(e).__name__, str(e)[:100])
            else:
                r["eq"] = False
                r["dec"] = dr
        return r
    return {"r": "badop"}


def main():
    if len(sys.argv) > 1 and sys.argv[1] == "--check":
        res = {}
        for i in range(len(GLUE)):
            r = check(i) if GLUE[i] is not None else {"import": "no python code"}
            if r:
                res[str(i)] = r
        print(json.dumps(res))
        return
    try:
        import resource
        lim = %(mem)d
        resource.setrlimit(resource.RLIMIT_AS, (lim, lim))
    except Exception:
        pass
    sys.setrecursionlimit(3000)
    # the protocol owns the real stdout; anything the generated code prints is dropped
    out = os.fdopen(os.dup(1), "w")
    sys.stdout = open(os.devnull, "w")
    signal.signal(signal.SIGALRM, on_alarm)
    for line in sys.stdin:
        line = line.rstrip("\n")
        p = line.split(" ", 3)
        while len(p) < 4:
            p.append("")
        try:
            signal.setitimer(signal.ITIMER_REAL, SOFT_TIMEOUT)
            try:
                r = handle(*p)
            finally:
                signal.setitimer(signal.ITIMER_REAL, 0)
        except SoftTimeout:
            r = {"r": "timeout", "soft": True}
        except BaseException as e:
            r = {"r": "exception", "e": type(e).__name__, "m": str(e)[:300], "outer": True}
        try:
            s = json.dumps(r)
        except Exception as e:
            s = json.dumps({"r": "exception", "e": "Unserializable", "m": str(e)[:300]})
        out.write(s + "\n")
        out.flush()


main()
'''


class PyHarness:
    """descs: list of dict(text=<pdl>, analyzed=<file json>, python=<text emitted by pdlc, or None>)."""

    def __init__(self, name, descs, timeout=TIMEOUT):
        self.name, self.descs, self.timeout = name, descs, timeout
        self.dir = os.path.join(ROOT, name)
        self.proc = None
        self.build_log = ""
        self.failed = []
        self.warnings = {}
        self.deaths = 0

    def assemble(self):
        os.makedirs(self.dir, exist_ok=True)
        glue, keep = [], {"runner.py", "glue.json"}
        for i, d in enumerate(self.descs):
            code = d.get("python")
            if code is None:
                glue.append(None)
                continue
            write_if_changed(os.path.join(self.dir, "d%d.py" % i), code)
            keep.add("d%d.py" % i)
            glue.append(glue_for(d["analyzed"]))
        write_if_changed(os.path.join(self.dir, "glue.json"), json.dumps(glue))
        write_if_changed(os.path.join(self.dir, "runner.py"),
                         RUNNER % {"soft": repr(max(0.5, self.timeout - 1.0)), "mem": 4 << 30})
        for f in os.listdir(self.dir):
            p = os.path.join(self.dir, f)
            if f not in keep and os.path.isfile(p):
                os.remove(p)
        self.glue = glue

    def argv(self, *extra):
        return [sys.executable or "python3", "-B", os.path.join(self.dir, "runner.py")] + list(extra)

    def build(self):
        """Write the modules and import each of them in a child process.  Returns False when some
        module does not import; self.failed lists those descriptions (the others remain usable,
        `ask` answers {"r":"baddesc"} for the failed ones)."""
        self.close()
        with C.Lock("pygen-" + self.name):
            self.assemble()
            try:
                rc, out = C.run(self.argv("--check"), cwd=self.dir, timeout=600)
            except Exception as e:
                rc, out = -1, "check run failed: %s" % e
        self.failed, self.warnings, log = [], {}, []
        res = None
        if rc == 0:
            try:
                res = json.loads(out.strip().splitlines()[-1])
            except Exception:
                res = None
        if res is None:
            self.build_log = "runner --check failed (rc=%s):\n%s" % (rc, out[-4000:])
            self.failed = list(range(len(self.descs)))
            return False
        for k in sorted(res, key=int):
            r = res[k]
            if "import" in r:
                self.failed.append(int(k))
                log.append("d%s.py does not import: %s" % (k, r["import"]))
            if "warn" in r:
                self.warnings[int(k)] = r["warn"]
                log.append("d%s.py glue warnings: %s" % (k, r["warn"]))
        self.build_log = "\n".join(log)
        return not self.failed

    def start(self, timeout=None):
        self.proc = C.LineProc(self.argv(), cwd=self.dir, timeout=timeout or self.timeout)
        return self.proc

    def ask(self, d, t, op, arg, timeout=None):
        """Returns a dict; {"r":"abort"/"timeout", ...} when the child died or hung (it is restarted
        on the next request)."""
        try:
            if self.proc is None:
                self.start()
            if not isinstance(arg, str):
                arg = json.dumps(arg, separators=(",", ":"))
            line = "%s %s %s %s" % (d, t, op, arg)
            if "\n" in line:
                return {"r": "badvalue", "m": "newline in request"}
            raw = self.proc.ask_raw(line, timeout)
            if raw is None:
                why = self.proc.last_death or ""
                return {"r": "timeout" if str(why).startswith("timeout") else "abort", "m": why}
            try:
                return json.loads(raw)
            except Exception:
                return {"r": "garbled", "raw": raw[:300]}
        except Exception as e:   # never raise
            try:
                if self.proc:
                    self.proc.kill()
            except Exception:
                pass
            return {"r": "abort", "m": "harness: %s: %s" % (type(e).__name__, e)}

    def close(self):
        if self.proc:
            self.deaths += self.proc.deaths
            self.proc.kill()
            self.proc = None


# ---------------------------------------------------------------------------
# self-test

def decl_text(text, type_id):
    """The pdl text of one declaration (for reports)."""
    import re
    m = re.search(r"^(packet|struct)\s+%s\b.*?^\}" % re.escape(type_id), text, re.M | re.S)
    return m.group(0) if m else "<%s>" % type_id


def struct_types_of(types, d, seen=None):
    """d, its ancestors and every struct reachable through typedef / array fields."""
    seen = seen if seen is not None else {}
    for x in types.parent_chain(d):
        if x["id"] in seen:
            continue
        seen[x["id"]] = x
        for f in x["fields"]:
            td = types.decls.get(f.get("type_id"))
            if td is not None and td["kind"] in ("packet_declaration", "struct_declaration"):
                struct_types_of(types, td, seen)
    return seen


def has_unsized_padded(types, d):
    """Some reachable declaration pads an array that has neither a static size nor a size/count
    field: the parser then takes the padding bytes for elements (inherent to the format)."""
    for x in struct_types_of(types, d).values():
        fs = x["fields"]
        for j, f in enumerate(fs):
            if (f["kind"] == "array_field" and f["size"] is None and j + 1 < len(fs)
                    and fs[j + 1]["kind"] == "padding_field"
                    and not any(g["kind"] in ("size_field", "count_field") and g["field_id"] == f["id"] for g in fs)):
                return True
    return False


def pad_overflow(h, i, types, d, v):
    """Does some array of the value `v` (of declaration d) exceed the `_padding_` that follows it?
    Element sizes are measured by encoding the elements with the harness itself."""
    if not isinstance(v, dict):
        return False
    for x in types.parent_chain(d):
        fs = x["fields"]
        for j, f in enumerate(fs):
            fid = f.get("id")
            if fid is None or v.get(fid) is None:
                continue
            td = types.decls.get(f.get("type_id"))
            is_struct = td is not None and td["kind"] in ("packet_declaration", "struct_declaration")
            if f["kind"] == "typedef_field" and is_struct:
                if pad_overflow(h, i, types, td, v[fid]):
                    return True
            if f["kind"] != "array_field":
                continue
            elems = v[fid]
            if is_struct and any(pad_overflow(h, i, types, td, e) for e in elems):
                return True
            if j + 1 < len(fs) and fs[j + 1]["kind"] == "padding_field":
                if f["width"] is not None:
                    total = len(elems) * f["width"] // 8
                elif not is_struct:
                    total = len(elems) * td["width"] // 8
                else:
                    total = 0
                    for e in elems:
                        r = h.ask(i, td["id"], "enc", e)
                        if r.get("r") != "ok":
                            return False
                        total += len(r["hex"]) // 2
                if total > fs[j + 1]["size"]:
                    return True
    return False


def selftest(argv):
    import argparse
    import random
    import time
    from . import gen_descr as GD
    from . import gen_value as GV

    ap = argparse.ArgumentParser()
    ap.add_argument("--selftest", action="store_true")
    ap.add_argument("--seed", type=int, default=20260923)
    ap.add_argument("--n", type=int, default=15)
    ap.add_argument("--values", type=int, default=5)
    ap.add_argument("--show", type=int, default=4)
    ap.add_argument("--no-stratified", action="store_true")
    a = ap.parse_args(argv)

    if not os.path.exists(C.DRIVER_BIN):
        print("driver missing: run `cd /verif && bin/setup`")
        return 2
    rng = random.Random(a.seed)
    opts = GD.Opts.for_backend("python")
    drv = C.driver()
    texts = []
    if not a.no_stratified:
        texts += [t for t, _ in GD.stratified(rng, opts)]
    for _ in range(a.n):
        texts.append(GD.generate(rng, opts)[0])

    descs, gen_failures = [], []
    for text in texts:
        r = drv.ask({"op": "analyze", "text": text})
        if not r or r.get("status") != "ok":
            print("analyzer rejected a generated description (%s); skipped" % ((r or {}).get("status"),))
            continue
        code, rep = generate(drv, text)
        if code is None:
            gen_failures.append((text, rep))   # a finding, not our bug: skip the description
            continue
        descs.append({"text": text, "analyzed": r["file"], "python": code})
    drv.kill()

    t0 = time.time()
    h = PyHarness("selftest", descs)
    ok = h.build()
    t_build = time.time() - t0
    print("descriptions: %d generated, %d generator failures, %d not importable; build %.1fs"
          % (len(texts), len(gen_failures), len(h.failed), t_build))
    for text, rep in gen_failures[:a.show]:
        print("--- python generator failed: %s\n%s" % (json.dumps(rep)[:300], text))
    if not ok:
        print("--- build log:\n" + h.build_log[:3000])
        for i in h.failed[:a.show]:
            print("--- not importable d%d:\n%s" % (i, descs[i]["text"]))
    elif h.build_log:
        print("--- build log:\n" + h.build_log[:3000])

    counts = {}
    shown = {}
    QUIET = ("ok", "specialized_ok")

    def note(kind, i, t, detail):
        counts[kind] = counts.get(kind, 0) + 1
        if kind in QUIET:
            return
        shown.setdefault(kind, [])
        sig = detail.get("sig")     # one report per (kind, signature)
        if len(shown[kind]) < a.show and sig not in [s for s, _ in shown[kind]]:
            shown[kind].append((sig, "d%d %s: %s\n%s\n%s" % (
                i, t, json.dumps({k: v for k, v in detail.items() if k != "sig"})[:900],
                descs[i]["text"].split("\n")[0], decl_text(descs[i]["text"], t))))

    def same(x, y):
        return json.dumps(x, sort_keys=True) == json.dumps(y, sort_keys=True)

    t0 = time.time()
    n_cases = 0
    for i, d in enumerate(descs):
        if i in h.failed:
            continue
        types = GV.Types(d["analyzed"])
        for x in d["analyzed"]["declarations"]:
            if x["kind"] not in ("packet_declaration", "struct_declaration"):
                continue
            t = x["id"]
            child = x.get("parent_id") is not None
            unsized_padded = has_unsized_padded(types, x)
            for _ in range(a.values):
                v, _inj = GV.gen_value(types, t, rng)
                n_cases += 1
                e = h.ask(i, t, "enc", v)
                overflow = pad_overflow(h, i, types, x, v)
                if e.get("r") != "ok":
                    note("enc_" + str(e.get("r")), i, t,
                         {"value": v, "enc": e, "sig": (e.get("e"), e.get("k"), str(e.get("m"))[:25])})
                    continue
                if overflow:
                    # the value does not fit a `_padding_`: the serializer emits it nevertheless
                    note("pad_overflow_encoded", i, t, {"value": v, "enc": e, "sig": t})
                    continue
                if e.get("len") is not None and not child and e["len"] != len(e["hex"]) // 2:
                    note("size_mismatch", i, t, {"value": v, "enc": e, "sig": t})
                dr = h.ask(i, t, "decroot" if child else "dec", e["hex"])
                if dr.get("r") != "ok":
                    kind = "padded_unsized_array" if unsized_padded and dr.get("r") == "err" else "dec_" + str(dr.get("r"))
                    note(kind, i, t, {"value": v, "hex": e["hex"], "dec": dr,
                                      "sig": (dr.get("e"), str(dr.get("m"))[:25])})
                    continue
                if dr["type"] != t:
                    # the parser specialized further: the result must re-encode to the same bytes,
                    # or at least (reserved bits are not kept) to bytes that decode to the same value
                    e2 = h.ask(i, dr["type"], "enc", dr["value"])
                    d2 = h.ask(i, dr["type"], "decroot", e2["hex"]) if e2.get("r") == "ok" else {}
                    if e2.get("r") == "ok" and e2["hex"] == e["hex"]:
                        note("specialized_ok", i, t, {})
                    elif d2.get("r") == "ok" and d2["type"] == dr["type"] and same(d2["value"], dr["value"]):
                        note("specialized_reencodes_differently", i, t,
                             {"value": v, "hex": e["hex"], "dec": dr, "reenc": e2, "sig": (t, dr["type"])})
                    else:
                        note("mismatch", i, t, {"value": v, "hex": e["hex"], "dec": dr, "reenc": e2, "redec": d2,
                                                "sig": ("spec", t, dr["type"])})
                    continue
                if same(dr["value"], v):
                    note("ok", i, t, {})
                else:
                    diff = [k for k in v if dr["value"].get(k) != v[k]]
                    note("padded_unsized_array" if unsized_padded else "mismatch", i, t,
                         {"value": v, "hex": e["hex"], "decoded": dr["value"], "differs": diff, "sig": (t,)})
    dt = time.time() - t0
    # throughput
    rate = None
    live = [i for i in range(len(descs)) if i not in h.failed]
    if live:
        i = live[0]
        t = next(x["id"] for x in descs[i]["analyzed"]["declarations"]
                 if x["kind"] in ("packet_declaration", "struct_declaration"))
        v, _ = GV.gen_value(GV.Types(descs[i]["analyzed"]), t, rng)
        t1 = time.time()
        for _ in range(2000):
            h.ask(i, t, "enc", v)
        rate = 2000 / (time.time() - t1)
    h.close()
    print("cases: %d in %.1fs; enc throughput %s req/s; child deaths %d"
          % (n_cases, dt, "%.0f" % rate if rate else "n/a", h.deaths))
    print("summary: " + " ".join("%s=%d" % (k, counts[k]) for k in sorted(counts)))
    for kind in sorted(shown):
        for _, s in shown[kind]:
            print("--- %s: %s" % (kind, s))
    return 0


if __name__ == "__main__":
    if "--selftest" in sys.argv:
        sys.exit(selftest(sys.argv[1:]))
    print(__doc__)
