"""Generator of syntactically valid but semantically arbitrary descriptions ("absurd" files):
declarations of every kind whose fields, references, constraints and conditions are drawn from a
small pool of identifiers, so that every construct meets every other construct in every position
(size fields naming the other payload form, constraints on arrays / flags / structs, conditions on
anything, groups inside groups, parents of the wrong kind, ...).  Most of these are rejected by the
analyzer; the point (property C10) is that each stage returns a value: a diagnostic or a result.
"""

IDS = ["a", "b", "c", "x", "y", "p"]
TYPES = ["E1", "E2", "S1", "S2", "P1", "P2", "G1", "G2", "C1", "K1", "Nope"]
TAGS = ["A", "B", "R", "X", "Nope"]
INTS = [0, 1, 2, 3, 7, 8, 9, 15, 16, 24, 31, 32, 33, 63, 64, 65, 255, 256, 65535, 65536,
        (1 << 31) - 1, 1 << 31, (1 << 32) - 1, 1 << 32, (1 << 63) - 1, 1 << 63, (1 << 64) - 1]
POOL = {"ids": IDS, "types": TYPES, "tags": TAGS, "groups": ["G1", "G2", "S1", "Nope"]}
WIDTHS = [1, 2, 3, 4, 5, 7, 8, 8, 8, 9, 12, 16, 16, 24, 32, 40, 48, 56, 63, 64, 64, 65, 72, 128, 0]


def _int(rng, small=False):
    if small or rng.random() < 0.6:
        return rng.choice([0, 1, 1, 2, 3, 4, 8])
    return rng.choice(INTS)


def _lit(rng, v):
    return ("0x%x" % v) if rng.random() < 0.3 else str(v)


def constraint(rng, P=None):
    P = P or POOL
    IDS, TAGS = P["ids"], P["tags"]
    i = rng.choice(IDS)
    if rng.random() < 0.5:
        return "%s = %s" % (i, _lit(rng, _int(rng)))
    return "%s = %s" % (i, rng.choice(TAGS))


def constraints(rng, lo=1, hi=3, P=None):
    return ", ".join(constraint(rng, P) for _ in range(rng.randint(lo, hi)))


def field(rng, ctx, P=None):
    """One field; ctx in packet/struct/group"""
    P = P or POOL
    IDS, TYPES, TAGS = P["ids"], P["types"], P["tags"]
    k = rng.random()
    i = rng.choice(IDS)
    w = rng.choice(WIDTHS)
    t = rng.choice(TYPES)
    target = rng.choice(IDS + ["_payload_", "_body_", "_payload_", "_body_"])
    if k < 0.22:
        f = "%s: %d" % (i, w)
    elif k < 0.30:
        f = "%s: %s" % (i, t)
    elif k < 0.42:
        size = rng.choice(["", "", "%d" % _int(rng, True), "%d" % _int(rng), "+%d" % _int(rng, True)])
        el = str(rng.choice([8, 8, 16, 24, 32, 64, w])) if rng.random() < 0.5 else t
        f = "%s: %s[%s]" % (i, el, size)
    elif k < 0.50:
        f = "_size_(%s): %d" % (target, w)
    elif k < 0.56:
        f = "_count_(%s): %d" % (rng.choice(IDS), w)
    elif k < 0.60:
        f = "_elementsize_(%s): %d" % (rng.choice(IDS), w)
    elif k < 0.68:
        f = rng.choice(["_payload_", "_payload_", "_body_", "_payload_: [+%d]" % _int(rng, True)])
    elif k < 0.73:
        f = "_reserved_: %d" % w
    elif k < 0.79:
        f = ("_fixed_ = %s: %d" % (_lit(rng, _int(rng)), w)) if rng.random() < 0.6 else ("_fixed_ = %s: %s" % (rng.choice(TAGS), t))
    elif k < 0.84:
        f = "_padding_[%d]" % _int(rng, rng.random() < 0.8)
    elif k < 0.88:
        f = "_checksum_start_(%s)" % rng.choice(IDS)
    else:
        f = rng.choice(P["groups"])
        if rng.random() < 0.6:
            f += " { %s }" % constraints(rng, P=P)
        return f
    if rng.random() < 0.2 and not f.startswith("_p") and " {" not in f:
        f += " if %s = %s" % (rng.choice(IDS), rng.choice(["0", "1", "1", "2", "A"]))
    return f


def fields(rng, ctx, lo=0, hi=6):
    return ",\n  ".join(field(rng, ctx) for _ in range(rng.randint(lo, hi)))


def enum(rng, name):
    w = rng.choice([1, 2, 3, 7, 8, 8, 8, 16, 32, 63, 64, 65, 0])
    tags = []
    for _ in range(rng.randint(0, 5)):
        k = rng.random()
        tid = rng.choice(TAGS)
        if k < 0.55:
            tags.append("%s = %s" % (tid, _lit(rng, _int(rng))))
        elif k < 0.8:
            lo, hi = _int(rng), _int(rng)
            sub = ""
            if rng.random() < 0.4:
                sub = " { %s }" % ", ".join("%s = %d" % (rng.choice(TAGS), _int(rng)) for _ in range(rng.randint(1, 2)))
            tags.append("%s = %s..%s%s" % (tid, _lit(rng, lo), _lit(rng, hi), sub))
        else:
            tags.append("%s = .." % tid)
    return "enum %s : %d {\n  %s\n}\n" % (name, w, ",\n  ".join(tags))


def generate(rng):
    decls = []
    n = rng.randint(1, 7)
    names = list(TYPES[:-1])
    rng.shuffle(names)
    for name in names[:n]:
        k = name[0]
        if rng.random() < 0.15:
            k = rng.choice("ESPGCK")          # a name whose kind is not the one its spelling suggests
        if k == "E":
            decls.append(enum(rng, name))
        elif k in "SP":
            kw = "struct" if k == "S" else "packet"
            head = "%s %s" % (kw, name)
            if rng.random() < 0.4:
                head += " : %s" % rng.choice(TYPES)
                if rng.random() < 0.7:
                    head += " (%s)" % constraints(rng, 1, 2)
            decls.append("%s {\n  %s\n}\n" % (head, fields(rng, kw)))
        elif k == "G":
            decls.append("group %s {\n  %s\n}\n" % (name, fields(rng, "group", 0, 4)))
        elif k == "C":
            decls.append("custom_field %s %s\"c\"\n" % (name, rng.choice([": 8 ", ": 16 ", ": 24 ", "", ": 7 ", ": 0 ", ": 65 "])))
        else:
            decls.append("checksum %s : %d \"k\"\n" % (name, rng.choice([8, 16, 32, 7])))
    if rng.random() < 0.1:
        decls.append("test %s { \"\\x00\" }\n" % rng.choice(TYPES))
    return rng.choice(["little", "big"]) + "_endian_packets\n" + "".join(decls)


def semi_valid(rng, text):
    """One absurd edit of a well-formed description: a field of `gen_absurd.field` spliced into a
    random field list, or a constraint list / parent added to a declaration."""
    import re
    opens = [m.end() for m in re.finditer(r"\b(?:packet|struct|group)\b[^{]*\{", text)]
    if not opens:
        return text
    ids = sorted(set(re.findall(r"(?:^|[,{(]\s*)([a-z]\w*)\s*:", text))) or IDS
    types = sorted(set(re.findall(r"\b(?:packet|struct|enum|group|custom_field|checksum)\s+(\w+)", text))) or TYPES
    tags = sorted(set(re.findall(r"\b([A-Z][A-Z0-9_]*)\s*=", text))) or TAGS
    groups = sorted(set(re.findall(r"\bgroup\s+(\w+)", text))) or types
    P = {"ids": ids + ["nope"], "types": types + ["Nope"], "tags": tags + ["NOPE"], "groups": groups}
    at = rng.choice(opens)
    k = rng.random()
    if k < 0.7:
        close = text.find("}", at)
        body = text[at:close]
        new = field(rng, "packet", P)
        if body.strip():
            parts = body.split(",\n")
            j = rng.randint(0, len(parts))
            parts.insert(j, "\n  " + new if j else "\n  " + new)
            return text[:at] + ",\n".join(parts) + text[close:]
        return text[:at] + " " + new + " " + text[close:]
    # add constraints to a child declaration header or to a group use
    m = re.search(r"(packet|struct) (\w+) : (\w+) \(", text)
    if m and k < 0.9:
        return text[:m.end()] + constraint(rng, P) + ", " + text[m.end():]
    m = list(re.finditer(r"(packet|struct) (\w+) \{", text))
    if m:
        mm = rng.choice(m)
        others = [x.group(2) for x in m if x.group(2) != mm.group(2)] or ["Nope"]
        return text[:mm.start()] + "%s %s : %s (%s) {" % (mm.group(1), mm.group(2), rng.choice(others), constraint(rng, P)) + text[mm.end():]
    return text
