"""Assemble, build and drive a harness around pdlc-generated C++ (back end `cxx`).

Same interface as rustgen.RustHarness:

    h = CxxHarness(name, descs)       # descs: dicts with "text", "analyzed", "cxx"
    ok = h.build()                    # False + h.build_log + h.failed when code does not compile
    r = h.ask(i, type_name, op, arg)  # ops: enc / dec / size ; never raises
    h.close()

Layout: every description becomes ONE translation unit (generated header, wrapped in an
anonymous namespace, followed by glue generated from the analyzed AST) compiled on its own
(in parallel, cached by content hash under .cache/cxxgen/tu/<hash>/), plus a small main.cc with
the line-protocol loop; everything is linked into .cache/cxxgen/<name>/harness[-ndebug].
The process is persistent; a sanitizer report / failed assert / abort kills it, the request
that caused it is answered with {"r":"ub",...} and the process is restarted.

Answers of `ask` (dicts):
  enc  -> {"r":"ok","hex":..,"len":<Builder::GetSize()>} | {"r":"badvalue","m":..} | {"r":"exception","e":<class>,"m":..}
          (the C++ back end has no EncodeError-like channel, so "err" never occurs for enc)
  size -> {"r":"ok","len":n}
  dec  -> {"r":"ok","type":T,"value":{..},"rest":0,"fixed":{<constrained field>: <what its getter returns>}}
          | {"r":"err","e":"invalid","at":<first view of the Create chain that is not valid>}
          packets: `RootView::Create(slice)` then `ChildView::Create(parent view)` down to T, IsValid(), every getter;
          structs: `T::Parse(slice&, &out)` (a prefix parser: "rest" is the number of bytes left over)
  any  -> {"r":"ub","kind":"asan|ubsan|assert|alloc|terminate|signalN","m":<first lines of stderr>,"rc":..}
          (process died; it is restarted for the next request) | {"r":"timeout"} | {"r":"abort","m":..}
          | {"r":"unsupported","m":..} (construct the glue does not handle) | {"r":"nocompile"} (description
          stubbed out by build(keep_going=True)) | {"r":"badtype"} | {"r":"badop"} | {"r":"baddesc"}

Self-test:  python3 /verif/vlib/cxxgen.py --selftest [--seed N] [--n N] [--ndebug] [--no-model] [--mutants N]
                                                     [--opt flag=value ...] [--enum-first-value] [--json FILE]
"""
import hashlib
import json
import os
import re
import subprocess
import sys
import time
from concurrent.futures import ThreadPoolExecutor

if __package__ in (None, ""):
    sys.path.insert(0, os.path.dirname(os.path.dirname(os.path.abspath(__file__))))
    from vlib import common as C
    from vlib import gen_value as GV
else:
    from . import common as C
    from . import gen_value as GV

ROOT = os.path.join(C.CACHE, "cxxgen")
TU_DIR = os.path.join(ROOT, "tu")
RUNTIME_INC = os.path.join(C.REPO, "pdl-compiler", "scripts")


def runtime_header():
    """content of /repo's packet_runtime.h (part of every cache key: a change to it must rebuild the harness)"""
    try:
        return open(os.path.join(RUNTIME_INC, "packet_runtime.h"), encoding="utf-8", errors="replace").read()
    except OSError:
        return ""
CXX = os.environ.get("CXX", "g++")
BASE_FLAGS = ["-std=c++17", "-O1", "-g0", "-fsanitize=address,undefined", "-fno-sanitize-recover=all"]
GLUE_VERSION = "3"

RUN_ENV = dict(C.ENV)
RUN_ENV["ASAN_OPTIONS"] = "detect_leaks=0:abort_on_error=1:max_allocation_size_mb=2048:allocator_may_return_null=0"
RUN_ENV["UBSAN_OPTIONS"] = "print_stacktrace=0"


# ---------------------------------------------------------------------------
# C++ runtime of the harness (shared by all translation units)

HX_H = r'''// harness runtime: tiny JSON reader/writer + conversion helpers
#pragma once
#include <cstdint>
#include <cstdio>
#include <cstdlib>
#include <cstring>
#include <cassert>
#include <string>
#include <optional>
#include <utility>
#include <vector>
#include <array>
#include <numeric>
#include <limits>
#include <memory>
#include <algorithm>
#include <packet_runtime.h>

namespace hx {

struct BadValue { std::string m; };

struct J {
    enum K { Null, Num, Arr, Obj, Other } k = Null;
    uint64_t n = 0;
    bool big = false;   // negative, fractional or beyond 64 bits
    std::vector<J> a;
    std::vector<std::pair<std::string, J>> o;
};

struct P { const char* s; const char* e; };

inline void ws(P& p) { while (p.s < p.e && (*p.s == ' ' || *p.s == '\t' || *p.s == '\r' || *p.s == '\n')) p.s++; }

inline std::string str(P& p) {
    std::string r;
    p.s++;
    while (p.s < p.e && *p.s != '"') {
        if (*p.s == '\\' && p.s + 1 < p.e) { p.s++; }
        r += *p.s++;
    }
    if (p.s >= p.e) throw BadValue{"json: unterminated string"};
    p.s++;
    return r;
}

inline J val(P& p, int depth) {
    if (depth > 64) throw BadValue{"json: too deep"};
    ws(p);
    if (p.s >= p.e) throw BadValue{"json: unexpected end"};
    J j;
    char c = *p.s;
    if (c == '{') {
        j.k = J::Obj; p.s++; ws(p);
        if (p.s < p.e && *p.s == '}') { p.s++; return j; }
        for (;;) {
            ws(p);
            if (p.s >= p.e || *p.s != '"') throw BadValue{"json: expected key"};
            std::string k = str(p);
            ws(p);
            if (p.s >= p.e || *p.s != ':') throw BadValue{"json: expected ':'"};
            p.s++;
            j.o.emplace_back(std::move(k), val(p, depth + 1));
            ws(p);
            if (p.s < p.e && *p.s == ',') { p.s++; continue; }
            if (p.s < p.e && *p.s == '}') { p.s++; return j; }
            throw BadValue{"json: expected ',' or '}'"};
        }
    }
    if (c == '[') {
        j.k = J::Arr; p.s++; ws(p);
        if (p.s < p.e && *p.s == ']') { p.s++; return j; }
        for (;;) {
            j.a.push_back(val(p, depth + 1));
            ws(p);
            if (p.s < p.e && *p.s == ',') { p.s++; continue; }
            if (p.s < p.e && *p.s == ']') { p.s++; return j; }
            throw BadValue{"json: expected ',' or ']'"};
        }
    }
    if (c == '"') { j.k = J::Other; str(p); return j; }
    if (c == '-' || (c >= '0' && c <= '9')) {
        j.k = J::Num;
        if (c == '-') { j.big = true; p.s++; }
        unsigned __int128 acc = 0;
        while (p.s < p.e && *p.s >= '0' && *p.s <= '9') {
            acc = acc * 10 + (unsigned)(*p.s - '0');
            if (acc > (unsigned __int128)UINT64_MAX) { j.big = true; acc = 0; }
            p.s++;
        }
        while (p.s < p.e && (*p.s == '.' || *p.s == 'e' || *p.s == 'E' || *p.s == '+' || *p.s == '-' || (*p.s >= '0' && *p.s <= '9'))) {
            j.big = true; p.s++;
        }
        j.n = (uint64_t)acc;
        return j;
    }
    auto lit = [&](const char* w) { size_t n = strlen(w); if ((size_t)(p.e - p.s) >= n && memcmp(p.s, w, n) == 0) { p.s += n; return true; } return false; };
    if (lit("null")) { j.k = J::Null; return j; }
    if (lit("true") || lit("false")) { j.k = J::Other; return j; }
    throw BadValue{"json: unexpected character"};
}

inline J parse(const std::string& s) {
    P p{s.data(), s.data() + s.size()};
    J j = val(p, 0);
    ws(p);
    if (p.s != p.e) throw BadValue{"json: trailing characters"};
    return j;
}

inline void need_obj(const J& v) { if (v.k != J::Obj) throw BadValue{"expected an object"}; }

inline const J& field(const J& v, const char* k) {
    if (v.k != J::Obj) throw BadValue{"expected an object"};
    for (auto const& p : v.o) if (p.first == k) return p.second;
    throw BadValue{std::string("missing field `") + k + "`"};
}

template <typename T> T num(const J& v) {
    if (v.k != J::Num || v.big) throw BadValue{"expected an unsigned integer"};
    if (v.n > (uint64_t)std::numeric_limits<T>::max()) throw BadValue{"integer out of range of the C++ type"};
    return (T)v.n;
}

template <typename E, typename F> std::vector<E> vec_of(const J& v, F f) {
    if (v.k != J::Arr) throw BadValue{"expected an array"};
    std::vector<E> r;
    r.reserve(v.a.size());
    for (auto const& x : v.a) r.push_back(f(x));
    return r;
}

template <typename E, size_t N, typename F> std::array<E, N> arr_of(const J& v, F f) {
    if (v.k != J::Arr) throw BadValue{"expected an array"};
    if (v.a.size() != N) throw BadValue{"wrong number of elements for std::array"};
    std::array<E, N> r{};
    for (size_t i = 0; i < N; i++) r[i] = f(v.a[i]);
    return r;
}

template <typename E, typename F> std::optional<E> opt_of(const J& v, F f) {
    if (v.k == J::Null) return std::nullopt;
    return std::optional<E>(f(v));
}

inline std::vector<uint8_t> bytes_of(const J& v) {
    return vec_of<uint8_t>(v, [](const J& x) { return num<uint8_t>(x); });
}

inline void wn(std::string& o, uint64_t n) {
    char b[24];
    int k = snprintf(b, sizeof b, "%llu", (unsigned long long)n);
    o.append(b, (size_t)k);
}

inline void wbytes(std::string& o, const std::vector<uint8_t>& v) {
    o += '[';
    for (size_t i = 0; i < v.size(); i++) { if (i) o += ','; wn(o, v[i]); }
    o += ']';
}

inline void whex(std::string& o, const std::vector<uint8_t>& v) {
    static const char* d = "0123456789abcdef";
    for (uint8_t b : v) { o += d[b >> 4]; o += d[b & 15]; }
}

inline void qs(std::string& o, const std::string& s) {
    o += '"';
    for (unsigned char c : s) {
        if (c == '"' || c == '\\') { o += '\\'; o += (char)c; }
        else if (c < 0x20) { char b[8]; snprintf(b, sizeof b, "\\u%04x", c); o += b; }
        else o += (char)c;
    }
    o += '"';
}

inline int hv(char c) {
    if (c >= '0' && c <= '9') return c - '0';
    if (c >= 'a' && c <= 'f') return c - 'a' + 10;
    if (c >= 'A' && c <= 'F') return c - 'A' + 10;
    return -1;
}

inline std::shared_ptr<const std::vector<uint8_t>> unhex(const std::string& s) {
    auto v = std::make_shared<std::vector<uint8_t>>();
    size_t n = s.size();
    while (n && (s[n - 1] == '\r' || s[n - 1] == ' ')) n--;
    if (n % 2) throw BadValue{"odd number of hex digits"};
    v->reserve(n / 2);
    for (size_t i = 0; i < n; i += 2) {
        int a = hv(s[i]), b = hv(s[i + 1]);
        if (a < 0 || b < 0) throw BadValue{"bad hex digit"};
        v->push_back((uint8_t)(a * 16 + b));
    }
    return v;
}

typedef std::string (*dispatch_fn)(const std::string& t, const std::string& op, const std::string& arg);

}  // namespace hx
'''

MAIN_CC = r'''// line protocol:  <desc> <type> <op> <arg>   ->   one JSON object per line
#include "hx.h"
#include <cxxabi.h>
#include <exception>
#include <iostream>
#include <typeinfo>

%(externs)s

static hx::dispatch_fn table[] = { %(table)s };
static const size_t table_len = %(count)d;

static std::string demangle(const char* n) {
    int st = 0;
    char* d = abi::__cxa_demangle(n, nullptr, nullptr, &st);
    std::string r = (st == 0 && d) ? d : n;
    free(d);
    return r;
}

int main() {
    std::ios::sync_with_stdio(false);
    std::string line;
    while (std::getline(std::cin, line)) {
        std::string f[4];
        size_t pos = 0;
        for (int k = 0; k < 3; k++) {
            size_t sp = line.find(' ', pos);
            if (sp == std::string::npos) { f[k] = line.substr(pos); pos = line.size(); }
            else { f[k] = line.substr(pos, sp - pos); pos = sp + 1; }
        }
        f[3] = pos <= line.size() ? line.substr(pos) : "";
        std::string out;
        try {
            if (f[0] == "ping") out = "{\"r\":\"pong\"}";
            else {
                char* end = nullptr;
                unsigned long d = strtoul(f[0].c_str(), &end, 10);
                if (f[0].empty() || *end || d >= table_len || !table[d]) out = "{\"r\":\"baddesc\"}";
                else out = table[d](f[1], f[2], f[3]);
            }
        } catch (const hx::BadValue& e) {
            out = "{\"r\":\"badvalue\",\"m\":"; hx::qs(out, e.m); out += "}";
        } catch (const std::exception& e) {
            out = "{\"r\":\"exception\",\"e\":"; hx::qs(out, demangle(typeid(e).name()));
            out += ",\"m\":"; hx::qs(out, e.what()); out += "}";
        } catch (...) {
            out = "{\"r\":\"exception\",\"e\":\"unknown\",\"m\":\"\"}";
        }
        out += '\n';
        fwrite(out.data(), 1, out.size(), stdout);
        fflush(stdout);
    }
    return 0;
}
'''


# ---------------------------------------------------------------------------
# glue generation

def cxx_uint(w):
    for n in (8, 16, 32, 64):
        if w <= n:
            return "uint%d_t" % n
    raise ValueError("width %d does not fit a C++ scalar" % w)


def upper_camel(s):
    """heck::ToUpperCamelCase (what cxx.rs uses for getter names)."""
    words = []
    for part in re.split(r"[^0-9A-Za-z]+", s):
        if not part:
            continue
        init, mode = 0, "b"
        n = len(part)
        for i, c in enumerate(part):
            if i + 1 < n:
                nx = part[i + 1]
                nmode = "l" if c.islower() else "u" if c.isupper() else mode
                if nmode == "l" and nx.isupper():
                    words.append(part[init:i + 1])
                    init, mode = i + 1, "b"
                elif mode == "u" and c.isupper() and nx.islower():
                    if init < i:
                        words.append(part[init:i])
                    init, mode = i, "b"
                else:
                    mode = nmode
            else:
                words.append(part[init:])
    return "".join(w[:1].upper() + w[1:].lower() for w in words)


class Unsupported(Exception):
    pass


class Glue:
    """Per-description C++ glue, generated from the analyzed AST."""

    def __init__(self, file_json, ns):
        self.file = file_json
        self.ns = ns
        self.T = GV.Types(file_json)
        self.decls = self.T.decls
        self.unsupported = {}     # type -> reason
        self.types = []           # supported packet/struct ids
        self.nvar = 0

    def var(self):
        self.nvar += 1
        return "x%d" % self.nvar

    # -- support check ---------------------------------------------------------
    def check(self, d, seen=()):
        if d["id"] in seen:
            raise Unsupported("recursive type")
        k = d["kind"]
        if k == "struct_declaration" and d.get("parent_id"):
            raise Unsupported("struct inheritance (cxx.rs ignores struct parents)")
        for x in self.T.parent_chain(d):
            for f in x["fields"]:
                fk = f["kind"]
                if fk in ("group_field", "checksum_field"):
                    raise Unsupported(fk)
                tid = f.get("type_id")
                if fk in ("typedef_field", "array_field") and tid:
                    td = self.decls.get(tid)
                    if td is None:
                        raise Unsupported("unknown type " + tid)
                    if td["kind"] in ("custom_field_declaration", "checksum_declaration"):
                        raise Unsupported(td["kind"] + " (needs user-provided C++ class)")
                    if td["kind"] in ("struct_declaration", "packet_declaration"):
                        self.check(td, tuple(seen) + (d["id"],))
                if fk in ("scalar_field", "array_field") and f.get("width") and f["width"] > 64:
                    raise Unsupported("width > 64")

    # -- JSON -> object ----------------------------------------------------------
    def conv_type(self, tid, j):
        td = self.decls[tid]
        if td["kind"] == "enum_declaration":
            return "%s(hx::num<%s>(%s))" % (tid, cxx_uint(td["width"]), j)
        return "hxg_mk_%s(%s)" % (tid, j)

    def conv_field(self, f, j):
        k = f["kind"]
        if k in ("payload_field", "body_field"):
            return "hx::bytes_of(%s)" % j
        if k == "scalar_field":
            ty = cxx_uint(f["width"])
            e = "hx::num<%s>(%%s)" % ty
        elif k == "typedef_field":
            ty = f["type_id"]
            e = self.conv_type(f["type_id"], "%s")
        elif k == "array_field":
            if f.get("width"):
                ety, ee = cxx_uint(f["width"]), "hx::num<%s>(x)" % cxx_uint(f["width"])
            else:
                ety, ee = f["type_id"], self.conv_type(f["type_id"], "x")
            lam = "[](const hx::J& x) { return %s; }" % ee
            if f.get("size") is not None:
                return "hx::arr_of<%s, %d>(%s, %s)" % (ety, f["size"], j, lam)
            return "hx::vec_of<%s>(%s, %s)" % (ety, j, lam)
        else:
            raise Unsupported("field kind " + k)
        if f.get("cond"):
            return "hx::opt_of<%s>(%s, [](const hx::J& x) { return %s; })" % (ty, j, e % "x")
        return e % j

    def ctor_fields(self, d):
        """Constructor parameters of `<T>Builder` / struct `<T>`, in cxx.rs order."""
        want = ("payload_field", "body_field", "array_field", "scalar_field", "typedef_field")
        if d["kind"] == "struct_declaration":
            return [f for f in d["fields"] if f["kind"] in want]
        cs = self.T.all_constraints(d)
        chain = self.T.parent_chain(d)
        out = []
        for x in reversed(chain[1:]):
            out += [f for f in x["fields"] if f["kind"] not in ("payload_field", "body_field")]
        out += d["fields"]
        return [f for f in out if f["kind"] in want and f.get("id") not in cs]

    def cls(self, d):
        return d["id"] + "Builder" if d["kind"] == "packet_declaration" else d["id"]

    def gen_mk(self, d):
        args = []
        for f in self.ctor_fields(d):
            key = "payload" if f["kind"] in ("payload_field", "body_field") else f["id"]
            args.append(self.conv_field(f, 'hx::field(v, "%s")' % key))
        body = "%s(%s)" % (self.cls(d), (",\n        ".join(args)))
        return ("static %s hxg_mk_%s(const hx::J& v) {\n    hx::need_obj(v);\n    return %s;\n}\n"
                % (self.cls(d), d["id"], body))

    # -- object -> JSON ----------------------------------------------------------
    def emit_type(self, tid, expr):
        td = self.decls[tid]
        if td["kind"] == "enum_declaration":
            return "hx::wn(o, static_cast<uint64_t>(%s));" % expr
        return "hxg_js_%s(o, %s);" % (tid, expr)

    def emit_plain(self, f, expr):
        k = f["kind"]
        if k == "scalar_field":
            return "hx::wn(o, static_cast<uint64_t>(%s));" % expr
        if k == "typedef_field":
            return self.emit_type(f["type_id"], expr)
        raise Unsupported("field kind " + k)

    def emit_field(self, f, expr):
        k = f["kind"]
        if k in ("payload_field", "body_field"):
            return "hx::wbytes(o, %s);" % expr
        if k == "array_field":
            v = self.var()
            el = ("hx::wn(o, static_cast<uint64_t>(e));" if f.get("width")
                  else self.emit_type(f["type_id"], "e"))
            return ('{ auto const& %s = %s; o += "["; bool first = true; for (auto const& e : %s) '
                    '{ if (!first) o += ","; first = false; %s } o += "]"; }' % (v, expr, v, el))
        if f.get("cond"):
            v = self.var()
            return ('{ auto const& %s = %s; if (%s.has_value()) { %s } else o += "null"; }'
                    % (v, expr, v, self.emit_plain(f, "(*%s)" % v)))
        return self.emit_plain(f, expr)

    def gen_obj(self, d, access, fields_only=False):
        """Statements appending the JSON object of `d` (value shape of gen_value) to `o`."""
        out = ['o += "{";']
        first = True
        for owner, f in self.T.data_fields(d):
            out.append('o += "%s\\"%s\\":";' % ("" if first else ",", f["id"]))
            out.append(self.emit_field(f, access(f)))
            first = False
        if self.T.has_payload(d):
            pf = [f for f in d["fields"] if f["kind"] in ("payload_field", "body_field")][0]
            out.append('o += "%s\\"payload\\":";' % ("" if first else ","))
            out.append(self.emit_field(pf, access(pf)))
        out.append('o += "}";')
        return out

    def gen_js_struct(self, d):
        def access(f):
            return "s.payload_" if f["kind"] in ("payload_field", "body_field") else "s.%s_" % f["id"]
        body = "\n    ".join(self.gen_obj(d, access))
        return "static void hxg_js_%s(std::string& o, const %s& s) {\n    (void)s;\n    %s\n}\n" % (d["id"], d["id"], body)

    def gen_js_view(self, d):
        def access(f):
            if f["kind"] in ("payload_field", "body_field"):
                return "v.GetPayload()"
            return "v.Get%s()" % upper_camel(f["id"])
        body = self.gen_obj(d, access)
        # constrained fields also have getters: call them too, report them under "fixed"
        cs = self.T.all_constraints(d)
        fixed = ['o += ",\\"fixed\\":{";']
        first = True
        for x in self.T.parent_chain(d):
            for f in x["fields"]:
                if f.get("id") in cs and f["kind"] in ("scalar_field", "typedef_field"):
                    if f["kind"] == "typedef_field" and self.decls[f["type_id"]]["kind"] != "enum_declaration":
                        continue
                    fixed.append('o += "%s\\"%s\\":";' % ("" if first else ",", f["id"]))
                    fixed.append("hx::wn(o, static_cast<uint64_t>(v.Get%s()));" % upper_camel(f["id"]))
                    first = False
        fixed.append('o += "}";')
        return ("static void hxg_jv_%s(std::string& o, const %sView& v) {\n    (void)v;\n    %s\n}\n"
                "static void hxg_jf_%s(std::string& o, const %sView& v) {\n    (void)v;\n    %s\n}\n"
                % (d["id"], d["id"], "\n    ".join(body), d["id"], d["id"], "\n    ".join(fixed)))

    # -- per-type operations -----------------------------------------------------
    def gen_ops(self, d):
        name = d["id"]
        L = ["static std::string hxg_ops_%s(const std::string& op, const std::string& arg) {" % name]
        L.append('    if (op == "dec") {')
        L.append("        pdl::packet::slice s0(hx::unhex(arg));")
        if d["kind"] == "packet_declaration":
            chain = list(reversed(self.T.parent_chain(d)))   # root first
            prev = "s0"
            for n, x in enumerate(chain):
                L.append("        %sView v%d = %sView::Create(%s);" % (x["id"], n, x["id"], prev))
                prev = "v%d" % n
            last = len(chain) - 1
            L.append("        if (!v%d.IsValid()) {" % last)
            L.append('            std::string o = "{\\"r\\":\\"err\\",\\"e\\":\\"invalid\\",\\"at\\":\\"";')
            cond = " ".join('if (!v%d.IsValid()) o += "%s"; else' % (n, x["id"]) for n, x in enumerate(chain))
            L.append('            %s o += "?";' % cond)
            L.append('            o += "\\"}";')
            L.append("            return o;")
            L.append("        }")
            L.append('        std::string o = "{\\"r\\":\\"ok\\",\\"type\\":\\"%s\\",\\"value\\":";' % name)
            L.append("        hxg_jv_%s(o, v%d);" % (name, last))
            L.append("        hxg_jf_%s(o, v%d);" % (name, last))
            L.append('        o += ",\\"rest\\":0}";')
            L.append("        return o;")
        else:
            L.append("        %s out;" % name)
            L.append("        if (!%s::Parse(s0, &out)) return \"{\\\"r\\\":\\\"err\\\",\\\"e\\\":\\\"invalid\\\",\\\"at\\\":\\\"%s\\\"}\";" % (name, name))
            L.append('        std::string o = "{\\"r\\":\\"ok\\",\\"type\\":\\"%s\\",\\"value\\":";' % name)
            L.append("        hxg_js_%s(o, out);" % name)
            L.append('        o += ",\\"rest\\":"; hx::wn(o, s0.size()); o += "}";')
            L.append("        return o;")
        L.append("    }")
        L.append('    if (op == "enc" || op == "size") {')
        L.append("        hx::J j = hx::parse(arg);")
        L.append("        %s b = hxg_mk_%s(j);" % (self.cls(d), name))
        L.append('        if (op == "size") { std::string o = "{\\"r\\":\\"ok\\",\\"len\\":"; hx::wn(o, b.GetSize()); o += "}"; return o; }')
        L.append("        std::vector<uint8_t> bytes = b.SerializeToBytes();")
        L.append('        std::string o = "{\\"r\\":\\"ok\\",\\"hex\\":\\""; hx::whex(o, bytes);')
        L.append('        o += "\\",\\"len\\":"; hx::wn(o, b.GetSize()); o += "}";')
        L.append("        return o;")
        L.append("    }")
        L.append('    return "{\\"r\\":\\"badop\\"}";')
        L.append("}")
        return "\n".join(L) + "\n"

    def generate(self):
        """Returns the glue text (to be placed after the generated header, inside the
        anonymous namespace) and fills self.types / self.unsupported."""
        protos, defs = [], []
        for d in self.file["declarations"]:
            if d["kind"] not in ("packet_declaration", "struct_declaration"):
                continue
            try:
                self.check(d)
                parts = [self.gen_mk(d)]
                if d["kind"] == "struct_declaration":
                    parts.append(self.gen_js_struct(d))
                else:
                    parts.append(self.gen_js_view(d))
                parts.append(self.gen_ops(d))
            except (Unsupported, ValueError, KeyError) as e:
                self.unsupported[d["id"]] = "%s: %s" % (type(e).__name__, e)
                continue
            self.types.append(d["id"])
            protos.append("static %s hxg_mk_%s(const hx::J& v);" % (self.cls(d), d["id"]))
            if d["kind"] == "struct_declaration":
                protos.append("static void hxg_js_%s(std::string& o, const %s& s);" % (d["id"], d["id"]))
            defs += parts
        # a struct used by a supported type must itself be supported (check() guarantees it)
        body = "\n".join(protos) + "\n\n" + "\n".join(defs)
        if self.ns:
            body = "namespace %s {\n%s\n}  // namespace %s\n" % (self.ns, body, self.ns)
        return body

    def dispatch(self, sym):
        q = (self.ns + "::") if self.ns else ""
        arms = "".join('    if (t == "%s") return %shxg_ops_%s(op, arg);\n' % (t, q, t) for t in self.types)
        return ("std::string %s(const std::string& t, const std::string& op, const std::string& arg) {\n"
                "    (void)op; (void)arg;\n%s    return \"{\\\"r\\\":\\\"badtype\\\"}\";\n}\n" % (sym, arms))


def detect_namespace(cxx_text, default=None):
    m = re.search(r"^namespace\s+([A-Za-z_][A-Za-z0-9_:]*)\s*\{", cxx_text, re.M)
    return m.group(1) if m else default


def generate(drv, text, i=0, exclude=()):
    """Ask the driver for the C++ of one description.  Returns (code or None, reply)."""
    req = {"op": "gen", "backend": "cxx", "text": text, "namespace": "d%d" % i}
    if exclude:
        req["exclude"] = list(exclude)
    r = drv.ask(req)
    if r is None:
        return None, {"status": "dead", "message": drv.last_death}
    if r.get("status") != "ok":
        return None, r
    return r["text"], r


def write_if_changed(path, content):
    if os.path.exists(path):
        with open(path) as f:
            if f.read() == content:
                return False
    tmp = path + ".tmp%d" % os.getpid()
    with open(tmp, "w") as f:
        f.write(content)
    os.replace(tmp, path)
    return True


class _Proc(C.LineProc):
    """LineProc that keeps the whole stderr of a dead child."""

    def _dead(self, why):
        err = b""
        rc = None
        try:
            rc = self.p.wait(timeout=10)
            err = self.p.stderr.read() or b""
        except Exception:
            pass
        self.kill()
        self.last_rc = rc
        self.last_stderr = err.decode(errors="replace")
        self.last_death = "%s rc=%s %s" % (why, rc, self.last_stderr[:300].strip())
        self.deaths += 1
        return None


def classify_death(rc, err):
    """kind of a dead harness process, from its exit status and stderr."""
    if "AddressSanitizer" in err:
        if "allocation-size-too-big" in err or "out-of-memory" in err or "requested allocation size" in err:
            return "alloc"
        if "stack-overflow" in err:
            return "stack-overflow"
        return "asan"
    if "runtime error:" in err:
        return "ubsan"
    if "Assertion" in err and "failed" in err:
        return "assert"
    if "terminate called" in err:
        return "terminate"
    if rc is not None and rc < 0:
        return "signal%d" % (-rc)
    return None


class CxxHarness:
    """descs: list of dict(text=<pdl>, analyzed=<file json>, cxx=<text emitted by pdlc>)."""

    def __init__(self, name, descs, ndebug=False, jobs=None):
        self.name, self.descs, self.ndebug = name, descs, ndebug
        self.dir = os.path.join(ROOT, name)
        self.flavour = "ndebug" if ndebug else "debug"
        self.bin = os.path.join(self.dir, "harness-" + self.flavour)
        self.flags = BASE_FLAGS + (["-DNDEBUG"] if ndebug else []) + ["-I", RUNTIME_INC, "-I", ROOT]
        self.jobs = jobs or min(16, os.cpu_count() or 4)
        self.proc = None
        self.build_log = ""
        self.failed = []
        self.fail_where = {}       # index -> "header" | "glue"
        self.fail_log = {}         # index -> compiler output
        self.unsupported = {}      # (index, type) -> reason
        self.stubbed = set()
        self.tus = []
        self.timings = {}

    # -- assembling ---------------------------------------------------------------
    def prepare(self):
        os.makedirs(self.dir, exist_ok=True)
        os.makedirs(TU_DIR, exist_ok=True)
        write_if_changed(os.path.join(ROOT, "hx.h"), HX_H)
        self.tus = []
        self.unsupported = {}
        for i, d in enumerate(self.descs):
            code = d.get("cxx")
            if code is None:
                self.tus.append(None)
                continue
            ns = detect_namespace(code)
            g = Glue(d["analyzed"], ns)
            glue = g.generate()
            for t, why in g.unsupported.items():
                self.unsupported[(i, t)] = why
            # the key covers everything a translation unit is compiled from, the repository's runtime header included
            key = hashlib.sha1(("\0".join([GLUE_VERSION, HX_H, runtime_header(), code, glue])).encode()).hexdigest()[:20]
            sym = "hx_dispatch_" + key
            tu = ("// translation unit of one description (generated)\n#include \"hx.h\"\n"
                  "namespace {\n#include \"gen.h\"\n\n// ---- glue ----\n%s}  // anonymous namespace\n\n%s"
                  % (glue, g.dispatch(sym)))
            tdir = os.path.join(TU_DIR, key)
            os.makedirs(tdir, exist_ok=True)
            write_if_changed(os.path.join(tdir, "gen.h"), code)
            write_if_changed(os.path.join(tdir, "glue.cc"), tu)
            self.tus.append({"key": key, "sym": sym, "dir": tdir, "types": g.types,
                             "obj": os.path.join(tdir, "glue.%s.o" % self.flavour),
                             "err": os.path.join(tdir, "glue.%s.err" % self.flavour)})
        with open(os.path.join(self.dir, "index.json"), "w") as f:
            json.dump({str(i): (t["key"] if t else None) for i, t in enumerate(self.tus)}, f, indent=1)

    def compile_tu(self, tu):
        if os.path.exists(tu["obj"]):
            return True, ""
        if os.path.exists(tu["err"]):
            return False, open(tu["err"]).read()
        tmp = tu["obj"] + ".tmp%d" % os.getpid()
        cmd = [CXX] + self.flags + ["-I", tu["dir"], "-c", os.path.join(tu["dir"], "glue.cc"), "-o", tmp]
        try:
            rc, out = C.run(cmd, timeout=900)
        except subprocess.TimeoutExpired:
            rc, out = 1, "compiler timeout"
        if rc == 0:
            os.replace(tmp, tu["obj"])
            return True, out
        try:
            os.remove(tmp)
        except OSError:
            pass
        if " error" in out:      # cache genuine compile errors only (not timeouts / killed compilers)
            with open(tu["err"], "w") as f:
                f.write(out)
        return False, out

    def build(self, keep_going=False):
        """Compile every description, link.  Returns False (with build_log, failed) when the
        code of some description does not compile.  With keep_going=True the failing
        descriptions are replaced by stubs (ask -> {"r":"nocompile"}) and the rest is linked."""
        t0 = time.time()
        with C.Lock("cxxgen-" + self.name):
            self.prepare()
            self.failed, self.fail_where, self.fail_log, self.stubbed = [], {}, {}, set()
            logs = []
            uniq = {}
            for i, tu in enumerate(self.tus):
                if tu is not None:
                    uniq.setdefault(tu["key"], tu)
            with ThreadPoolExecutor(max_workers=self.jobs) as ex:
                res = dict(zip(uniq.keys(), ex.map(self.compile_tu, uniq.values())))
            self.timings["compile_s"] = round(time.time() - t0, 2)
            for i, tu in enumerate(self.tus):
                if tu is None:
                    self.failed.append(i)
                    self.fail_where[i] = "nocode"
                    self.fail_log[i] = "no C++ code for this description"
                    logs.append("== description %d: no C++ code ==" % i)
                    continue
                ok, out = res[tu["key"]]
                if ok:
                    continue
                out = out.replace(tu["dir"] + "/gen.h", "d%d.h" % i).replace(tu["dir"] + "/glue.cc", "d%d.glue.cc" % i)
                self.failed.append(i)
                first_err = [l for l in out.splitlines() if " error" in l][:1]
                self.fail_where[i] = "header" if (first_err and ("d%d.h" % i) in first_err[0]) else "glue"
                self.fail_log[i] = out
                logs.append("== description %d does not compile (%s) ==\n%s" % (i, self.fail_where[i], out[:6000]))
            self.build_log = "\n".join(logs)
            if self.failed and not keep_going:
                return False
            self.stubbed = set(self.failed)
            externs, table = [], []
            objs = []
            for i, tu in enumerate(self.tus):
                if i in self.stubbed:
                    table.append("nullptr")
                    continue
                ext = "std::string %s(const std::string&, const std::string&, const std::string&);" % tu["sym"]
                if ext not in externs:
                    externs.append(ext)
                    objs.append(tu["obj"])
                table.append(tu["sym"])
            main_cc = MAIN_CC % {"externs": "\n".join(externs), "table": ", ".join(table) or "nullptr",
                                 "count": len(table)}
            main_path = os.path.join(self.dir, "main.cc")
            changed = write_if_changed(main_path, main_cc)
            stamp = os.path.join(self.dir, "link-%s.json" % self.flavour)
            want = json.dumps({"objs": objs, "main": hashlib.sha1(main_cc.encode()).hexdigest(), "hx": hashlib.sha1(HX_H.encode()).hexdigest()})
            if not (os.path.exists(self.bin) and os.path.exists(stamp) and open(stamp).read() == want and not changed):
                t1 = time.time()
                rsp = os.path.join(self.dir, "objs-%s.rsp" % self.flavour)
                with open(rsp, "w") as f:
                    f.write("\n".join(objs) + "\n")
                cmd = [CXX] + self.flags + [main_path, "@" + rsp, "-o", self.bin]
                rc, out = C.run(cmd, timeout=1800)
                self.timings["link_s"] = round(time.time() - t1, 2)
                if rc != 0:
                    self.build_log += "\n== link failed ==\n" + out[-6000:]
                    return False
                with open(stamp, "w") as f:
                    f.write(want)
            self.timings["build_s"] = round(time.time() - t0, 2)
        if self.proc:
            self.proc.kill()
            self.proc = None
        return True

    # -- running ------------------------------------------------------------------
    def start(self, timeout=10.0):
        self.proc = _Proc([self.bin], env=RUN_ENV, timeout=timeout)
        return self.proc

    def types(self, i):
        """Names of the packet/struct types of description i the glue supports."""
        tu = self.tus[i] if i < len(self.tus) else None
        return list(tu["types"]) if tu else []

    def ask(self, d, t, op, arg, timeout=None):
        """Returns a dict; never raises."""
        try:
            di = int(d)
        except Exception:
            return {"r": "baddesc"}
        if di in self.stubbed:
            return {"r": "nocompile", "m": self.fail_where.get(di, "")}
        if (di, t) in self.unsupported:
            return {"r": "unsupported", "m": self.unsupported[(di, t)]}
        if not os.path.exists(self.bin):
            return {"r": "abort", "m": "harness not built"}
        if self.proc is None:
            self.start()
        if not isinstance(arg, str):
            arg = json.dumps(arg, separators=(",", ":"))
        try:
            raw = self.proc.ask_raw("%s %s %s %s" % (di, t, op, arg), timeout)
        except Exception as e:   # e.g. OSError while spawning
            self.proc.kill()
            return {"r": "abort", "m": "%s: %s" % (type(e).__name__, e)}
        if raw is None:
            why = self.proc.last_death or ""
            if str(why).startswith("timeout"):
                return {"r": "timeout"}
            err = getattr(self.proc, "last_stderr", "") or ""
            rc = getattr(self.proc, "last_rc", None)
            kind = classify_death(rc, err)
            if kind:
                lines = [l for l in err.splitlines() if l.strip() and not l.startswith("=====")]
                return {"r": "ub", "kind": kind, "m": "\n".join(lines[:6])[:1200], "rc": rc}
            return {"r": "abort", "m": why}
        try:
            return json.loads(raw)
        except Exception:
            return {"r": "garbled", "raw": raw[:300]}

    def close(self):
        if self.proc:
            self.proc.kill()
            self.proc = None


# ---------------------------------------------------------------------------
# self-test

def decl_text(desc, type_id):
    """PDL text of a declaration and of its ancestors / referenced types (for reports)."""
    T = GV.Types(desc["analyzed"])
    src = desc["text"]
    out, seen = [], set()

    def add(tid):
        if tid in seen or tid not in T.decls:
            return
        seen.add(tid)
        d = T.decls[tid]
        if d.get("parent_id"):
            add(d["parent_id"])
        for f in d.get("fields", []):
            if f.get("type_id"):
                add(f["type_id"])
        for c in d.get("constraints", []):
            pass
        lo, hi = d["loc"]["start"]["offset"], d["loc"]["end"]["offset"]
        out.append(src[lo:hi].strip())
    add(type_id)
    return src.split("\n", 1)[0] + "\n" + "\n".join(out)


def selftest(argv):
    import argparse
    import random
    if __package__ in (None, ""):
        from vlib import gen_descr as GD
    else:
        from . import gen_descr as GD
    ap = argparse.ArgumentParser()
    ap.add_argument("--selftest", action="store_true")
    ap.add_argument("--seed", type=int, default=20260923)
    ap.add_argument("--n", type=int, default=15)
    ap.add_argument("--values", type=int, default=5)
    ap.add_argument("--ndebug", action="store_true")
    ap.add_argument("--show", type=int, default=4)
    ap.add_argument("--name", default="selftest")
    ap.add_argument("--opt", action="append", default=[], help="override a gen_descr.Opts flag, e.g. --opt optional=1")
    ap.add_argument("--no-model", action="store_true", help="do not consult the Lean reference model")
    ap.add_argument("--mutants", type=int, default=12, help="malformed inputs decoded per type (0: none)")
    ap.add_argument("--show-pdl", action="store_true", help="print the smallest description for every compile error")
    ap.add_argument("--json", default=None, help="dump every non-ok case to this file")
    ap.add_argument("--enum-first-value", action="store_true",
                    help="work around finding F1: reorder generated enums so that a value tag comes first")
    a = ap.parse_args(argv)
    rng = random.Random(a.seed)
    opts = GD.Opts.for_backend("cxx")
    if a.enum_first_value:
        orig = GD.GE.gen_enum

        def patched(rng_, name, shape=None):
            spec = orig(rng_, name, shape)
            vals = [k for k, t in enumerate(spec.tags) if t["kind"] == "value"]
            if vals and vals[0] != 0:
                spec.tags.insert(0, spec.tags.pop(vals[0]))
            elif not vals:
                k = [k for k, t in enumerate(spec.tags) if t["kind"] == "range"][0]
                t = spec.tags[k]
                lo = t["lo"]
                if lo + 1 == t["hi"]:
                    spec.tags[k] = {"kind": "value", "id": t["id"], "value": t["hi"], "lit": str(t["hi"])}
                else:
                    t["lo"], t["lo_lit"] = lo + 1, str(lo + 1)
                    t["tags"] = [n for n in t["tags"] if n["value"] != lo]
                spec.tags.insert(0, {"kind": "value", "id": "A0", "value": lo, "lit": str(lo)})
            return spec
        GD.GE.gen_enum = patched
    for kv in a.opt:
        k, _, v = kv.partition("=")
        setattr(opts, k, int(v) if v.lstrip("-").isdigit() else v)
    if not os.path.exists(C.DRIVER_BIN):
        ok, out = C.build_driver()
        if not ok:
            print("cannot build the driver:\n" + out[-2000:])
            return 2
    drv = C.driver()
    texts = [t for t, _ in GD.stratified(rng, opts)]
    texts += [GD.generate(rng, opts)[0] for _ in range(a.n)]
    descs, gen_fail = [], []
    for text in texts:
        r = drv.ask({"op": "analyze", "text": text})
        if r is None or r.get("status") != "ok":
            print("analyzer rejected a generated description: %s" % ((r or {}).get("status"),))
            continue
        code, rep = generate(drv, text, len(descs))
        if code is None:
            gen_fail.append({"pdl": text, "status": rep.get("status"), "message": str(rep.get("message"))[:300]})
            continue
        descs.append({"text": text, "analyzed": r["file"], "cxx": code})
    drv.kill()
    print("descriptions: %d generated, %d made the cxx generator fail" % (len(descs), len(gen_fail)))
    for g in gen_fail[:a.show]:
        print("--- generator failure: %s %s\n%s" % (g["status"], g["message"], g["pdl"]))
    t0 = time.time()
    h = CxxHarness(a.name, descs, ndebug=a.ndebug)
    ok = h.build(keep_going=True)
    print("build: ok=%s %.1fs (compile %.1fs) ; %d descriptions do not compile: %s"
          % (ok, time.time() - t0, h.timings.get("compile_s", 0), len(h.failed), h.failed))
    sigs = {}
    for i in h.failed:
        for l in h.fail_log[i].splitlines():
            if " error" not in l or "enable_if" in l:
                continue
            sig = re.sub(r"^\S+?:\d+:\d+: ", "", l.strip())
            sig = re.sub(r"[A-Za-z_]*\d+[A-Za-z_0-9]*", "N", sig)
            e = sigs.setdefault(sig, {"descs": [], "example": l.strip()})
            if i not in e["descs"]:
                e["descs"].append(i)
    for sig, e in sorted(sigs.items(), key=lambda kv: -len(kv[1]["descs"])):
        print("--- compile error in %d descriptions %s: %s" % (len(e["descs"]), e["descs"][:8], e["example"][:300]))
        if a.show_pdl:
            j = min(e["descs"], key=lambda i: len(descs[i]["text"]))
            print("    smallest such description (%d):\n      %s" % (j, descs[j]["text"][:1500].replace("\n", "\n      ")))
    if not ok:
        print(h.build_log[-3000:])
        return 2
    # optional reference: the Lean model in `ideal` mode tells which generated values are
    # encodable at all (size/count fields can overflow) and what their encoding should be
    mdl = None
    if not a.no_model and os.path.exists(C.PDLV_BIN):
        mdl = C.pdlv(timeout=120)
    cnt = {"ok": 0, "enc_err": 0, "enc_exception": 0, "enc_ub": 0, "dec_err": 0, "dec_exception": 0, "dec_ub": 0,
           "mismatch": 0, "len_mismatch": 0, "badvalue": 0, "unsupported": 0, "other": 0}
    ref = {"unencodable_value_skipped": 0, "enc_differs_from_model": 0, "enc_same_as_model": 0,
           "not_roundtrippable_same_as_model": 0}
    mut = {}
    shown = {}
    samples = []
    dump = []

    def note(kind, i, t, detail, **kw):
        shown[kind] = shown.get(kind, 0) + 1
        if shown[kind] <= a.show:
            samples.append("--- %s: description %d type %s\n%s\n%s" % (kind, i, t, decl_text(descs[i], t), detail))
        if a.json:
            dump.append(dict(kind=kind, i=i, t=t, pdl=decl_text(descs[i], t), **kw))

    nreq = 0
    t_h = 0.0
    for i, d in enumerate(descs):
        if i in h.stubbed:
            continue
        T = GV.Types(d["analyzed"])
        loaded = False
        if mdl is not None:
            r = mdl.ask({"op": "load", "file": d["analyzed"]})
            loaded = bool(r) and r.get("status") == "ok"
        for x in d["analyzed"]["declarations"]:
            if x["kind"] not in ("packet_declaration", "struct_declaration"):
                continue
            t = x["id"]
            vals = [GV.gen_value(T, t, rng)[0] for _ in range(a.values)]
            # structs only have a prefix parser (Parse); packets are parsed in full
            kdec = "dec" if x["kind"] == "struct_declaration" else "decfull"
            first_hex = None
            mo = None
            if loaded:
                r = mdl.ask({"op": "wire", "type": t, "mode": "ideal", "cases": [{"k": "enc", "v": v} for v in vals]})
                if r and r.get("status") == "ok":
                    mo = r["out"]
                elif r is None:
                    loaded = False
            for vi, v in enumerate(vals):
                js = json.dumps(v, separators=(",", ":"))
                m = mo[vi] if mo else None
                t1 = time.time()
                e = h.ask(i, t, "enc", js)
                t_h += time.time() - t1
                nreq += 1
                if e.get("r") == "unsupported":
                    cnt["unsupported"] += 1
                    break
                if m is not None and m.get("r") != "ok":
                    # the value itself is not encodable (e.g. an array larger than its size field allows)
                    ref["unencodable_value_skipped"] += 1
                    if e.get("r") == "ok":
                        note("unencodable_value_encoded", i, t, "value %s\nmodel -> %s\ncxx   -> %s" % (js, json.dumps(m), json.dumps(e)), v=v, e=e, m=m)
                    continue
                if e.get("r") != "ok":
                    k = {"err": "enc_err", "exception": "enc_exception", "ub": "enc_ub", "badvalue": "badvalue"}.get(e.get("r"), "other")
                    cnt[k] += 1
                    note(k, i, t, "value %s\n-> %s" % (js, json.dumps(e)[:600]), v=v, e=e)
                    continue
                if m is not None:
                    if m.get("hex") == e["hex"]:
                        ref["enc_same_as_model"] += 1
                    else:
                        ref["enc_differs_from_model"] += 1
                        note("enc_differs_from_model", i, t, "value %s\ncxx   %s\nmodel %s" % (js, e["hex"], m.get("hex")), v=v, e=e, m=m)
                if e.get("len") is not None and e["len"] * 2 != len(e["hex"]):
                    cnt["len_mismatch"] += 1
                    note("len_mismatch", i, t, "value %s\n-> GetSize()=%s but %d bytes serialized: %s" % (js, e["len"], len(e["hex"]) // 2, e["hex"]), v=v, e=e)
                t1 = time.time()
                r = h.ask(i, t, "dec", e["hex"])
                t_h += time.time() - t1
                nreq += 1
                good = (r.get("r") == "ok" and r.get("rest") == 0
                        and json.dumps(r.get("value"), sort_keys=True) == json.dumps(v, sort_keys=True))
                if good and first_hex is None:
                    first_hex = e["hex"]
                if not good and r.get("r") in ("ok", "err") and loaded and m is not None and m.get("hex") == e["hex"]:
                    # the encoding is the right one: is the description itself not round-trippable?
                    q = mdl.ask({"op": "wire", "type": t, "mode": "ideal", "cases": [{"k": kdec, "hex": e["hex"]}]})
                    md = q["out"][0] if q and q.get("status") == "ok" else None
                    if md and ((md.get("r") == "err" and r["r"] == "err") or
                               (md.get("r") == "ok" and r["r"] == "ok" and
                                json.dumps(md.get("value"), sort_keys=True) == json.dumps(r.get("value"), sort_keys=True))):
                        ref["not_roundtrippable_same_as_model"] += 1
                        continue
                if r.get("r") != "ok":
                    k = {"err": "dec_err", "exception": "dec_exception", "ub": "dec_ub"}.get(r.get("r"), "other")
                    cnt[k] += 1
                    note(k, i, t, "value %s\nenc   %s\n-> %s" % (js, e["hex"], json.dumps(r)[:900]), v=v, e=e, r=r, m=m)
                    continue
                if not good:
                    cnt["mismatch"] += 1
                    note("mismatch", i, t, "value   %s\nenc     %s\ndecoded %s rest=%s" % (json.dumps(v, sort_keys=True), e["hex"], json.dumps(r.get("value"), sort_keys=True), r.get("rest")), v=v, e=e, r=r, m=m)
                    continue
                cnt["ok"] += 1
            # robustness: decode mutants of one good encoding (prefixes, bit flips, extensions, random)
            if first_hex is not None and a.mutants > 0:
                muts = GV.mutants(rng, bytes.fromhex(first_hex), n_random=3)
                rng.shuffle(muts)
                for fam, b in muts[:a.mutants]:
                    t1 = time.time()
                    r = h.ask(i, t, "dec", b.hex())
                    t_h += time.time() - t1
                    nreq += 1
                    k = r.get("r", "other")
                    mut[k] = mut.get(k, 0) + 1
                    if k not in ("ok", "err"):
                        note("mutant_" + k, i, t, "input (%s of %s) %s\n-> %s" % (fam, first_hex, b.hex(), json.dumps(r)[:1500]), hex=b.hex(), r=r)
                    elif k == "ok" and loaded:
                        q = mdl.ask({"op": "wire", "type": t, "mode": "ideal", "cases": [{"k": kdec, "hex": b.hex()}]})
                        md = q["out"][0] if q and q.get("status") == "ok" else None
                        if md is not None:
                            same = (md.get("r") == "ok" and json.dumps(md.get("value"), sort_keys=True) == json.dumps(r.get("value"), sort_keys=True)
                                    and md.get("rest", 0) == r.get("rest"))
                            mut["ok_same_as_model" if same else "ok_differs_from_model"] = mut.get("ok_same_as_model" if same else "ok_differs_from_model", 0) + 1
                            if not same:
                                note("mutant_ok_differs_from_model", i, t, "input (%s of %s) %s\ncxx   %s\nmodel %s" % (fam, first_hex, b.hex(), json.dumps(r, sort_keys=True)[:700], json.dumps(md, sort_keys=True)[:700]), hex=b.hex(), r=r, m=md)
                    elif k == "err" and loaded:
                        q = mdl.ask({"op": "wire", "type": t, "mode": "ideal", "cases": [{"k": kdec, "hex": b.hex()}]})
                        md = q["out"][0] if q and q.get("status") == "ok" else None
                        if md is not None and md.get("r") == "ok":
                            mut["err_but_model_ok"] = mut.get("err_but_model_ok", 0) + 1
                            note("mutant_err_but_model_ok", i, t, "input (%s of %s) %s\ncxx   %s\nmodel %s" % (fam, first_hex, b.hex(), json.dumps(r, sort_keys=True)[:300], json.dumps(md, sort_keys=True)[:700]), hex=b.hex(), r=r, m=md)
    deaths = h.proc.deaths if h.proc else 0
    h.close()
    if mdl is not None:
        mdl.kill()
    print("requests: %d in %.2fs inside ask() (%.0f/s), process deaths: %d" % (nreq, t_h, nreq / max(t_h, 1e-9), deaths))
    print("round trips: " + " ".join("%s=%d" % kv for kv in cnt.items()))
    if mdl is not None:
        print("reference model: " + " ".join("%s=%d" % kv for kv in ref.items()))
    if a.mutants > 0:
        print("mutant decodes: " + " ".join("%s=%d" % kv for kv in sorted(mut.items())))
    for s in samples:
        print(s)
    if a.json:
        with open(a.json, "w") as f:
            json.dump({"descs": [x["text"] for x in descs], "gen_fail": gen_fail,
                       "not_compiling": {str(i): h.fail_log[i][:4000] for i in h.failed}, "cases": dump}, f)
    return 0


if __name__ == "__main__":
    sys.exit(selftest(sys.argv[1:]))
