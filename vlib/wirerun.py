"""Shared corpus + harness + model plumbing for the wire-format properties
(C01–C06, C17, C18): generate descriptions, have the pdlc built from /repo emit Rust,
build the harness, load the same analyzed files into the Lean model, run cases on both."""
import hashlib
import json
import random

from . import common as C
from . import gen_descr as GD
from . import gen_value as GV
from . import rustgen


def canon(v):
    return json.dumps(v, sort_keys=True, separators=(",", ":"))


class Corpus:
    def __init__(self, run, tier, seed, n_desc, opts=None, tag="wire", profile="dev", extra_texts=()):
        self.run, self.tier, self.seed = run, tier, seed
        self.rng = random.Random(seed)
        self.opts = opts or GD.Opts()
        self.descs = []
        self.drv = C.driver()
        self.mdl = C.pdlv(timeout=120)
        self.loaded = None
        self.tag = tag
        self.profile = profile
        self.n_desc = n_desc
        self.extra_texts = list(extra_texts)
        self.harness = None
        self.stratify = True
        self.interactions = True      # targeted construct interactions (GD.interactions), own PRNG stream
        self.backend_failures = []
        self.report_backend_failures = False

    def add_text(self, text, gen=None, origin="generated"):
        r = self.drv.ask({"op": "analyze", "text": text})
        if r is None or r.get("status") != "ok":
            status = (r or {}).get("status", "dead")
            if status in ("panic", "dead") or r is None:
                self.run.violation("impl", "analyzer crashed on a generated description: %s" % (r or self.drv.last_death),
                                   {"pdl": text, "stage": "analyze", "signature": {"stage": "analyze", "class": status}})
            else:
                self.run.violation("corr", "generated description rejected by the analyzer: %s"
                                   % [d.get("code") for d in (r or {}).get("diagnostics", [])],
                                   {"pdl": text, "corr": "corr:generator/well-formed"}, found_input=False)
            return None
        g = self.drv.ask({"op": "gen", "backend": "rust", "text": text})
        if g is None or g.get("status") != "ok":
            # a back-end crash on an accepted description is property C10's business
            self.backend_failures.append({"pdl": text, "result": g or self.drv.last_death})
            self.run.count("descriptions_backend_failed")
            if self.report_backend_failures:
                self.run.violation("impl", "rust back end failed on an accepted description: %s" % (g or self.drv.last_death),
                                   {"pdl": text, "stage": "gen-rust", "signature": {"stage": "gen", "backend": "rust",
                                    "message": str((g or {}).get("message"))[:60]}})
            return None
        d = {"text": text, "analyzed": r["file"], "rust": g["text"], "origin": origin,
             "features": sorted(gen.features) if gen else []}
        d["types"] = GV.Types(d["analyzed"])
        self.descs.append(d)
        return d

    def generate(self):
        for t in self.extra_texts:
            self.add_text(t, origin="corpus")
        if self.stratify:
            for text, g in GD.stratified(self.rng, self.opts):
                self.add_text(text, g, origin="stratified")
        if self.interactions:
            irng = random.Random(self.seed * 7919 + 13)
            for text in GD.interactions(irng):
                self.add_text(text, origin="interactions")
            for text in GD.composed(irng, 10 if self.tier == "quick" else 80):
                self.add_text(text, origin="composed")
            for text in GD.framed(random.Random(self.seed * 7919 + 17)):
                self.add_text(text, origin="framed")
            for text in GD.optional_in_sized(random.Random(self.seed * 7919 + 19)):
                self.add_text(text, origin="optional-in-sized")
            for text in GD.sized_body(random.Random(self.seed * 7919 + 23)):
                self.add_text(text, origin="sized-body")
            for text in GD.nested_sized_payload(random.Random(self.seed * 7919 + 29)):
                self.add_text(text, origin="nested-sized-payload")
            for text in GD.wide(irng, 2 if self.tier == "quick" else 12):
                self.add_text(text, origin="wide")
        # random descriptions: what is left of the budget after the families, and never fewer than a floor (the families
        # have grown with every round of seeded changes; they must not crowd the random exploration out)
        floor = (10 if self.tier == "quick" else 40) if self.n_desc > 0 else 0
        want = max(self.n_desc + len(self.extra_texts) - len(self.descs), floor)
        tries, made = 0, 0
        while made < want and tries < max(self.n_desc, floor) * 3:
            tries += 1
            text, g = GD.generate(self.rng, self.opts)
            if self.add_text(text, g) is not None:
                made += 1
        for d in self.descs:
            for f in d["features"]:
                self.run.hist("features", f)
        self.run.cov["descriptions"] = len(self.descs)

    def build(self, report_compile_failures=False):
        """Build the harness.  Descriptions whose emitted Rust does not compile are dropped
        (and remembered in self.compile_failures): compilability is property C10's business."""
        import re
        self.compile_failures = []
        for attempt in range(6):
            name = "%s-%s" % (self.tag, self.tier)
            self.harness = rustgen.RustHarness(name, self.descs, self.profile)
            if self.harness.build():
                self.run.cov["descriptions"] = len(self.descs)
                self.run.cov["descriptions_not_compiling"] = len(self.compile_failures)
                return True
            log = self.harness.build_log
            bad = sorted(set(int(m) for m in re.findall(r"src/gen/d(\d+)\.rs:\d+:\d+: error", log)), reverse=True)
            if not bad:
                self.run.violation("corr", "harness build failed outside generated code: %s" % log[-1500:],
                                   {"stage": "harness-build", "log_tail": log[-3000:]}, found_input=False)
                return False
            for b in bad:
                errs = [l for l in log.splitlines() if ("src/gen/d%d.rs" % b) in l][:5]
                d = self.descs.pop(b)
                self.compile_failures.append({"pdl": d["text"], "errors": errs})
                if report_compile_failures:
                    self.run.violation("impl", "emitted Rust does not compile: %s" % errs[:2],
                                       {"pdl": d["text"], "stage": "rustc", "errors": errs,
                                        "signature": {"stage": "rustc", "error": (re.findall(r"error\[(E\d+)\]", " ".join(errs)) or ["?"])[0]}})
        return False

    # -- model ------------------------------------------------------------
    def model(self, i, type_id, cases):
        if self.loaded != i:
            r = self.mdl.ask({"op": "load", "file": self.descs[i]["analyzed"]})
            if not r or r.get("status") != "ok":
                self.loaded = None
                return None
            self.loaded = i
        r = self.mdl.ask({"op": "wire", "type": type_id, "cases": cases}, timeout=300)
        if not r:
            self.loaded = None
            return None
        if r.get("status") != "ok":
            return r.get("status")
        return r["out"]

    def packet_types(self, i):
        d = self.descs[i]
        return [x["id"] for x in d["analyzed"]["declarations"]
                if x["kind"] in ("packet_declaration", "struct_declaration")]

    def close(self):
        self.drv.kill()
        self.mdl.kill()
        if self.harness:
            self.harness.close()


def same_dec(impl, model):
    """Compare decode outcomes on the observables the properties talk about."""
    if impl.get("r") != model.get("r"):
        return False
    if impl["r"] == "ok":
        return canon(impl.get("value")) == canon(model.get("value")) and impl.get("rest") == model.get("rest")
    if impl["r"] == "err":
        return impl.get("e") == model.get("e")
    return True


def same_enc(impl, model):
    ir, mr = impl.get("r"), model.get("r")
    if mr == "panic" and model.get("h") == "badValue":
        return ir == "badvalue"
    if ir != mr:
        return False
    if ir == "ok":
        return impl.get("hex") == model.get("hex")
    if ir == "err":
        return impl.get("e") == model.get("e")
    return True
