"""Ill-formed descriptions: one rule-violating edit per analyzer rule, at the positions and numeric
boundaries where the rule can be violated.  Each case is (pdl text, expected error code).

A case may legitimately yield several diagnostics of the same pass; the oracle is that the
expected code is among them and that the description is rejected."""

CONTEXTS = ["packet", "struct", "child", "group", "group_unused", "group_nested"]


def wrap(rng, fields, ctx=None, extra_decls="", name="X", post_inline=False):
    """Put a field list (str) in a declaration context.  `post_inline`: the rule is one of those checked on the declarations
    that remain after group inlining (field offsets, element and declaration sizes: a group is a fragment, not a layout), so a
    group that nothing inlines is not a context in which it can be violated."""
    ctx = ctx or rng.choice([c for c in CONTEXTS if not (post_inline and c == "group_unused")])
    if ctx == "packet":
        return "%s\npacket %s {\n  %s\n}\n" % (extra_decls, name, fields)
    if ctx == "struct":
        return "%s\nstruct %s {\n  %s\n}\n" % (extra_decls, name, fields)
    if ctx == "child":
        return "%s\npacket Par { k: 8, _payload_ }\npacket %s : Par (k = 1) {\n  %s\n}\n" % (extra_decls, name, fields)
    if ctx == "group_unused":
        # a group no declaration inlines: its fields are checked all the same
        return "%s\ngroup %s {\n  %s\n}\npacket NoUse { z: 8 }\n" % (extra_decls, name, fields)
    if ctx == "group_nested":
        return "%s\ngroup %s {\n  %s\n}\ngroup Outer { o: 8, %s }\npacket UsesG { Outer }\n" % (extra_decls, name, fields, name)
    return "%s\ngroup %s {\n  %s\n}\npacket UsesG { %s }\n" % (extra_decls, name, fields, name)


def pos(rng, bad, good=("f1: 8", "f2: 16")):
    """the violating field first / middle / last among harmless ones"""
    k = rng.choice([0, 1, 2])
    fs = list(good)
    fs.insert(k, bad)
    return ",\n  ".join(fs)


def cases(rng):
    out = []
    W = lambda: rng.choice([1, 2, 3, 7, 8, 9, 15, 16, 17, 31, 32, 33, 63])

    def add(code, body):
        out.append((body, "E%d" % code))

    # E1 duplicate declaration identifier
    for a, b in [("packet A { x: 8 }", "packet A { y: 8 }"), ("enum A : 8 { X = 1 }", "struct A { y: 8 }"),
                 ("group A { x: 8 }", "custom_field A : 8 \"a\""), ("struct A { x: 8 }", "struct A { x: 8 }")]:
        add(1, a + "\n" + b + "\n")
        add(1, "packet Z { z: 8 }\n" + a + "\npacket M { m: 8 }\n" + b + "\n")
    # E2 recursion
    add(2, "struct A { a: A }\n")
    add(2, "struct A { b: B }\nstruct B { a: A }\n")
    add(2, "struct A { b: B[4] }\nstruct B { a: A }\n")
    add(2, "packet A : B { x: 8 }\npacket B : A { y: 8 }\n")
    add(2, "group G { H }\ngroup H { G }\npacket P { G }\n")
    add(2, "struct A { x: 8, b: B }\nstruct B { c: C }\nstruct C { a: A[2] }\n")
    # E3/E4 group identifiers
    add(3, wrap(rng, pos(rng, "Nope"), rng.choice(["packet", "struct", "child"])))
    add(4, wrap(rng, pos(rng, "S"), rng.choice(["packet", "struct", "child"]), "struct S { x: 8 }"))
    add(4, wrap(rng, pos(rng, "E"), "packet", "enum E : 8 { A = 1 }"))
    # E5/E6 type identifiers
    add(5, wrap(rng, pos(rng, "t: Nope")))
    add(5, wrap(rng, pos(rng, "t: Nope[]")))
    add(5, wrap(rng, pos(rng, "t: Nope[3]")))
    add(6, wrap(rng, pos(rng, "t: Pk"), None, "packet Pk { x: 8 }"))
    add(6, wrap(rng, pos(rng, "t: Pk[2]"), None, "packet Pk { x: 8 }"))
    # E7/E8 parents
    add(7, "packet C : Nope { x: 8 }\n")
    add(7, "struct C : Nope { x: 8 }\n")
    add(8, "struct S { x: 8, _payload_ }\npacket C : S { y: 8 }\n")
    add(8, "packet P { x: 8, _payload_ }\nstruct C : P { y: 8 }\n")
    add(8, "enum E : 8 { A = 1 }\npacket C : E { y: 8 }\n")
    # E9/E10 tests
    # E9/E10 (test declarations): unreachable through the parser, which drops `test` declarations
    # E11 duplicate field identifiers
    for a, b in [("a: 8", "a: 16"), ("a: 8", "a: 8[]"), ("a: E", "a: 8"), ("a: 8[2]", "a: E")]:
        add(11, wrap(rng, "%s,\n  m: 8,\n  %s" % (a, b), None, "enum E : 8 { A = 1 }"))
    # ... in a group whose every use constrains the duplicated identifier (inlining replaces a constrained field by a fixed
    # field without identifier), directly and through an enclosing group, and in a group that is never used
    add(11, "group G { a: 8, a: 8 }\npacket P { G { a = 1 }, b: 8 }\n")
    add(11, "group G { a: 8, m: 16, a: 8 }\ngroup H { G { a = 2 }, h: 8 }\npacket P { H, b: 8 }\n")
    add(11, "enum E : 8 { A = 1 }\ngroup G { a: E, a: E }\nstruct S { G { a = A } }\n")
    add(11, "group G { a: 8, a: 8[] }\npacket P { b: 8 }\n")
    # E12/E13/E14 tags
    add(12, "enum E : 8 { A = 1, A = 2 }\n")
    add(12, "enum E : 8 { A = 1, B = 2..5 { A = 3 } }\n")
    add(12, "enum E : 8 { A = 1, A = .. }\n")
    add(12, "enum E : 8 { A = 1..2, A = 4..5 }\n")
    add(13, "enum E : 8 { A = 1, B = 1 }\n")
    add(13, "enum E : 8 { A = 3, B = 2..5 { C = 4, D = 4 } }\n" if False else "enum E : 8 { B = 2..5 { C = 4, D = 4 } }\n")
    for w in [1, 2, 3, 7, 8, 9, 16, 31, 32, 33, 63]:
        add(14, "enum E : %d { A = 0, B = %d }\n" % (w, 1 << w))
        out.append(("enum E : %d { A = 0, B = %d }\npacket P { e: E, _reserved_: %d }\n" % (w, (1 << w) - 1, (-w) % 8), None))
    add(14, "enum E : 8 { B = 2..5 { C = 6 } }\n")
    add(14, "enum E : 8 { B = 2..5 { C = 1 } }\n")
    # E15..E22 constraints (inheritance and groups)
    base = "enum E : 8 { A = 1, B = 2, R = 5..9 }\nstruct S { q: 8 }\npacket P { s: 8, e: E, a: 8[2], t: S, w: 3, _reserved_: 5, _payload_ }\n"
    add(15, base + "packet C : P (nope = 1) { x: 8 }\n")
    add(16, base + "packet C : P (a = 1) { x: 8 }\n")
    add(17, base + "packet C : P (s = A) { x: 8 }\n")
    for w in [1, 3, 7, 8]:
        add(18, "packet P { s: %d, _reserved_: %d, _payload_ }\npacket C : P (s = %d) { x: 8 }\n" % (w, (-w) % 8, 1 << w))
        out.append(("packet P { s: %d, _reserved_: %d, _payload_ }\npacket C : P (s = %d) { x: 8 }\n" % (w, (-w) % 8, (1 << w) - 1), None))
    add(19, base + "packet C : P (e = 1) { x: 8 }\n")
    add(20, base + "packet C : P (e = NOPE) { x: 8 }\n")
    add(21, base + "packet C : P (t = 1) { x: 8 }\n")
    add(42, base + "packet C : P (e = R) { x: 8 }\n")
    add(22, base + "packet C : P (s = 1, s = 2) { x: 8 }\n")
    add(22, base + "packet C : P (s = 1) { x: 8, _payload_ }\npacket D : C (s = 2) { y: 8 }\n")
    add(22, base + "packet C : P (s = 1) { x: 8, _payload_ }\npacket D : C (e = A) { y: 8, _payload_ }\npacket F : D (s = 1) { z: 8 }\n")
    grp = "enum E : 8 { A = 1, B = 2, R = 5..9 }\ngroup G { s: 8, e: E, a: 8[2] }\n"
    add(15, grp + "packet Q { G { nope = 1 } }\n")
    add(16, grp + "packet Q { G { a = 1 } }\n")
    add(17, grp + "packet Q { G { s = A } }\n")
    add(18, grp + "packet Q { G { s = 256 } }\n")
    add(19, grp + "packet Q { G { e = 1 } }\n")
    add(20, grp + "packet Q { G { e = NOPE } }\n")
    add(22, grp + "packet Q { G { s = 1, s = 1 } }\n")
    # E23..E31 size / count / elementsize
    arr = "a: 8[]"
    add(23, wrap(rng, "_size_(a): 8, _size_(a): 8, " + arr))
    add(26, wrap(rng, "_count_(a): 8, _count_(a): 8, " + arr))
    add(26, wrap(rng, "_size_(a): 8, _count_(a): 8, " + arr))
    add(23, wrap(rng, "_count_(a): 8, _size_(a): 8, " + arr))
    add(29, wrap(rng, "_elementsize_(b): 8, _elementsize_(b): 8, b: S2[]", "packet", "struct S2 { x: 8[] }"))
    add(24, wrap(rng, pos(rng, "_size_(nope): 8")))
    add(24, wrap(rng, pos(rng, "_size_(_payload_): 8"), "struct"))
    add(24, wrap(rng, "_size_(_body_): 8, x: 8, _payload_", "packet"))
    add(25, wrap(rng, "_size_(s): 8, s: 8"))
    add(27, wrap(rng, pos(rng, "_count_(nope): 8")))
    add(28, wrap(rng, "_count_(s): 8, s: 8"))
    add(30, wrap(rng, pos(rng, "_elementsize_(nope): 8")))
    add(31, wrap(rng, "_elementsize_(s): 8, s: 8"))
    # E32..E35 fixed fields
    for w in [1, 2, 7, 8, 9, 16, 31, 32, 33, 63]:
        pad = (-w) % 8
        add(32, wrap(rng, "_fixed_ = %d : %d%s" % (1 << w, w, (", _reserved_: %d" % pad) if pad else ""), rng.choice(["packet", "struct", "child", "group"])))
        out.append((wrap(rng, "_fixed_ = %d : %d%s" % ((1 << w) - 1, w, (", _reserved_: %d" % pad) if pad else ""), "packet"), None))
    add(33, wrap(rng, pos(rng, "_fixed_ = A : Nope")))
    add(34, wrap(rng, pos(rng, "_fixed_ = NOPE : E"), None, "enum E : 8 { A = 1 }"))
    add(35, wrap(rng, pos(rng, "_fixed_ = A : S"), None, "struct S { x: 8 }"))
    # E36/E37 payload
    add(36, wrap(rng, "_payload_, x: 8, _payload_", rng.choice(["packet", "struct"])))
    add(36, wrap(rng, "_body_, x: 8, _payload_", "packet"))
    add(36, wrap(rng, "_body_, _body_", "packet"))
    add(37, "packet P { x: 8 }\npacket C : P { y: 8 }\n")
    add(37, "struct P { x: 8 }\nstruct C : P { y: 8 }\n")
    add(37, "packet P { x: 8, _payload_ }\npacket C : P { y: 8 }\npacket D : C { z: 8 }\n")
    # E38 redundant array size
    add(38, wrap(rng, "_size_(a): 8, a: 8[4]"))
    add(38, wrap(rng, "_count_(a): 8, a: 16[4]"))
    # E39 padding
    add(39, wrap(rng, "x: 8, _padding_[4]"))
    add(39, wrap(rng, "_padding_[4], a: 8[]"))
    add(39, wrap(rng, "a: 8[], x: 8, _padding_[4]"))
    add(39, wrap(rng, "a: 8[2], _padding_[4], _padding_[8]"))
    # E40/E41/E43/E44 ranges
    for w in [2, 3, 8, 16, 32, 63]:
        add(40, "enum E : %d { A = 0..%d }\n" % (w, 1 << w))
    add(40, "enum E : 8 { A = 5..5 }\n")
    add(40, "enum E : 8 { A = 6..5 }\n")
    add(41, "enum E : 8 { A = 1..5, B = 5..9 }\n")
    add(41, "enum E : 8 { A = 1..5, B = 3..4 }\n")
    add(41, "enum E : 8 { B = 10..20, C = 30..40, A = 15..35 }\n")
    # exactly one overlapping pair among 3..5 ranges, at every pair of declaration positions (an overlap
    # check that only compares neighbours in declaration order misses the non-adjacent ones)
    for _ in range(4):
        n = rng.randint(3, 5)
        lo = [20 * k for k in range(n)]
        rngs = [(x, x + 9) for x in lo]
        i, j = sorted(rng.sample(range(n), 2))
        rngs[j] = (rngs[i][0] + 5, rngs[i][0] + 14) if j == i + 1 or True else rngs[j]
        # keep the moved range clear of every other one
        for k in range(n):
            if k not in (i, j):
                rngs[k] = (100 + 12 * k, 100 + 12 * k + 9)
        order = list(range(n))
        rng.shuffle(order)
        add(41, "enum E : 8 { %s }\n" % ", ".join("R%d = %d..%d" % (k, rngs[k][0], rngs[k][1]) for k in order))
    add(41, "enum E : 8 { LOW = 0..10, HIGH = 20..30, MID = 5..15 }\n")
    add(41, "enum E : 8 { MID = 5..15, HIGH = 20..30, LOW = 0..10 }\n")
    out.append(("enum E : 8 { A = 1..5, B = 6..9 }\npacket P { e: E }\n", None))
    add(43, "enum E : 8 { A = 1..5, B = 3 }\n")
    add(43, "enum E : 8 { B = 5, A = 1..5 }\n")
    add(44, "enum E : 8 { A = 1, X = .., Y = .. }\n")
    # E45..E49 optional fields
    add(45, wrap(rng, "c: 1, _reserved_: 7, a: 8[] if c = 1"))
    add(45, wrap(rng, "c: 1, _reserved_: 7, _payload_ if c = 1", "packet") if False else wrap(rng, "c: 1, x: 7, _reserved_: 8 if c = 1"))
    add(46, wrap(rng, "x: 8 if nope = 1"))
    add(46, wrap(rng, "x: 8 if c = 1, c: 1, _reserved_: 7"))
    add(47, wrap(rng, "c: 2, _reserved_: 6, x: 8 if c = 1"))
    add(47, wrap(rng, "c: 8[1], x: 8 if c = 1"))
    add(47, wrap(rng, "c: E, x: 8 if c = 1", None, "enum E : 8 { A = 1 }"))
    add(48, wrap(rng, "c: 1, _reserved_: 7, x: 8 if c = 2"))
    add(48, wrap(rng, "c: 1, _reserved_: 7, x: 8 if c = A"))
    add(49, wrap(rng, "c: 1, _reserved_: 7, d: 1 if c = 1, x: 8 if d = 1"))
    # E51 field offsets
    for off in [1, 7, 9]:
        add(51, wrap(rng, "b: %d, a: 8[]" % off, post_inline=True))
        add(51, wrap(rng, "b: %d, t: S, _reserved_: %d" % (off, (-off) % 8), None, "struct S { x: 8 }", post_inline=True))
        add(51, wrap(rng, "b: %d, _payload_, _reserved_: %d" % (off, (-off) % 8), "packet"))
    # E52 array element size
    for w in [1, 7, 9, 12]:
        add(52, wrap(rng, "a: %d[8]" % w, post_inline=True))
        add(52, wrap(rng, "_count_(a): 8, a: %d[]" % w, post_inline=True))
    # E53 declaration size
    for w in [1, 7, 9, 15, 17]:
        add(53, wrap(rng, "a: %d" % w, rng.choice(["packet", "struct", "child"])))
    add(53, wrap(rng, "a: 3, b: 8[], c: 4", "packet") if False else wrap(rng, "a: 4, b: 8, c: 3", post_inline=True))
    return out
