"""Type-directed generation of values (JSON-shaped, as the generated serde impls read them)
from an analyzed `ast::File` JSON, and of byte strings (mutants of encodings)."""


def backing(w):
    return 8 if w <= 8 else 16 if w <= 16 else 32 if w <= 32 else 64


class Types:
    def __init__(self, file_json):
        self.file = file_json
        self.decls = {d["id"]: d for d in file_json["declarations"] if "id" in d}

    def parent_chain(self, d):
        out = [d]
        while out[-1].get("parent_id") in self.decls:
            out.append(self.decls[out[-1]["parent_id"]])
        return out   # child first

    def all_constraints(self, d):
        cs = {}
        for x in self.parent_chain(d):
            for c in x.get("constraints", []):
                cs[c["id"]] = c
        return cs

    def data_fields(self, d):
        """packet_data_fields: named, non-flag, unconstrained fields of d and its ancestors."""
        cs = self.all_constraints(d)
        out = []
        for x in self.parent_chain(d):
            for f in x["fields"]:
                if "id" in f and f["kind"] in ("scalar_field", "typedef_field", "array_field") and f["id"] not in cs:
                    out.append((x, f))
        return out

    def has_payload(self, d):
        return any(f["kind"] in ("payload_field", "body_field") for f in d["fields"])

    def enum_values(self, e, rng, valid=True):
        w = e["width"]
        vals = []
        for t in e["tags"]:
            if "value" in t:
                vals.append(t["value"])
            elif "range" in t:
                vals += [t["range"]["start"], t["range"]["end"]]
                vals += [n["value"] for n in t["tags"]]
                if t["range"]["end"] - t["range"]["start"] > 1:
                    vals.append(rng.randint(t["range"]["start"], t["range"]["end"]))
        is_open = any("value" not in t and "range" not in t for t in e["tags"])
        if is_open:
            vals += [0, (1 << w) - 1, rng.randrange(1 << w)]
        return vals

    def enum_invalid(self, e, rng):
        w = e["width"]
        is_open = any("value" not in t and "range" not in t for t in e["tags"])
        if is_open:
            return None
        cands = [0, 1, (1 << w) - 1, (1 << w) - 2] + [rng.randrange(1 << w) for _ in range(8)]
        for c in cands:
            if c < 0:
                continue
            ok = False
            for t in e["tags"]:
                if "value" in t and t["value"] == c:
                    ok = True
                if "range" in t and t["range"]["start"] <= c <= t["range"]["end"]:
                    ok = True
            if not ok:
                return c
        return None


def scalar_value(rng, w, mode):
    """mode: 'in' (in range), 'edge', 'out' (beyond the declared width but within the backing type)"""
    mx = (1 << w) - 1
    if mode == "out":
        b = backing(w)
        if b == w:
            return None
        return rng.choice([mx + 1, (1 << b) - 1, rng.randrange(mx + 1, 1 << b)])
    if mode == "edge":
        return rng.choice([0, 1, mx, mx - 1 if mx else 0, 1 << rng.randrange(w)])
    return rng.randrange(mx + 1)


class ValueGen:
    def __init__(self, types, rng, fault=None):
        """fault: None (well-formed) or a label; at most one fault is injected per value and the
        injected fault is recorded in self.injected."""
        self.t, self.rng, self.fault = types, rng, fault
        self.injected = None
        self.depth = 0

    def mode(self):
        return "edge" if self.rng.random() < 0.4 else "in"

    def scalar(self, w, where):
        if self.fault == "scalar_out" and self.injected is None and self.rng.random() < 0.5:
            v = scalar_value(self.rng, w, "out")
            if v is not None:
                self.injected = ("scalar_out", where, w, v)
                return v
        return scalar_value(self.rng, w, self.mode())

    def of_type(self, type_id, where):
        d = self.t.decls[type_id]
        k = d["kind"]
        if k == "enum_declaration":
            return self.rng.choice(self.t.enum_values(d, self.rng))
        if k == "custom_field_declaration":
            return scalar_value(self.rng, d["width"], self.mode())
        return self.struct(d)

    def max_for(self, decl, fid):
        """How many elements / bytes the size/count field or padding designating `fid` allows."""
        lim = {}
        fields = decl["fields"]
        for i, f in enumerate(fields):
            if f["kind"] == "size_field" and f["field_id"] == fid:
                lim["size"] = (1 << f["width"]) - 1
            if f["kind"] == "count_field" and f["field_id"] == fid:
                lim["count"] = (1 << f["width"]) - 1
            if f["kind"] == "elementsize_field" and f["field_id"] == fid:
                lim["esize"] = (1 << f["width"]) - 1
            if f.get("id") == fid and i + 1 < len(fields) and fields[i + 1]["kind"] == "padding_field":
                lim["pad"] = fields[i + 1]["size"]
        return lim

    def array(self, decl, f):
        rng = self.rng
        fid = f["id"]
        lim = self.max_for(decl, fid)
        if f["size"] is not None:
            n = f["size"]
        else:
            n = rng.choice([0, 1, 2, 3, 5])
            if "count" in lim:
                n = min(n, lim["count"])
                if self.fault == "count_over" and self.injected is None and lim["count"] < 70000:
                    n = lim["count"] + 1
                    self.injected = ("count_over", fid, n)
                elif rng.random() < 0.1 and lim["count"] <= 300:
                    n = lim["count"]
        elems = []
        if f["width"] is not None:
            eb = f["width"] // 8
            mk = lambda: scalar_value(rng, f["width"], self.mode())
        else:
            td = self.t.decls[f["type_id"]]
            if td["kind"] == "enum_declaration":
                eb = td["width"] // 8
            elif td["kind"] == "custom_field_declaration":
                eb = td["width"] // 8
            else:
                eb = None
            mk = lambda: self.of_type(f["type_id"], fid)
        if eb is not None and f["size"] is None:
            cap = None
            if "size" in lim:
                cap = lim["size"] // max(eb, 1)
            if "pad" in lim:
                cap = min(cap, lim["pad"] // max(eb, 1)) if cap is not None else lim["pad"] // max(eb, 1)
            if cap is not None:
                if self.fault == "size_over" and self.injected is None and cap < 70000:
                    n = cap + 1
                    self.injected = ("size_over", fid, n)
                else:
                    n = min(n, cap)
                    if rng.random() < 0.1 and cap <= 300 and "count" not in lim:
                        n = cap
        if eb is None and f["size"] is None and ("size" in lim or "pad" in lim):
            n = min(n, 2)
        if self.depth > 2:
            n = min(n, 1) if f["size"] is None else n
        self.depth += 1
        elems = [mk() for _ in range(n)]
        self.depth -= 1
        if (self.fault == "elem_out" and self.injected is None and f["width"] is not None and elems
                and backing(f["width"]) != f["width"]):
            j = rng.randrange(len(elems))
            elems[j] = scalar_value(rng, f["width"], "out")
            self.injected = ("elem_out", fid, j, elems[j])
        if "esize" in lim and elems and isinstance(elems[0], dict):
            # elements must share their encoded size: replicate the first element's shape
            if not (self.fault == "esize_mismatch" and self.injected is None and len(elems) > 1):
                elems = [elems[0]] + [self.same_shape(elems[0]) for _ in elems[1:]]
            else:
                self.injected = ("esize_mismatch", fid)
        return elems

    def same_shape(self, v):
        """A value with the same encoded length: same structure, fresh scalars are not
        needed — reuse the value (length equality is what matters)."""
        import copy
        return copy.deepcopy(v)

    def struct(self, d):
        rng = self.rng
        out = {}
        for owner, f in self.t.data_fields(d):
            fid = f["id"]
            if f.get("cond"):
                out[fid] = None   # filled below, consistently per flag
                continue
            k = f["kind"]
            if k == "scalar_field":
                out[fid] = self.scalar(f["width"], fid)
            elif k == "typedef_field":
                out[fid] = self.of_type(f["type_id"], fid)
            elif k == "array_field":
                out[fid] = self.array(owner, f)
        # optional fields: one decision per flag
        for owner in self.t.parent_chain(d):
            by_flag = {}
            for f in owner["fields"]:
                if f.get("cond") and "id" in f:
                    by_flag.setdefault(f["cond"]["id"], []).append(f)
            for flag, fs in by_flag.items():
                bit = rng.choice([0, 1])
                inconsistent = (self.fault == "inconsistent" and self.injected is None and len(fs) > 1)
                flip_at = rng.randrange(len(fs)) if inconsistent else None
                for i, f in enumerate(fs):
                    present = f["cond"]["value"] == bit
                    if inconsistent and i == flip_at:
                        present = not present
                        self.injected = ("inconsistent", flag)
                    if f["id"] not in out:
                        continue
                    if not present:
                        out[f["id"]] = None
                    elif f["kind"] == "scalar_field":
                        out[f["id"]] = self.scalar(f["width"], f["id"])
                    else:
                        out[f["id"]] = self.of_type(f["type_id"], f["id"])
        if self.t.has_payload(d):
            lim = {}
            for f in d["fields"]:
                if f["kind"] == "size_field" and f["field_id"] in ("_payload_", "_body_"):
                    lim["size"] = (1 << f["width"]) - 1
            mod = 0
            for f in d["fields"]:
                if f["kind"] == "payload_field" and f.get("size_modifier"):
                    mod = int(f["size_modifier"].lstrip("+"))
            n = rng.choice([0, 1, 2, 3, 7])
            if "size" in lim:
                cap = max(0, lim["size"] - mod)
                if self.fault == "payload_over" and self.injected is None and cap < 70000:
                    n = cap + 1
                    self.injected = ("payload_over", n)
                else:
                    n = min(n, cap)
            out["payload"] = [rng.randrange(256) for _ in range(n)]
        return out


def gen_value(types, type_id, rng, fault=None):
    g = ValueGen(types, rng, fault)
    d = types.decls[type_id]
    if d["kind"] in ("packet_declaration", "struct_declaration"):
        v = g.struct(d)
    else:
        v = g.of_type(type_id, type_id)
    return v, g.injected


# ---------------------------------------------------------------------------
# byte strings

def mutants(rng, enc, n_random=6):
    """Byte-string families from one valid encoding (bytes): every prefix, extensions,
    single-bit flips, single bytes forced to extremes, random strings."""
    out = []
    L = len(enc)
    for i in range(0, L):
        out.append(("prefix", enc[:i]))
    for ext in (b"\x00", b"\xff", b"\x01\x02\x03"):
        out.append(("extended", enc + ext))
    for _ in range(min(24, 4 * L)):
        if L == 0:
            break
        i = rng.randrange(L)
        b = bytearray(enc)
        b[i] ^= 1 << rng.randrange(8)
        out.append(("bitflip", bytes(b)))
    for _ in range(min(24, 3 * L)):
        if L == 0:
            break
        i = rng.randrange(L)
        b = bytearray(enc)
        b[i] = rng.choice([0, 1, 0x7f, 0x80, 0xfe, 0xff])
        out.append(("extreme", bytes(b)))
    # multi-byte fields forced to extremes (sizes / counts up to 64 bits)
    for _ in range(min(8, L)):
        if L < 2:
            break
        k = rng.choice([2, 3, 4, 8])
        i = rng.randrange(max(1, L - k + 1))
        b = bytearray(enc)
        for j in range(i, min(L, i + k)):
            b[j] = rng.choice([0xff, 0xff, 0x00, 0x80])
        out.append(("extreme_wide", bytes(b)))
    # small values and off-by-one neighbours: size / count / element-size fields just above and below
    # what the rest of the input (or a padded region) can hold
    for _ in range(min(32, 4 * L)):
        if L == 0:
            break
        i = rng.randrange(L)
        b = bytearray(enc)
        if rng.random() < 0.5:
            b[i] = rng.randrange(0, 24)
            out.append(("small", bytes(b)))
        else:
            b[i] = (b[i] + rng.choice([1, 1, 2, 3, -1, -1, -2])) % 256
            out.append(("neighbour", bytes(b)))
    for _ in range(n_random):
        n = rng.choice([0, 1, 2, 3, 5, 8, 13, L, L + 1])
        out.append(("random", bytes(rng.randrange(256) for _ in range(n))))
    return out
