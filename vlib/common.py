"""Shared machinery for the /verif checks: builds, line-protocol processes, proof audit,
evidence and verdict plumbing."""
import fcntl
import hashlib
import json
import os
import re
import select
import subprocess
import sys
import time

VERIF = os.path.dirname(os.path.dirname(os.path.abspath(__file__)))
REPO = os.environ.get("VERIF_REPO", "/repo")
CACHE = os.path.join(VERIF, ".cache")
LEAN = os.path.join(VERIF, "lean")
DRIVER_DIR = os.path.join(VERIF, "harness", "pdl-driver")
DRIVER_TARGET = os.path.join(CACHE, "driver-target")
DRIVER_BIN = os.path.join(DRIVER_TARGET, "debug", "pdl-driver")
PDLV_BIN = os.path.join(LEAN, ".lake", "build", "bin", "pdlv")
EVIDENCE = os.path.join(VERIF, "evidence")
REPLAYS = os.path.join(VERIF, "replays")
ALLOWED_AXIOMS = {"propext", "Classical.choice", "Quot.sound"}

ENV = dict(os.environ)
ENV["CARGO_NET_OFFLINE"] = "true"
ENV["RUST_BACKTRACE"] = "0"


def log(*a):
    print(*a, file=sys.stderr, flush=True)


class Lock:
    def __init__(self, name):
        os.makedirs(CACHE, exist_ok=True)
        self.path = os.path.join(CACHE, name + ".lock")

    def __enter__(self):
        self.f = open(self.path, "w")
        fcntl.flock(self.f, fcntl.LOCK_EX)
        return self

    def __exit__(self, *a):
        fcntl.flock(self.f, fcntl.LOCK_UN)
        self.f.close()


def run(cmd, cwd=None, timeout=None, env=None, check=False, input=None):
    p = subprocess.run(cmd, cwd=cwd, env=env or ENV, stdout=subprocess.PIPE,
                       stderr=subprocess.STDOUT, text=True, timeout=timeout, input=input)
    if check and p.returncode != 0:
        raise RuntimeError("command failed: %s\n%s" % (cmd, p.stdout[-4000:]))
    return p.returncode, p.stdout


# ---------------------------------------------------------------------------
# builds

def build_lean(targets=("Pdlv", "pdlv")):
    """lake build; returns (ok, output)."""
    with Lock("lake"):
        rc, out = run(["lake", "build"] + list(targets), cwd=LEAN, timeout=3600)
    return rc == 0, out


def build_driver():
    """Rebuild the in-process compiler driver from /repo's current working tree."""
    with Lock("driver"):
        lock = os.path.join(DRIVER_DIR, "Cargo.lock")
        if not os.path.exists(lock):
            import shutil
            shutil.copy(os.path.join(REPO, "Cargo.lock"), lock)
        env = dict(ENV)
        env["CARGO_TARGET_DIR"] = DRIVER_TARGET
        rc, out = run(["cargo", "build", "--offline"], cwd=DRIVER_DIR, env=env, timeout=3600)
    return rc == 0, out


# ---------------------------------------------------------------------------
# line-protocol subprocess

class LineProc:
    """A subprocess speaking one-line-in / one-line-out.  Survives crashes and hangs of the
    child: `ask` returns None after restarting the child, and `last_death` says why."""

    def __init__(self, argv, cwd=None, env=None, timeout=20.0):
        self.argv, self.cwd, self.env, self.timeout = argv, cwd, env or ENV, timeout
        self.p = None
        self.last_death = None
        self.deaths = 0
        self.timeouts = 0         # requests the child did not answer within the limit
        self.max_timeouts = 12    # after that many, further requests are not sent (answered None, last_death says so): a child
                                  # that hangs does so on many inputs, and each costs the full time limit
        self.buf = b""
        self.init_lines = []      # requests replayed after every (re)start of the child (their replies are dropped)

    def start(self):
        self.p = subprocess.Popen(self.argv, cwd=self.cwd, env=self.env, stdin=subprocess.PIPE,
                                  stdout=subprocess.PIPE, stderr=subprocess.PIPE)
        self.buf = b""
        for l in self.init_lines:
            self._exchange(l, 60.0)

    def kill(self):
        if self.p is not None:
            try:
                self.p.kill()
                self.p.wait(timeout=5)
            except Exception:
                pass
        self.p = None

    def ask_raw(self, line, timeout=None):
        if self.timeouts >= self.max_timeouts:
            self.last_death = "timeout (not sent: the child has already exceeded the time limit %d times in this run)" % self.timeouts
            return None
        if self.p is None or self.p.poll() is not None:
            self.start()
        return self._exchange(line, timeout or self.timeout)

    def _exchange(self, line, timeout):
        try:
            self.p.stdin.write(line.encode() + b"\n")
            self.p.stdin.flush()
        except BrokenPipeError:
            return self._dead("broken pipe")
        deadline = time.time() + timeout
        fd = self.p.stdout.fileno()
        while b"\n" not in self.buf:
            left = deadline - time.time()
            if left <= 0:
                self.kill()
                self.last_death = "timeout"
                self.deaths += 1
                self.timeouts += 1
                return None
            r, _, _ = select.select([fd], [], [], min(left, 1.0))
            if r:
                chunk = os.read(fd, 1 << 16)
                if not chunk:
                    return self._dead("eof")
                self.buf += chunk
        line, self.buf = self.buf.split(b"\n", 1)
        return line.decode(errors="replace")

    def _dead(self, why):
        err = b""
        try:
            rc = self.p.wait(timeout=5)
            err = self.p.stderr.read() or b""
        except Exception:
            rc = None
        self.kill()
        self.last_death = "%s rc=%s %s" % (why, rc, err.decode(errors="replace")[-300:].strip())
        self.deaths += 1
        return None

    def ask(self, obj, timeout=None):
        r = self.ask_raw(json.dumps(obj), timeout)
        if r is None:
            return None
        try:
            return json.loads(r)
        except Exception:
            return {"status": "bad_output", "raw": r[:500]}


PDLC_TARGET = os.path.join(CACHE, "pdlc-target")
PDLC = os.path.join(PDLC_TARGET, "debug", "pdlc")


def build_pdlc():
    """the command-line compiler, built from /repo's working tree"""
    env = dict(ENV)
    env["CARGO_TARGET_DIR"] = PDLC_TARGET
    with Lock("pdlc"):
        rc, out = run(["cargo", "build", "--offline", "-p", "pdl-compiler", "--features", "java", "--bin", "pdlc"],
                      cwd=REPO, env=env, timeout=3600)
    return rc == 0 and os.path.exists(PDLC), out


def driver(timeout=30.0):
    return LineProc([DRIVER_BIN], timeout=timeout)


def pdlv(timeout=60.0):
    return LineProc([PDLV_BIN], timeout=timeout)


def use_translated_grammar(mdl, run, report=True):
    """Translate the pest grammar embedded in /repo's parser.rs (vlib/pestgrammar.py) and make the model parser
    run it; compare it with the transcribed grammar of Pdlv.Syntax.  Returns (ok, info)."""
    from . import pestgrammar as PG
    info = {"source": "pdl-compiler/src/parser.rs #[grammar_inline]"}
    try:
        rules = PG.translate(PG.parser_rs(REPO))
    except (PG.GrammarError, OSError) as e:
        info.update(translated=False, error=str(e))
        run.cov["grammar_translation"] = info
        if report:
            run.violation("corr", "the grammar in parser.rs cannot be translated: %s" % e,
                          {"corr": "translation:C12/grammar", "error": str(e)}, found_input=False)
        return False, info
    req = {"op": "grammar", "rules": rules, "use": True}
    mdl.init_lines = [json.dumps(req)]
    mdl.kill()
    r = mdl.ask({"op": "grammar", "rules": rules, "use": True}, timeout=60) or {}
    info.update(translated=True, rules=len(rules), equal_to_transcribed=bool(r.get("equal")), differing_rules=r.get("diff", []))
    if not r.get("equal"):
        # the grammar in /repo is no longer the one the theorems and the tree-to-AST model were written against: the model
        # parser goes back to the transcribed grammar (the reference), so that running both on the same texts can exhibit a
        # text on which the changed grammar parses differently
        mdl.init_lines = []
        mdl.kill()
        info["model_runs"] = "transcribed grammar (Pdlv.Syntax.grammar)"
    else:
        info["model_runs"] = "grammar translated from parser.rs"
    run.cov["grammar_translation"] = info
    return bool(r.get("equal")), info


# ---------------------------------------------------------------------------
# proof obligations

FORBIDDEN = re.compile(r"\bsorry\b|\badmit\b|^\s*axiom\s|native_decide|bv_decide|implemented_by|"
                       r"\bunsafe\s|maxHeartbeats\s+0", re.M)


def strip_lean_comments(src):
    out, i, depth = [], 0, 0
    n = len(src)
    while i < n:
        if src.startswith("/-", i):
            depth += 1
            i += 2
        elif depth and src.startswith("-/", i):
            depth -= 1
            i += 2
        elif depth:
            i += 1
        elif src.startswith("--", i):
            j = src.find("\n", i)
            i = n if j < 0 else j
        else:
            out.append(src[i])
            i += 1
    return "".join(out)


def lean_sources():
    res = []
    for root, _, files in os.walk(LEAN):
        if ".lake" in root:
            continue
        for f in files:
            if f.endswith(".lean"):
                res.append(os.path.join(root, f))
    return sorted(res)


def forbidden_hits():
    hits = []
    for p in lean_sources():
        src = strip_lean_comments(open(p).read())
        for m in FORBIDDEN.finditer(src):
            hits.append("%s: %s" % (os.path.relpath(p, LEAN), m.group(0).strip()))
    return hits


def theorem_names(module_path):
    """Names of the theorems declared in a Thm file, with their namespace prefix."""
    src = strip_lean_comments(open(module_path).read())
    ns, names = [], []
    for line in src.splitlines():
        m = re.match(r"\s*namespace\s+(\S+)", line)
        if m:
            ns.append(m.group(1))
            continue
        m = re.match(r"\s*end\s+(\S+)", line)
        if m and ns and ns[-1] == m.group(1):
            ns.pop()
            continue
        m = re.match(r"\s*(?:private\s+|protected\s+)?theorem\s+([^\s:({\[]+)", line)
        if m:
            names.append(".".join(ns + [m.group(1)]))
    return names


def proof_audit(prop, extra_modules=()):
    """Build the property's theorem module and audit it.  Returns a dict:
    ok, obligations, discharged, theorems {name: [axioms]}, problems [..], checker_cmd."""
    t0 = time.time()
    mod = "Pdlv.Thm.%s" % prop
    path = os.path.join(LEAN, "Pdlv", "Thm", prop + ".lean")
    res = {"ok": False, "obligations": 0, "discharged": 0, "theorems": {}, "problems": [],
           "checker_cmd": "cd lean && lake build %s && lake env lean <audit: #print axioms of every theorem>" % mod}
    # further theorem files of the property: Thm/<prop>_*.lean (kept apart when their lemmas build on later modules)
    import glob
    more = sorted(glob.glob(os.path.join(LEAN, "Pdlv", "Thm", prop + "_*.lean")))
    more_mods = ["Pdlv.Thm." + os.path.basename(x)[:-5] for x in more]
    ok, out = build_lean([mod] + more_mods + list(extra_modules) + ["pdlv"])
    names = theorem_names(path) if os.path.exists(path) else []
    for x in more:
        names += theorem_names(x)
    res["obligations"] = len(names)
    if not ok:
        res["problems"].append("lake build %s failed: %s" % (mod, out[-1500:]))
        return res
    hits = forbidden_hits()
    if hits:
        res["problems"].append("forbidden constructs: %s" % hits[:10])
    if not names:
        res["problems"].append("no theorems found in %s" % path)
        return res
    os.makedirs(os.path.join(CACHE, "audit"), exist_ok=True)
    audit = os.path.join(CACHE, "audit", prop + ".lean")
    with open(audit, "w") as f:
        f.write("import %s\n" % mod)
        for mm in more_mods:
            f.write("import %s\n" % mm)
        for n in names:
            f.write("#print axioms %s\n" % n)
    with Lock("lake"):
        rc, out = run(["lake", "env", "lean", audit], cwd=LEAN, timeout=1800)
    if rc != 0:
        res["problems"].append("axiom audit failed: %s" % out[-1500:])
        return res
    flat = re.sub(r"\s+", " ", out)
    for n in names:
        m = re.search(r"'%s' depends on axioms: \[([^\]]*)\]" % re.escape(n), flat)
        if m:
            ax = [a.strip() for a in m.group(1).split(",") if a.strip()]
        elif re.search(r"'%s' does not depend on any axioms" % re.escape(n), flat):
            ax = []
        else:
            res["problems"].append("no axiom report for %s" % n)
            continue
        res["theorems"][n] = ax
        bad = [a for a in ax if a not in ALLOWED_AXIOMS]
        if bad:
            res["problems"].append("%s depends on non-standard axioms %s" % (n, bad))
        else:
            res["discharged"] += 1
    res["ok"] = not res["problems"] and res["discharged"] == res["obligations"]
    res["audit_s"] = round(time.time() - t0, 1)
    return res


# ---------------------------------------------------------------------------
# verdict / evidence

class Run:
    """Collects what one check run did; writes evidence; prints verdict lines."""

    def __init__(self, prop, tier, seed):
        self.prop, self.tier, self.seed = prop, tier, seed
        self.t0 = time.time()
        self.violations = []     # (kind, what, replay dict)
        self.known_hits = []
        self.cov = {"evaluations": 0, "distinct_nontrivial": 0, "samples": []}
        self.assumptions = []
        self.known = [k for k in load_known() if k.get("property") == prop and k.get("status", "open") == "open"]
        self._distinct = set()

    def count(self, key, n=1):
        self.cov[key] = self.cov.get(key, 0) + n

    def hist(self, table, key, n=1):
        if table in self.cov and not isinstance(self.cov[table], dict):
            table += "_table"          # the name is already used for a plain counter
        t = self.cov.setdefault(table, {})
        t[key] = t.get(key, 0) + n

    def case(self, fingerprint, nontrivial=True):
        self.cov["evaluations"] += 1
        if nontrivial:
            h = hashlib.sha1(repr(fingerprint).encode()).digest()[:8]
            if h not in self._distinct:
                self._distinct.add(h)
                self.cov["distinct_nontrivial"] += 1

    def sample(self, s, limit=6):
        if len(self.cov["samples"]) < limit:
            self.cov["samples"].append(s)

    def violation(self, kind, what, replay, found_input=True):
        """kind: 'impl' (implementation violates the property's own oracle) or
        'corr' (model and implementation disagree) or 'proof'."""
        for k in self.known:
            if known_matches(k, what, replay):
                if k["id"] not in [x["id"] for x in self.known_hits]:
                    self.known_hits.append(k)
                return False
        self.violations.append({"kind": kind, "what": what, "replay": replay,
                                "found_input": found_input})
        return True

    def finish(self, proof, level="proof", extra_cov=None, level_note=None):
        os.makedirs(EVIDENCE, exist_ok=True)
        os.makedirs(REPLAYS, exist_ok=True)
        if proof is not None and not proof["ok"]:
            self.violations.append({"kind": "proof", "what": "proof obligations not discharged: %s" % proof["problems"],
                                    "replay": {"theorem_module": "Pdlv.Thm.%s" % self.prop, "problems": proof["problems"]},
                                    "found_input": False})
        cov = dict(self.cov)
        if proof is not None:
            cov.update({"obligations": proof["obligations"], "discharged": proof["discharged"],
                        "checker_cmd": proof["checker_cmd"],
                        "theorems": proof["theorems"],
                        "trusted_base": [
                            "Lean 4.33.0 kernel",
                            "axioms per theorem as listed under coverage.theorems (subset of propext, Classical.choice, Quot.sound)",
                            "the hand-written Lean model and its correspondence check against /repo (this run)",
                        ]})
        if extra_cov:
            cov.update(extra_cov)
        ev = {"property_id": self.prop, "tier": self.tier, "seed": self.seed, "level": level,
              "coverage": cov, "assumptions": self.assumptions,
              "wall_s": round(time.time() - self.t0, 2), "violations": len(self.violations),
              "known_findings_reproduced": [k["id"] for k in self.known_hits]}
        if level_note:
            ev["level_note"] = level_note
        with open(os.path.join(EVIDENCE, self.prop + ".json"), "w") as f:
            json.dump(ev, f, indent=1, default=str)
        for k in self.known_hits:
            print("KNOWN-FINDING: property=%s %s" % (self.prop, k["what"]))
        for k in self.known:
            if k["id"] not in [x["id"] for x in self.known_hits]:
                print("note: known finding %s did not reproduce in this run" % k["id"])
        if not self.violations:
            print("OK property=%s tier=%s cases=%d wall=%.1fs" % (self.prop, self.tier, cov["evaluations"], ev["wall_s"]))
            return 0
        try:
            with open(os.path.join(CACHE, "violations_%s.json" % self.prop), "w") as f:
                json.dump([{"kind": v["kind"], "what": v["what"], "sig": (v["replay"] or {}).get("signature")}
                           for v in self.violations], f, indent=0, default=str)
        except Exception:
            pass
        try:
            exd = os.path.join(CACHE, "examples_%s" % self.prop)
            os.makedirs(exd, exist_ok=True)
            for f in os.listdir(exd):
                os.remove(os.path.join(exd, f))
            seen_sig = set()
            for v in self.violations:
                k = json.dumps((v["replay"] or {}).get("signature"), sort_keys=True, default=str) + v["kind"]
                if k in seen_sig or len(seen_sig) > 60:
                    continue
                seen_sig.add(k)
                with open(os.path.join(exd, "%03d.json" % len(seen_sig)), "w") as f:
                    json.dump(v, f, indent=1, default=str)
        except Exception:
            pass
        # first report violations with a failing input, then the rest
        self.violations.sort(key=lambda v: (not v["found_input"], v["kind"] != "impl"))
        seen = set()
        for v in self.violations[:10]:
            body = json.dumps(v, sort_keys=True, default=str)
            h = hashlib.sha1(body.encode()).hexdigest()[:10]
            if h in seen:
                continue
            seen.add(h)
            path = os.path.join(REPLAYS, "%s-%s.json" % (self.prop, h))
            v2 = dict(v)
            v2["property"] = self.prop
            v2["seed"] = self.seed
            v2["tier"] = self.tier
            v2["replay_cmd"] = "cd /verif && bin/check %s --replay %s" % (self.prop, path)
            with open(path, "w") as f:
                json.dump(v2, f, indent=1, default=str)
            tail = "" if v["found_input"] else " no-failing-input-found"
            print("VIOLATION property=%s replay=%s%s" % (self.prop, path, tail))
            log("  ", v["kind"], str(v["what"])[:300])
        return 1


def load_known():
    p = os.path.join(VERIF, "known_findings.json")
    if not os.path.exists(p):
        return []
    return json.load(open(p)).get("findings", [])


def known_matches(k, what, replay):
    """A violation is attributed to a known finding only when the finding's `match`
    dict is a sub-dict of the replay's `signature`."""
    sig = (replay or {}).get("signature")
    m = k.get("match")
    if not sig or not m:
        return False
    return all(sig.get(a) == b for a, b in m.items())


def std_args(argv):
    import argparse
    ap = argparse.ArgumentParser()
    ap.add_argument("--tier", default=os.environ.get("VERIF_TIER", "quick"))
    ap.add_argument("--replay", default=None)
    ap.add_argument("--seed", type=int, default=int(os.environ.get("VERIF_SEED", "20260923")))
    a = ap.parse_args(argv)
    if a.tier not in ("quick", "thorough"):
        a.tier = "quick"
    return a
