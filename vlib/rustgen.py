"""Assemble, build and drive the harness around pdlc-generated Rust (harness/rust-gen)."""
import hashlib
import json
import os
import shutil

from . import common as C

TEMPLATE = os.path.join(C.VERIF, "harness", "rust-gen")
TARGET = os.path.join(C.CACHE, "rustgen-target")


def backing(w):
    return 8 if w <= 8 else 16 if w <= 16 else 32 if w <= 32 else 64


def decl_index(file_json):
    return {d["id"]: d for d in file_json["declarations"] if "id" in d}


def ancestors(idx, d):
    out = []
    p = d.get("parent_id")
    seen = set()
    while p and p in idx and p not in seen:
        seen.add(p)
        out.append(idx[p])
        p = idx[p].get("parent_id")
    return out


def glue_for(i, file_json):
    idx = decl_index(file_json)
    m = "d%d" % i
    arms = []
    for d in file_json["declarations"]:
        k = d["kind"]
        name = d.get("id")
        if k in ("packet_declaration", "struct_declaration"):
            sub = []
            has_children = any(c.get("parent_id") == name for c in file_json["declarations"])
            if has_children:
                sub.append('"spec" => match from_json::<%s::%s>(arg) { Ok(v) => dec_result(v.specialize()), Err(e) => e },' % (m, name))
            for a in ancestors(idx, d):
                an = a["id"]
                sub.append('"to:%s" => match from_json::<%s::%s>(arg) { Ok(v) => { let r: Result<%s::%s, _> = %s::%s::try_from(&v); '
                           'match r { Ok(p) => json!({"r": "ok", "value": serde_json::to_value(&p).unwrap()}), Err(e) => json!({"r": "err", "e": variant(&e)}) } }, Err(e) => e },'
                           % (an, m, name, m, an, m, an))
                sub.append('"from:%s" => match from_json::<%s::%s>(arg) { Ok(v) => dec_result(%s::%s::try_from(&v)), Err(e) => e },'
                           % (an, m, an, m, name))
            sub.append("_ => packet_ops::<%s::%s>(op, arg)," % (m, name))
            arms.append('"%s" => match op { %s }' % (name, " ".join(sub)))
        elif k == "custom_field_declaration" and d.get("width") is not None:
            arms.append('"%s" => packet_ops::<%s::%s>(op, arg)' % (name, m, name))
        elif k == "enum_declaration":
            b = backing(d["width"])
            conv = ("{ let x: u64 = arg.trim().parse().unwrap(); if x > (u%d::MAX as u64) { json!({\"r\": \"toowide\"}) } else { "
                    "match %s::%s::try_from(x as u%d) { Ok(e) => json!({\"r\": \"ok\", \"dbg\": format!(\"{:?}\", e), \"into\": u64::from(e).to_string(), "
                    "\"back\": u%d::from(&e).to_string()}), Err(v) => json!({\"r\": \"err\", \"v\": (v as u64).to_string()}) } } }"
                    % (b, m, name, b, b))
            dflt = ("{ let e = %s::%s::default(); json!({\"r\": \"ok\", \"dbg\": format!(\"{:?}\", e), \"into\": u64::from(e).to_string()}) }" % (m, name))
            arms.append('"%s" => match op { "tryfrom" => %s, "default" => %s, _ => json!({"r": "badop"}) }' % (name, conv, dflt))
    return ("pub fn dispatch_%s(t: &str, op: &str, arg: &str) -> Value {\n    match t {\n        %s,\n        _ => json!({\"r\": \"badtype\"}),\n    }\n}\n"
            % (m, ",\n        ".join(arms) if arms else '"" => json!({"r":"badtype"})'))


def write_if_changed(path, content):
    if os.path.exists(path) and open(path).read() == content:
        return False
    with open(path, "w") as f:
        f.write(content)
    return True


class RustHarness:
    """descs: list of dict(analyzed=<file json>, rust=<text emitted by pdlc>)."""

    def __init__(self, name, descs, profile="dev"):
        # the crate is keyed by its content: checks that run at the same time with different corpora
        # never share a directory or a binary, checks with the same corpus share one build
        import hashlib
        h = hashlib.sha256()
        for d in descs:
            h.update(d["rust"].encode())
            h.update(b"\0")
            h.update(json.dumps(d["analyzed"], sort_keys=True).encode())
            h.update(b"\1")
        h.update(open(os.path.join(TEMPLATE, "src", "main.rs"), "rb").read())
        name = "%s-%s" % (name, h.hexdigest()[:10])
        self.name, self.descs, self.profile = name, descs, profile
        self.dir = os.path.join(C.CACHE, "rustgen", name)
        self.bin = os.path.join(TARGET, name, "release" if profile == "release" else "debug", "rust-gen")
        self.proc = None
        self.build_log = ""

    def assemble(self):
        os.makedirs(os.path.join(self.dir, "src", "gen"), exist_ok=True)
        os.makedirs(os.path.join(self.dir, ".cargo"), exist_ok=True)
        for rel in ("Cargo.toml", "Cargo.lock", ".cargo/config.toml", "src/main.rs"):
            src = os.path.join(TEMPLATE, rel)
            if rel == "Cargo.lock" and not os.path.exists(src):
                src = os.path.join(C.REPO, "Cargo.lock")
            txt = open(src).read()
            if rel == "Cargo.toml":
                txt = txt.replace("/repo/pdl-runtime", os.path.join(C.REPO, "pdl-runtime"))
            write_if_changed(os.path.join(self.dir, rel), txt)
        mods, glue, arms = [], [], []
        keep = {"mod.rs"}
        for i, d in enumerate(self.descs):
            write_if_changed(os.path.join(self.dir, "src", "gen", "d%d.rs" % i), d["rust"])
            keep.add("d%d.rs" % i)
            mods.append("pub mod d%d;" % i)
            glue.append(glue_for(i, d["analyzed"]))
            arms.append('"%d" => dispatch_d%d(t, op, arg),' % (i, i))
        modrs = ("#![allow(unused, non_camel_case_types, non_snake_case)]\nuse crate::*;\nuse serde_json::{json, Value};\n"
                 + "\n".join(mods) + "\n" + "\n".join(glue)
                 + "\npub fn dispatch(d: &str, t: &str, op: &str, arg: &str) -> Value {\n    match d {\n        "
                 + "\n        ".join(arms) + '\n        _ => json!({"r": "baddesc"}),\n    }\n}\n')
        write_if_changed(os.path.join(self.dir, "src", "gen", "mod.rs"), modrs)
        for f in os.listdir(os.path.join(self.dir, "src", "gen")):
            if f not in keep:
                os.remove(os.path.join(self.dir, "src", "gen", f))

    def build(self):
        self.assemble()
        env = dict(C.ENV)
        env["CARGO_TARGET_DIR"] = os.path.join(TARGET, self.name)
        cmd = ["cargo", "build", "--offline", "--message-format=short"]
        if self.profile == "release":
            cmd.append("--release")
        with C.Lock("rustgen-" + self.name):
            rc, out = C.run(cmd, cwd=self.dir, env=env, timeout=3600)
        self.build_log = out
        if rc == 0:
            self.prune()
        return rc == 0

    def prune(self, keep=10, min_age=3 * 3600):
        """drop the least recently used harness crates (and their build output) beyond `keep`,
        never one that was used in the last `min_age` seconds"""
        import shutil, time
        try:
            os.utime(self.dir, None)
            root = os.path.join(C.CACHE, "rustgen")
            names = sorted(os.listdir(root), key=lambda n: os.path.getmtime(os.path.join(root, n)), reverse=True)
            for n in names[keep:]:
                if time.time() - os.path.getmtime(os.path.join(root, n)) < min_age:
                    continue
                shutil.rmtree(os.path.join(root, n), ignore_errors=True)
                shutil.rmtree(os.path.join(TARGET, n), ignore_errors=True)
        except OSError:
            pass

    def start(self, timeout=10.0):
        self.proc = C.LineProc([self.bin], timeout=timeout)
        return self.proc

    def ask(self, d, t, op, arg, timeout=None):
        """Returns a dict; {"r":"abort"/"timeout", ...} when the harness process died."""
        if self.proc is None:
            self.start()
        if not isinstance(arg, str):
            arg = json.dumps(arg, separators=(",", ":"))
        raw = self.proc.ask_raw("%s %s %s %s" % (d, t, op, arg), timeout)
        if raw is None:
            why = self.proc.last_death or ""
            return {"r": "timeout" if str(why).startswith("timeout") else "abort", "m": why}
        try:
            return json.loads(raw)
        except Exception:
            return {"r": "garbled", "raw": raw[:300]}

    def close(self):
        if self.proc:
            self.proc.kill()
