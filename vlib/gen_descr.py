"""Grammar- and type-directed generator of well-formed PDL descriptions.

A description is a list of declarations rendered as PDL text.  Knobs (`Opts`) select the
constructs, so per-back-end classes are explicit:
  rust   : everything below
  python : no element-size fields, no custom fields
  java   : no optional fields, padding, element-size, custom fields
  cxx    : like java plus optional/padding where cxx.rs supports them (see Opts.for_backend)
"""
from . import gen_enum as GE

BYTE_WIDTHS = [8, 16, 24, 32, 40, 48, 56, 64]


class Opts:
    def __init__(self, **kw):
        self.optional = True
        self.padding = True
        self.elementsize = True
        self.custom = True
        self.inheritance = True
        self.groups = False           # groups are exercised by C09
        self.struct_arrays = True
        self.enum_arrays = True
        self.payload = True
        self.size_modifier = True     # payload size modifiers
        self.array_modifier = False   # `x: 8[+2]`: Rust ignores it (H7); only C03/C07 turn it on
        self.unknown_arrays = True
        self.max_depth = 2
        self.wide_size_fields = False  # 64-bit size fields crash the Rust generator (H15)
        self.roundtrippable = True     # keep every variable part delimited
        self.hazard_free = False       # avoid the constructs of the known decoder hazards
        self.copy_parents = True       # parents hold only Copy data fields (H26)
        self.greedy_structs = False    # structs never end with an undelimited array
        self.struct_payload = True     # structs may carry a size-delimited payload
        self.overlap_siblings = False  # siblings constraining different fields / a sole alias with children
        self.enum_first_value = False  # every enum starts with a value tag (C++ F1, Python empty IntEnum)
        self.one_closed_enum_per_decl = False
        self.no_body = False
        self.max_literal = None
        self.narrow_counts = False     # size/count fields below 24 bits (C++ F8)
        self.java_safe = False         # stay clear of the Java back end's known defects (see known_findings.json)
        self.__dict__.update(kw)

    @staticmethod
    def for_backend(b):
        if b == "python":
            return Opts(elementsize=False, custom=False)
        if b in ("java", "common"):
            return Opts(optional=False, padding=False, elementsize=False, custom=False)
        if b == "cxx":
            return Opts(optional=False, padding=True, elementsize=False, custom=False)
        return Opts()


class Gen:
    def __init__(self, rng, opts=None, prefix=""):
        self.rng = rng
        self.o = opts or Opts()
        self.decls = []          # PDL text of declarations in order
        self.enums = []          # (name, width, EnumSpec)
        self.structs = []        # (name, info) info: dict(static=bool, size=bytes or None, minlen)
        self.customs = []        # (name, width)
        self.packets = []        # names
        self.n = 0
        self.prefix = prefix
        self.features = set()

    def fresh(self, base):
        self.n += 1
        return "%s%s%d" % (self.prefix, base, self.n)

    # -- enums ------------------------------------------------------------
    def new_enum(self, width=None, closed=None):
        name = self.fresh("En")
        shape = {"width": width} if width else {}
        if closed is not None:
            shape["open"] = not closed
        if self.o.java_safe:
            shape["width"] = width if width in (8, 16) else self.rng.choice([8, 16]) if width is None else width
        for _ in range(40):
            spec = GE.gen_enum(self.rng, name, shape)
            if self.o.enum_first_value:
                vt = [t for t in spec.tags if t["kind"] == "value"]
                if not vt:
                    continue
                spec.tags.remove(vt[0])
                spec.tags.insert(0, vt[0])
            if self.o.max_literal is not None:
                mx = self.o.max_literal if not self.o.java_safe else (1 << (spec.width - 1)) - 1
                def ok(t):
                    if t["kind"] == "value":
                        return t["value"] <= mx
                    if t["kind"] == "range":
                        return t["hi"] <= mx and all(n["value"] <= mx for n in t["tags"])
                    return True
                if not all(ok(t) for t in spec.tags):
                    spec.tags = [t for t in spec.tags if ok(t)]
                    if not any(t["kind"] == "value" for t in spec.tags):
                        continue
                    if spec.tags[0]["kind"] != "value":
                        continue
            break
        # the default Rust value is the first tag: fine for all generated shapes
        self.enums.append((name, spec.width, spec))
        self.decls.append(spec.pdl())
        return name, spec

    def some_enum(self, width=None):
        c = [e for e in self.enums if width is None or e[1] == width]
        if c and self.rng.random() < 0.6:
            e = self.rng.choice(c)
            return e[0], e[2]
        return self.new_enum(width)

    def new_custom(self):
        name = self.fresh("Cf")
        w = self.rng.choice([8, 16, 24, 32, 40, 64])
        self.customs.append((name, w))
        self.decls.append('custom_field %s : %d "%s"\n' % (name, w, name.lower()))
        return name, w

    # -- field lists --------------------------------------------------------
    def split_bits(self, total, parts):
        cuts = sorted(self.rng.sample(range(1, total), parts - 1)) if parts > 1 else []
        out, prev = [], 0
        for c in cuts + [total]:
            out.append(c - prev)
            prev = c
        return out

    def filler_field(self, w, names):
        if self.o.java_safe and w in (24, 40, 48, 56):
            # R1: Utils.get24/40/48/56 are broken; never emit a field of exactly these widths
            a = self.rng.randint(1, 7)
            return self.filler_field(a, names) + ",\n  " + self.filler_field(w - a, names)
        r = self.rng.random()
        if r < 0.55 or w > 64:
            n = self.fresh("s")
            names.append(("scalar", n, w))
            return "%s: %d" % (n, w)
        if r < 0.7:
            self.features.add("reserved")
            return "_reserved_: %d" % w
        if r < 0.85 and not (self.o.java_safe and (w == 1 or w > 16)):
            self.features.add("fixed_scalar")
            v = self.rng.choice([0, 1, (1 << w) - 1, self.rng.randrange(1 << w)])
            if self.o.max_literal is not None:
                v = min(v, self.o.max_literal)
            return "_fixed_ = %s: %d" % (self.lit(v), w)
        if self.o.java_safe and w not in (8, 16):
            n = self.fresh("s")
            names.append(("scalar", n, w))
            return "%s: %d" % (n, w)
        if self.o.one_closed_enum_per_decl and any(k == "enum" for k, _, _ in names):
            n = self.fresh("s")
            names.append(("scalar", n, w))
            return "%s: %d" % (n, w)
        if r < 0.93 and w <= 64:
            en, spec = self.some_enum(w)
            n = self.fresh("e")
            names.append(("enum", n, en))
            self.features.add("enum_field")
            return "%s: %s" % (n, en)
        en, spec = self.some_enum(w)
        tags = [t for t in spec.tags if t["kind"] == "value"]   # E34: only top-level tags
        if not tags:
            n = self.fresh("s")
            names.append(("scalar", n, w))
            return "%s: %d" % (n, w)
        self.features.add("fixed_enum")
        return "_fixed_ = %s: %s" % (self.rng.choice(tags)["id"], en)

    def lit(self, v):
        return ("0x%x" % v) if self.rng.random() < 0.4 else str(v)

    def chunk(self, headers, names, total=None):
        """A byte-aligned group of bit-fields containing the given header fields
        (list of (text, width)) plus fillers."""
        need = sum(w for _, w in headers)
        if total is None:
            lo = max(8, (need + 7) // 8 * 8)
            choices = [t for t in (BYTE_WIDTHS if not self.o.java_safe else [8, 16]) if t >= lo]
            if not choices:
                raise ValueError("headers too wide")
            total = self.rng.choice(choices[:4])
        free = total - need
        # (H27, repaired by fix 570ca89 in /repo: a size/count field that is not first in its chunk and whose backing type
        #  equals the chunk type made the Rust encoder emit `.. as u16 << 7`.  Size/count headers used to be kept first;
        #  they are now placed anywhere in the chunk.)
        hs = list(headers)
        if sum(1 for h in hs if "_size_" in h[0] or "_count_" in h[0]) > 1:
            raise ValueError("two size/count headers in one chunk")
        fields = [h for h, _ in hs]
        fill = []
        if free > 0:
            k = self.rng.randint(1, min(3, free))
            for w in self.split_bits(free, k):
                fill.append(self.filler_field(w, names))
        self.rng.shuffle(fill)
        fields = fields + fill
        self.rng.shuffle(fields)
        return fields

    def size_width(self, maxw=None):
        c = [1, 2, 3, 4, 5, 7, 8, 8, 9, 12, 16, 16, 24, 32]
        if self.o.java_safe:
            c = [3, 4, 5, 7]      # R3: size/count fields are read as signed: keep them below 2^7
        if self.o.narrow_counts:
            c = [x for x in c if x < 24]
        if self.o.wide_size_fields:
            c += [63, 64]
        return self.rng.choice(c)

    def struct_for_array(self, depth, dynamic):
        """A struct usable as array element / typedef."""
        c = [s for s in self.structs if s[1]["static"] != dynamic and s[1]["minlen"] > 0]
        if c and self.rng.random() < 0.5:
            return self.rng.choice(c)
        return self.new_struct(depth, dynamic=dynamic)

    def gen_fields(self, depth, allow_payload, must_payload=False, tail_static=False, force=None):
        """Returns (list of field texts, info).  The last variable-size item may be
        undelimited only when nothing dynamic follows."""
        o, rng = self.o, self.rng
        names = []
        fields = []
        info = {"static": True, "minlen": 0, "payload": False}
        nitems = rng.randint(1, 4)
        items = []
        kinds = ["chunk", "chunk", "array", "array", "typedef", "optional", "custom"]
        for _ in range(nitems):
            items.append(rng.choice(kinds))
        if force:
            items = list(force) + items[:1]
        if must_payload or (allow_payload and o.payload and rng.random() < 0.5):
            pos = rng.randint(0, len(items))
            items.insert(pos, "payload")
        if o.java_safe:
            # the Java back end mishandles a second dynamically sized field in one declaration
            # (NegativeArraySizeException) and arrays next to payloads: at most one of them
            seen_dyn = False
            for k, it in enumerate(items):
                if it in ("array", "payload", "typedef"):
                    if seen_dyn:
                        items[k] = "chunk"
                    seen_dyn = True
        # only the last dynamic item may be undelimited
        last_var = max([i for i, k in enumerate(items) if k in ("array", "payload")] or [-1])
        if (not allow_payload or tail_static) and not o.greedy_structs:
            tail_static = True      # a struct: keep every array delimited
        for idx, kind in enumerate(items):
            is_last_var = idx == last_var and not tail_static
            after_static = all(k in ("chunk", "custom") for k in items[idx + 1:])
            if kind == "chunk":
                fields += self.chunk([], names)
                info["minlen"] += 1
            elif kind == "custom":
                if not o.custom:
                    fields += self.chunk([], names)
                    info["minlen"] += 1
                    continue
                cn, w = rng.choice(self.customs) if self.customs and rng.random() < 0.5 else self.new_custom()
                fields.append("%s: %s" % (self.fresh("c"), cn))
                self.features.add("custom")
                info["minlen"] += w // 8
            elif kind == "typedef":
                if depth <= 0 or (o.java_safe and "payload" in items):
                    fields += self.chunk([], names)
                    info["minlen"] += 1
                    continue
                dyn = rng.random() < 0.4
                sn, si = self.struct_for_array(depth - 1, dyn)
                fields.append("%s: %s" % (self.fresh("t"), sn))
                self.features.add("typedef_dynamic" if dyn else "typedef_static")
                info["static"] = info["static"] and si["static"]
                info["minlen"] += si["minlen"]
            elif kind == "optional":
                if not o.optional:
                    fields += self.chunk([], names)
                    info["minlen"] += 1
                    continue
                # a flag shared by one to four optional fields, any mix of condition values
                fl = self.fresh("f")
                nopt = rng.choice([1, 1, 2, 2, 3, 4])
                hdr = [("%s: 1" % fl, 1)]
                opts = []
                for _ in range(nopt):
                    val = rng.choice([0, 1])
                    r = rng.random()
                    on = self.fresh("o")
                    if r < 0.45:
                        opts.append("%s: %d if %s = %d" % (on, rng.choice(BYTE_WIDTHS), fl, val))
                        self.features.add("optional_scalar")
                    elif r < 0.7:
                        en, _ = self.some_enum(rng.choice([8, 16, 24, 32]))
                        opts.append("%s: %s if %s = %d" % (on, en, fl, val))
                        self.features.add("optional_enum")
                    elif depth > 0:
                        sn, si = self.struct_for_array(depth - 1, rng.random() < 0.3)
                        opts.append("%s: %s if %s = %d" % (on, sn, fl, val))
                        self.features.add("optional_struct")
                    else:
                        opts.append("%s: %d if %s = %d" % (on, rng.choice(BYTE_WIDTHS), fl, val))
                fields += self.chunk(hdr, names)
                if rng.random() < 0.3:
                    fields += self.chunk([], names)
                fields += opts
                info["static"] = False
                info["minlen"] += 1
            elif kind == "payload":
                self.features.add("payload")
                info["payload"] = True
                info["static"] = False
                use_body = rng.random() < 0.3 and not o.no_body
                pname = "_body_" if use_body else "_payload_"
                # an unsized payload must be followed by fields of static size only
                sized = rng.random() < 0.5 or not after_static or tail_static
                if sized:
                    w = self.size_width()
                    mod = ""
                    if o.size_modifier and not use_body and rng.random() < 0.3 and w >= 4:
                        m = rng.randint(1, min(5, (1 << w) - 1))
                        mod = ": [+%d]" % m
                        self.features.add("payload_modifier")
                    fields += self.chunk([("_size_(%s): %d" % (pname, w), w)], names)
                    fields.append(pname + mod)
                    self.features.add("payload_sized")
                    info["minlen"] += 1
                else:
                    fields.append(pname)
                    self.features.add("payload_last" if idx == len(items) - 1 else "payload_before_static")
            elif kind == "array":
                if o.java_safe and "payload" in items:
                    # C8: arrays of dynamic structs next to a payload do not compile
                    saved = o.struct_arrays
                    o.struct_arrays = False
                    self.gen_array(fields, names, info, depth, undelimited_ok=False)
                    o.struct_arrays = saved
                    continue
                self.gen_array(fields, names, info, depth, undelimited_ok=is_last_var and idx == len(items) - 1 and o.unknown_arrays,
                               )
        return fields, info

    def gen_array(self, fields, names, info, depth, undelimited_ok, cell=None):
        """cell: optional dict(elem=scalar8|scalar|enum|sstatic|sdyn|sesize, shape=static|count|size|unknown, pad=bool)"""
        o, rng = self.o, self.rng
        an = self.fresh("a")
        r = rng.random()
        if cell:
            r = {"scalar8": 0.0, "scalar": 0.0, "enum": 0.5, "sstatic": 0.9, "sdyn": 0.9, "sesize": 0.9}[cell["elem"]]
        elem_dynamic = False
        elem_static_bytes = None
        if r < 0.45 or depth <= 0 or not o.struct_arrays:
            w = 8 if (cell and cell["elem"] == "scalar8") else rng.choice((BYTE_WIDTHS[1:] if cell else BYTE_WIDTHS) if not o.java_safe else [16, 32, 64])
            elem = str(w)
            elem_static_bytes = w // 8
            self.features.add("array_scalar%d" % w)
            minlen_e = w // 8
        elif r < 0.6 and o.enum_arrays:
            w = rng.choice([8, 16, 24, 32, 64] if not o.java_safe else [8, 16])
            en, _ = self.some_enum(w)
            elem = en
            elem_static_bytes = w // 8
            self.features.add("array_enum")
            minlen_e = w // 8
        else:
            elem_dynamic = (cell["elem"] != "sstatic") if cell else rng.random() < 0.5
            sn, si = self.struct_for_array(depth - 1, elem_dynamic)
            elem = sn
            elem_dynamic = not si["static"]
            minlen_e = si["minlen"]
            self.features.add("array_struct_dynamic" if elem_dynamic else "array_struct_static")
        shapes = ["static", "count", "size"]
        if undelimited_ok:
            shapes.append("unknown")
        shape = cell["shape"] if cell else rng.choice(shapes)
        headers = []
        use_esize = elem_dynamic and o.elementsize and (cell["elem"] == "sesize" if cell else rng.random() < 0.5)
        if use_esize:
            w = rng.choice([4, 8, 8, 16])
            headers.append(("_elementsize_(%s): %d" % (an, w), w))
            self.features.add("elementsize")
        if shape == "count":
            w = self.size_width()
            headers.append(("_count_(%s): %d" % (an, w), w))
        elif shape == "size":
            w = self.size_width()
            headers.append(("_size_(%s): %d" % (an, w), w))
        if headers:
            fields += self.chunk(headers, names)
            info["minlen"] += 1
        mod = ""
        if shape == "static":
            n = rng.choice([1, 2, 3, 4])
            decl = "%s: %s[%d]" % (an, elem, n)
            info["minlen"] += n * minlen_e
            if elem_dynamic:
                info["static"] = False
        else:
            if o.array_modifier and shape == "size" and rng.random() < 0.5:
                mod = "+%d" % rng.randint(1, 3)
                self.features.add("array_modifier")
            decl = "%s: %s[%s]" % (an, elem, mod)
            info["static"] = False
        fields.append(decl)
        pad = ""
        if o.padding and (cell["pad"] if cell else rng.random() < 0.3) and (shape != "unknown" or not o.roundtrippable or cell):
            p = rng.choice([4, 8, 16, 33])
            if shape == "static" and elem_static_bytes:
                p = max(p, n * elem_static_bytes + rng.choice([0, 1, 5]))
            fields.append("_padding_[%d]" % p)
            pad = "_padded"
            info["minlen"] += p if shape != "static" else 0
        self.features.add("array_%s_%s%s%s" % ("dyn" if elem_dynamic and use_esize else "unk" if elem_dynamic else "sta",
                                               shape, pad, ""))

    # -- declarations ---------------------------------------------------------
    def new_struct(self, depth, dynamic=False):
        name = self.fresh("St")
        for _ in range(20):
            force = ["array"] if dynamic else None
            if dynamic and self.o.struct_payload and self.rng.random() < 0.35:
                # a struct with a size-delimited payload (dynamic, not greedy)
                fields, info = self.gen_fields(depth, allow_payload=True, must_payload=True, tail_static=True,
                                               force=["chunk"])
                self.features.add("struct_payload")
            else:
                fields, info = self.gen_fields(depth, allow_payload=False, force=force)
            if info["static"] != dynamic and info["minlen"] > 0:
                break
            if dynamic and info["static"]:
                continue
            if not dynamic and not info["static"]:
                # retry with chunk-only content
                fields, info = self.gen_fields(0, allow_payload=False, force=["chunk"])
                if info["static"]:
                    break
        self.decls.append("struct %s {\n  %s\n}\n" % (name, ",\n  ".join(fields)))
        entry = (name, info)
        self.structs.append(entry)
        return entry

    def new_packet(self, depth=None, children=0):
        depth = self.o.max_depth if depth is None else depth
        name = self.fresh("Pk")
        fields, info = self.gen_fields(depth, allow_payload=True, must_payload=children > 0)
        self.decls.append("packet %s {\n  %s\n}\n" % (name, ",\n  ".join(fields)))
        self.packets.append(name)
        return name

    def inheritance_tree(self, depth=2):
        """A root with constrainable scalar/enum fields and a payload, with children."""
        rng = self.rng
        root = self.fresh("Rt")
        en, spec = self.new_enum(rng.choice([3, 4, 8]) if not self.o.java_safe else 8, closed=rng.random() < 0.7)
        tags = [t for t in spec.tags if t["kind"] == "value"]
        k1, k2 = self.fresh("k"), self.fresh("k")
        w1 = rng.choice([3, 4, 8, 13]) if not self.o.java_safe else rng.choice([3, 4, 7])
        pad = (-(w1 + spec.width)) % 8
        hdr = ["%s: %d" % (k1, w1), "%s: %s" % (k2, en)]
        if pad:
            hdr.append("_reserved_: %d" % pad)
        rng.shuffle(hdr)
        sized = rng.random() < 0.6
        rf = list(hdr)
        if sized:
            w = rng.choice([8, 16])
            rf.append("_size_(_payload_): %d" % w)
        rf.append("_payload_")
        trailer = rng.random() < 0.3
        if trailer:
            rf.append("%s: 16" % self.fresh("crc"))
        self.decls.append("packet %s {\n  %s\n}\n" % (root, ",\n  ".join(rf)))
        self.packets.append(root)
        self.features.add("inherit_root_sized" if sized else "inherit_root_unsized")
        if trailer:
            self.features.add("inherit_trailer")

        def child(parent, level, used):
            # siblings constrain the same field with distinct values (two children that the
            # emitted `specialize` cannot tell apart make the Rust generator panic: C10);
            # at most one unconstrained child per parent
            free = [k for k in (k1, k2) if k not in used and (k != k2 or tags)]
            kf = rng.choice(free) if free else None
            taken = set()
            alias_used = False
            nkids = rng.randint(1, 3)
            sole_alias = self.o.overlap_siblings and rng.random() < 0.25
            if sole_alias:
                nkids = 1
            for ci in range(nkids):
                cn = self.fresh("Ch")
                cons = []
                if self.o.overlap_siblings and free:
                    # siblings may constrain different fields (their constraint sets can overlap:
                    # the emitted match is first-match, which the model reproduces)
                    kf = rng.choice(free)
                if sole_alias:
                    pass
                elif kf == k1:
                    v = rng.randrange(1 << w1)
                    if v not in taken:
                        taken.add(v)
                        cons.append((k1, "%s = %s" % (k1, self.lit(v))))
                elif kf == k2:
                    t = rng.choice(tags)["id"]
                    if t not in taken:
                        taken.add(t)
                        cons.append((k2, "%s = %s" % (k2, t)))
                if not cons:
                    if alias_used or self.o.java_safe:
                        continue
                    alias_used = True
                    self.features.add("inherit_alias")
                # an unconstrained child has no children of its own: its descendants' constraints
                # would overlap with its siblings' (semantically ambiguous description)
                want_payload = level < depth and rng.random() < 0.6 and (bool(cons) or sole_alias)
                if rng.random() < 0.3 and not want_payload:
                    nbytes = rng.choice([1, 2, 3, 4] if not self.o.java_safe else [1, 2, 4])
                    fs = ["%s: %d" % (self.fresh("s"), 8 * nbytes)]
                    self.features.add("inherit_const_size")
                elif want_payload and rng.random() < 0.3:
                    # a middle packet that adds no named field: a pure alias `{ _payload_ }`, or anonymous framing only
                    # (`_fixed_`, `_reserved_`, `_size_(_payload_)`) in front of its payload — back ends that skip
                    # "alias" children when they dispatch must still consume the framing octets
                    fs = []
                    if rng.random() < 0.65:
                        kinds = ["fixed", "reserved", "size"] if not self.o.java_safe else ["fixed", "reserved"]
                        rng.shuffle(kinds)
                        for kd in kinds[:rng.randint(1, len(kinds))]:
                            if kd == "fixed":
                                fs.append("_fixed_ = %s : 8" % self.lit(rng.randrange(256)))
                            elif kd == "reserved":
                                fs.append("_reserved_: 8")
                            else:
                                fs.append("_size_(_payload_): %d" % rng.choice([8, 16]))
                        self.features.add("inherit_framing_only")
                    else:
                        self.features.add("inherit_pure_alias")
                    fs = fs + ["_payload_"]
                elif want_payload and self.o.copy_parents:
                    # H26: a parent with non-Copy data fields makes the emitted
                    # `TryFrom<&Child> for Parent` move out of a borrow (rustc E0507)
                    fs = []
                    for _ in range(rng.randint(1, 2)):
                        fs += self.chunk([], [])
                    fs = fs + ["_payload_"]
                else:
                    fs, info = self.gen_fields(1, allow_payload=False)
                    if want_payload:
                        fs = fs + ["_payload_"]
                cstr = ("(%s)" % ", ".join(c for _, c in cons)) if cons else ""
                self.decls.append("packet %s : %s %s {\n  %s\n}\n" % (cn, parent, cstr, ",\n  ".join(fs)))
                self.packets.append(cn)
                self.features.add("inherit_depth%d" % level)
                if want_payload:
                    child(cn, level + 1, used | {k for k, _ in cons})
        child(root, 1, set())
        return root

    def text(self, endian):
        return "%s_endian_packets\n\n%s" % (endian, "\n".join(self.decls))


def stratified(rng, opts=None):
    """Small descriptions that together contain every array cell
    (element kind x shape x padding), every payload mode and optional kind the class allows."""
    o = opts or Opts()
    elems = ["scalar8", "scalar", "enum", "sstatic", "sdyn"] + (["sesize"] if o.elementsize else [])
    if not o.struct_arrays:
        elems = [e for e in elems if not e.startswith("s") or e.startswith("scalar")]
    if not o.enum_arrays:
        elems = [e for e in elems if e != "enum"]
    cells = []
    for el in elems:
        for sh in ("static", "count", "size", "unknown"):
            for pad in ((False, True) if o.padding else (False,)):
                cells.append({"elem": el, "shape": sh, "pad": pad})
    texts = []
    per = 8
    for k in range(0, len(cells), per):
        for attempt in range(20):
            g = Gen(rng, o, prefix="")
            try:
                for c in cells[k:k + per]:
                    names, fields = [], []
                    info = {"static": True, "minlen": 0, "payload": False}
                    if rng.random() < 0.5:
                        fields += g.chunk([], names)
                    g.gen_array(fields, names, info, 1, True, cell=c)
                    if c["shape"] != "unknown" and rng.random() < 0.5:
                        fields += g.chunk([], names)
                    name = g.fresh("Pa")
                    g.decls.append("packet %s {\n  %s\n}\n" % (name, ",\n  ".join(fields)))
                    g.packets.append(name)
            except ValueError:
                continue
            texts.append((g.text(rng.choice(["little", "big"])), g))
            break
    return texts


def generate(rng, opts=None, endian=None, n_packets=None, trees=None):
    """One description.  Returns (text, Gen)."""
    for attempt in range(50):
        g = Gen(rng, opts)
        try:
            for _ in range(n_packets if n_packets is not None else rng.randint(1, 3)):
                g.new_packet()
            nt = trees if trees is not None else (1 if (g.o.inheritance and rng.random() < 0.5) else 0)
            for _ in range(nt):
                g.inheritance_tree(rng.choice([1, 2, 2, 3]))
        except ValueError:
            continue
        e = endian or rng.choice(["little", "big"])
        return g.text(e), g
    raise RuntimeError("generator failed")


def interactions(rng):
    """Small descriptions aimed at interactions that random generation rarely reaches (each family was added
    after a seeded change slipped through): several condition flags in one bit-field group, each governing
    several optional fields; an unsized payload followed by static fields among them (padded) static arrays;
    children told apart only by their constant size below a parent that is itself derived.  Returns PDL texts
    (both byte orders are chosen at random); an independent PRNG stream, so the main corpus is unchanged."""
    out = []
    e = lambda: rng.choice(["little", "big"]) + "_endian_packets\n\n"
    W8 = [8, 16, 24, 32, 40, 64]

    # F1: k flags in one group
    for i in range(3):
        k = rng.choice([2, 2, 3])
        decls = ["struct Pt%d {\n  u: 8,\n  v: 16\n}\n" % i,
                 "enum Ek%d : 8 {\n  A = 1,\n  B = 2,\n  C = 0x10..0x1f,\n  Z = ..\n}\n" % i]
        pre = rng.choice([0, 1, 3, 5])
        hdr = (["p%d: %d" % (i, pre)] if pre else []) + ["f%d_%d: 1" % (i, j) for j in range(k)]
        used = pre + k
        fill = (-used) % 8 or (8 if rng.random() < 0.3 else 0)
        if fill:
            hdr.append(rng.choice(["_reserved_: %d" % fill, "q%d: %d" % (i, fill)]))
        rng.shuffle(hdr)
        opts = []
        for j in range(k):
            for n in range(rng.choice([1, 2, 2, 3])):
                val = rng.choice([0, 1])
                kind = rng.random()
                ty = ("%d" % rng.choice(W8)) if kind < 0.6 else ("Pt%d" % i if kind < 0.8 else "Ek%d" % i)
                opts.append("o%d_%d_%d: %s if f%d_%d = %d" % (i, j, n, ty, i, j, val))
        if rng.random() < 0.5:
            rng.shuffle(opts)
        tail = ["t%d: 8" % i] if rng.random() < 0.5 else []
        decls.append("packet Mf%d {\n  %s\n}\n" % (i, ",\n  ".join(hdr + opts + tail)))
        out.append(e() + "\n".join(decls))

    # F2: unsized payload / body, then static fields with (padded) static arrays
    for i in range(3):
        decls = ["struct El%d {\n  p: 8,\n  q: 8\n}\n" % i]
        head = rng.choice([["k%d: 8" % i], ["a%d: 4" % i, "b%d: 12" % i], []])
        pay = rng.choice(["_payload_", "_body_"])
        tail = []
        for n in range(rng.choice([1, 2, 3])):
            r = rng.random()
            if r < 0.3:
                tail.append("c%d_%d: %d" % (i, n, rng.choice([8, 16, 24])))
            else:
                cnt = rng.randint(1, 4)
                if r < 0.75:
                    w = rng.choice([8, 16, 24])
                    tail.append("x%d_%d: %d[%d]" % (i, n, w, cnt))
                    size = cnt * w // 8
                else:
                    tail.append("x%d_%d: El%d[%d]" % (i, n, i, cnt))
                    size = cnt * 2
                if rng.random() < 0.6:
                    tail.append("_padding_[%d]" % (size + rng.choice([0, 1, 3, 4])))
        decls.append("packet Pt%dk {\n  %s\n}\n" % (i, ",\n  ".join(head + [pay] + tail)))
        if head and head[0].startswith("k"):
            decls.append("packet Pt%dc : Pt%dk (k%d = %d) {\n  y: 8,\n  z: 8[]\n}\n" % (i, i, i, rng.randrange(256)))
        out.append(e() + "\n".join(decls))

    # F4: an unsized array in a padded slot, followed by static fields whose total is below / above the padding
    for i in range(3):
        decls = ["struct Ue%d {\n  p: 8,\n  q: 8\n}\n" % i]
        head = rng.choice([["h%d: 8" % i], []])
        ety = rng.choice(["8", "16", "Ue%d" % i])
        pad = rng.choice([2, 4, 6, 8])
        tail = []
        for n in range(rng.choice([1, 2, 3])):
            if rng.random() < 0.5:
                tail.append("c%d_%d: %d" % (i, n, rng.choice([8, 16, 32, 48])))
            else:
                tail.append("y%d_%d: 8[%d]" % (i, n, rng.choice([1, 3, 6, 9])))
        decls.append("packet Ua%d {\n  %s\n}\n" % (i, ",\n  ".join(head + ["x%d: %s[]" % (i, ety), "_padding_[%d]" % pad] + tail)))
        out.append(e() + "\n".join(decls))

    # F5: element-size fields too narrow for the (static) element size: every non-empty value must be a SizeOverflow
    for i in range(2):
        w = rng.choice([2, 3, 4, 5])
        esz = rng.choice([(1 << w), (1 << w) + 1, (1 << w) - 1, 2 * (1 << w)])
        decls = ["struct Rec%d {\n  body: 8[%d]\n}\n" % (i, esz)]
        other = 8 - w
        hdr = ["_elementsize_(r%d): %d" % (i, w), "fl%d: %d" % (i, other)]
        shape = rng.choice(["[]", "[2]"])
        pre = ["_count_(r%d): 8" % i] if shape == "[]" and rng.random() < 0.5 else []
        decls.append("packet Es%d {\n  %s\n}\n" % (i, ",\n  ".join(pre + hdr + ["r%d: Rec%d%s" % (i, i, shape)])))
        out.append(e() + "\n".join(decls))

    # F6: a size field over an array of enums or of constant-size structs whose element width in octets differs from the
    # width of the size field in octets (a seeded change computed the size as count * size-field width), alone in its
    # group and next to other fields
    for i in range(2):
        decls = []
        packets = []
        for j, (ew, sw) in enumerate(rng.sample([(8, 16), (16, 8), (24, 8), (16, 12), (32, 16), (24, 16), (16, 24), (8, 12)], 3)):
            en = "Ez%d_%d" % (i, j)
            top = (1 << ew) - 1
            decls.append("enum %s : %d {\n  A = 1,\n  B = 2,\n  C = %d,\n  R = 0x10..0x1f,\n  Z = ..\n}\n" % (en, ew, top))
            fill = (-sw) % 8
            hdr = ["_size_(x%d_%d): %d" % (i, j, sw)] + (["q%d_%d: %d" % (i, j, fill)] if fill else [])
            if rng.random() < 0.5:
                hdr.reverse()
            tail = ["t%d_%d: 8" % (i, j)] if rng.random() < 0.5 else []
            packets.append("packet Sz%d_%d {\n  %s\n}\n" % (i, j, ",\n  ".join(hdr + ["x%d_%d: %s[]" % (i, j, en)] + tail)))
        decls.append("struct Fx%d {\n  a: 8,\n  b: 16\n}\n" % i)
        packets.append("packet Sx%d {\n  _size_(y%d): %d,\n  y%d: Fx%d[]\n}\n" % (i, i, rng.choice([8, 16]), i, i))
        out.append(e() + "\n".join(decls + packets))

    # F3: size-only children below a derived parent with fields
    for i in range(3):
        decls = ["packet Rt%d {\n  k: 8,\n  %s_payload_\n}\n" % (i, rng.choice(["", "g: 8,\n  "]))]
        mids = []
        for m in range(rng.choice([1, 2])):
            mid = "Md%d_%d" % (i, m)
            mf = rng.choice([["f: 8"], ["f: 8", "h: 16"], ["f: 4", "h: 4"]])
            decls.append("packet %s : Rt%d (k = %d) {\n  %s,\n  _payload_\n}\n" % (mid, i, m + 1, ",\n  ".join(mf)))
            mids.append(mid)
            sizes = rng.sample([1, 2, 3, 4, 6], rng.choice([2, 3]))
            for n, sz in enumerate(sizes):
                if sz >= 3 and rng.random() < 0.5:
                    fs = ["u: 8", "w: %d" % (8 * (sz - 1))]
                else:
                    fs = ["u: %d" % (8 * sz)]
                decls.append("packet %s_S%d : %s {\n  %s\n}\n" % (mid, n, mid, ",\n  ".join(fs)))
            if rng.random() < 0.5:
                deep = "%s_D" % mid
                decls.append("packet %s : %s (f = %d) {\n  q: 8,\n  _payload_\n}\n" % (deep, mid, rng.randrange(1, 16)))
                for n, sz in enumerate(rng.sample([1, 2, 4], 2)):
                    decls.append("packet %s_S%d : %s {\n  v: %d\n}\n" % (deep, n, deep, 8 * sz))
        out.append(e() + "\n".join(decls))
    return out


class _Compose:
    """One packet assembled from two to four independently drawn 'atoms' (bit-field group, array of every element
    kind x shape x padding, typedef, optional group, payload, custom / element-size for the Rust class), with the
    atoms' size / count / flag headers either next to them or hoisted to the front, optionally split over a parent
    and a child.  Fewer built-in restrictions than `Gen.gen_fields`: the point is construct INTERACTIONS."""

    def __init__(self, rng, rust_only=True):
        self.rng, self.rust_only = rng, rust_only
        self.n = 0
        self.decls = []

    def fresh(self, p):
        self.n += 1
        return "%s%d" % (p, self.n)

    def static_struct(self):
        nm = self.fresh("Ss")
        k = self.rng.choice([1, 2, 3])
        fs = ["%s: 8" % self.fresh("m") for _ in range(k)]
        if self.rng.random() < 0.3:
            fs[0] = "_fixed_ = %d: 8" % self.rng.randrange(256)
        self.decls.append("struct %s {\n  %s\n}\n" % (nm, ",\n  ".join(fs)))
        return nm, k

    def dynamic_struct(self):
        nm = self.fresh("Sd")
        a = self.fresh("m")
        self.decls.append("struct %s {\n  _count_(%s): 8,\n  %s: 8[]\n}\n" % (nm, a, a))
        return nm

    def enum(self, w):
        nm = self.fresh("En")
        mx = (1 << w) - 1
        kind = self.rng.choice(["closed", "open", "ranges"])
        tags = ["A = 0", "B = %d" % min(3, mx)]
        if kind == "open":
            tags.append("Z = ..")
        if kind == "ranges" and mx >= 9:
            tags.append("R = 5..9")
        self.decls.append("enum %s : %d {\n  %s\n}\n" % (nm, w, ",\n  ".join(tags)))
        return nm

    def chunk(self, hdr):
        """hdr: list of (text, width); pads to a byte boundary with scalars / reserved / fixed"""
        used = sum(w for _, w in hdr)
        out = [t for t, _ in hdr]
        free = (-used) % 8
        if free == 0 and (not hdr or self.rng.random() < 0.3):
            free = 8
        while free > 0:
            w = self.rng.randint(1, free)
            r = self.rng.random()
            if r < 0.6:
                out.append("%s: %d" % (self.fresh("s"), w))
            elif r < 0.8:
                out.append("_reserved_: %d" % w)
            else:
                out.append("_fixed_ = %d: %d" % (self.rng.randrange(1 << w), w))
            free -= w
        if not any("_size_" in t or "_count_" in t for t in out):
            self.rng.shuffle(out)
        return out

    def atom(self, kind):
        """-> dict(hdr=[(text, width)], fields=[...], static=bool, greedy=bool, payload=bool)"""
        rng = self.rng
        if kind == "chunk":
            hdr = []
            if rng.random() < 0.4:
                w = rng.choice([8, 16])
                hdr.append(("%s: %s" % (self.fresh("e"), self.enum(w)), w))
            return dict(hdr=[], fields=self.chunk(hdr), static=True, greedy=False, payload=False)
        if kind == "array":
            el = rng.choice(["8", "16", "24", "enum8", "enum16", "sstruct", "dstruct"])
            shape = rng.choice(["static", "count", "size", "unknown"])
            x = self.fresh("x")
            esize = None
            if el in ("8", "16", "24"):
                ety, esize = el, int(el) // 8
            elif el.startswith("enum"):
                ety, esize = self.enum(int(el[4:])), int(el[4:]) // 8
            elif el == "sstruct":
                ety, esize = self.static_struct()
            else:
                ety = self.dynamic_struct()
            hdr, cnt = [], rng.randint(1, 3)
            if shape == "count":
                hdr.append(("_count_(%s): %d" % (x, rng.choice([3, 8, 8, 12, 16])), 0))
            elif shape == "size":
                hdr.append(("_size_(%s): %d" % (x, rng.choice([4, 8, 8, 16])), 0))
            hdr = [(t, int(t.split(":")[1])) for t, _ in hdr]
            fields = ["%s: %s[%s]" % (x, ety, cnt if shape == "static" else "")]
            pad = rng.random() < 0.35
            if pad:
                base = (esize or 3) * (cnt if shape == "static" else 2)
                fields.append("_padding_[%d]" % (base + rng.choice([0, 1, 2, 5])))
            static = pad or (shape == "static" and esize is not None)
            greedy = shape == "unknown" and not pad
            return dict(hdr=hdr, fields=fields, static=static, greedy=greedy, payload=False)
        if kind == "typedef":
            if rng.random() < 0.5:
                nm, _ = self.static_struct()
                return dict(hdr=[], fields=["%s: %s" % (self.fresh("t"), nm)], static=True, greedy=False, payload=False)
            return dict(hdr=[], fields=["%s: %s" % (self.fresh("t"), self.dynamic_struct())], static=False, greedy=False, payload=False)
        if kind == "optional":
            k = rng.choice([1, 1, 2])
            hdr, fields = [], []
            for _ in range(k):
                fl = self.fresh("f")
                hdr.append(("%s: 1" % fl, 1))
                for _ in range(rng.choice([1, 2])):
                    r = rng.random()
                    ty = str(rng.choice([8, 16, 32])) if r < 0.5 else (self.enum(8) if r < 0.75 else self.static_struct()[0])
                    fields.append("%s: %s if %s = %d" % (self.fresh("o"), ty, fl, rng.choice([0, 1])))
            return dict(hdr=hdr, fields=fields, static=False, greedy=False, payload=False)
        if kind == "payload":
            if rng.random() < 0.5:
                w = rng.choice([8, 16])
                mod = rng.random() < 0.3
                return dict(hdr=[("_size_(_payload_): %d" % w, w)], fields=["_payload_" + (": [+%d]" % rng.randint(1, 3) if mod else "")],
                            static=False, greedy=False, payload=True)
            return dict(hdr=[], fields=[rng.choice(["_payload_", "_body_"])], static=False, greedy=True, payload=True)
        raise ValueError(kind)

    def build(self):
        rng = self.rng
        kinds = ["chunk", "array", "array", "typedef", "optional", "payload"]
        atoms = [self.atom(rng.choice(kinds)) for _ in range(rng.randint(2, 4))]
        # at most one payload, at most one greedy atom, only static atoms after the greedy one
        seen_pay, out = False, []
        for a in atoms:
            if a["payload"]:
                if seen_pay:
                    continue
                seen_pay = True
            out.append(a)
        atoms = out
        g = [i for i, a in enumerate(atoms) if a["greedy"]]
        if g:
            first = g[0]
            atoms = [a for i, a in enumerate(atoms) if i <= first or (a["static"] and not a["greedy"] and not a["payload"])]
        hoist = rng.random() < 0.4
        fields, front = [], []
        for a in atoms:
            if a["hdr"]:
                if hoist:
                    front += a["hdr"]
                else:
                    for h in a["hdr"]:
                        fields += self.chunk([h]) if ("_size_" in h[0] or "_count_" in h[0]) else []
                    rest = [h for h in a["hdr"] if not ("_size_" in h[0] or "_count_" in h[0])]
                    if rest:
                        fields += self.chunk(rest)
            fields += a["fields"]
        if front:
            sc = [h for h in front if "_size_" in h[0] or "_count_" in h[0]]
            fl = [h for h in front if h not in sc]
            pre = []
            for h in sc:
                pre += self.chunk([h])
            if fl:
                pre += self.chunk(fl)
            fields = pre + fields
        name = self.fresh("Cp")
        pay_idx = [i for i, f in enumerate(fields) if f.startswith("_payload_") or f == "_body_"]
        if pay_idx and rng.random() < 0.5:
            # split: the parent keeps everything, a child fills the payload under a constraint on a fresh key field
            key = self.fresh("k")
            self.decls.append("packet %s {\n  %s\n}\n" % (name, ",\n  ".join(["%s: 8" % key] + fields)))
            kid = _Compose(rng, self.rust_only)
            kid.n = self.n + 100
            ka = [kid.atom(rng.choice(["chunk", "array", "typedef"])) for _ in range(rng.randint(1, 2))]
            kf = []
            for a in ka:
                for h in a["hdr"]:
                    kf += kid.chunk([h])
                kf += a["fields"]
                if a["greedy"]:
                    break
            self.decls += kid.decls
            self.decls.append("packet %s : %s (%s = %d) {\n  %s\n}\n" % (self.fresh("Ck"), name, key, rng.randrange(256), ",\n  ".join(kf)))
        else:
            self.decls.append("packet %s {\n  %s\n}\n" % (name, ",\n  ".join(fields)))
        return self


def composed(rng, n):
    """n descriptions, each one composed packet (see `_Compose`), random byte order"""
    out = []
    for _ in range(n):
        c = _Compose(rng).build()
        out.append(rng.choice(["little", "big"]) + "_endian_packets\n\n" + "\n".join(c.decls))
    return out


def framed(rng, java_safe=False):
    """Three-level hierarchies whose MIDDLE packet adds no named field: a pure alias `{ _payload_ }`, or anonymous
    framing only (`_fixed_`, `_reserved_`, `_size_(_payload_)`) in front of its payload, with one or two grandchildren.
    A back end that skips "alias" children when it dispatches must still consume the framing octets.  Returns PDL texts."""
    out = []
    framings = [[], ["_fixed_ = 0x7e : 8"], ["_reserved_ : 8"], ["_fixed_ = 0x5a : 8", "_reserved_ : 8"]]
    if not java_safe:
        framings += [["_size_(_payload_) : 8"], ["_fixed_ = 1 : 4", "_reserved_ : 4", "_size_(_payload_) : 16"]]
    for n, fr in enumerate(framings):
        endian = "little" if (n + rng.randrange(2)) % 2 == 0 else "big"
        sized = rng.random() < 0.5 and not java_safe
        root = ["kind : 8"] + (["_size_(_payload_) : 8"] if sized else []) + ["_payload_"]
        mid = fr + ["_payload_"]
        g1 = ["level : 8", "text : 8[]"] if not java_safe else ["level : 8", "code : 16"]
        g2 = ["code : 16"]
        t = "%s_endian_packets\n\n" % endian
        t += "packet Tr%d {\n  %s\n}\n" % (n, ",\n  ".join(root))
        t += "packet Mid%d : Tr%d (kind = %d) {\n  %s\n}\n" % (n, n, n + 1, ",\n  ".join(mid))
        t += "packet Ga%d : Mid%d {\n  %s\n}\n" % (n, n, ",\n  ".join(g1))
        if rng.random() < 0.5:
            # a second family under the same root, told apart by the root's key
            t += "packet Oth%d : Tr%d (kind = %d) {\n  %s\n}\n" % (n, n, n + 40, ",\n  ".join(g2))
        out.append(t)
    return out


def optional_in_sized(rng, rust_only=True):
    """Optional fields (scalar, enum, struct of static and of dynamic size) inside a container whose octet size is
    written to a size field by the encoder: a child carried in a parent's `_size_(_payload_)` payload, a struct
    element of an array delimited by `_size_` (or, Rust class only, `_elementsize_`).  The encoded length of the
    optional field then feeds a size field.  Returns PDL texts."""
    out = []
    for i in range(3):
        endian = rng.choice(["little", "big"])
        decls = ["struct In%d {\n  u: 8,\n  v: 16\n}\n" % i,
                 "struct Dy%d {\n  _count_(w): 8,\n  w: 8[]\n}\n" % i,
                 "enum Eo%d : %d {\n  A = 1,\n  B = 0x20,\n  Z = ..\n}\n" % (i, [24, 40, 16, 56, 48, 8][(i + rng.randrange(2)) % 6])]
        kinds = ["In%d" % i, "Dy%d" % i, "Eo%d" % i, "%d" % rng.choice([8, 24, 32])]
        rng.shuffle(kinds)
        def opt_fields(tag, n):
            flags = ["%sc%d: 1" % (tag, j) for j in range(n)] + ["_reserved_: %d" % (8 - n)]
            opts = ["%so%d: %s if %sc%d = %d" % (tag, j, kinds[j % len(kinds)], tag, j, rng.choice([0, 1])) for j in range(n)]
            return flags + opts
        # (a) a child in a sized parent payload
        sw = rng.choice([8, 16])
        decls.append("packet Sp%d {\n  k: 8,\n  _size_(_payload_): %d,\n  _payload_%s\n}\n" %
                     (i, sw, rng.choice(["", ",\n  crc: 16"])))
        decls.append("packet Sc%d : Sp%d (k = %d) {\n  %s,\n  t: 8\n}\n" % (i, i, i + 1, ",\n  ".join(opt_fields("a", rng.choice([1, 2, 3])))))
        # (b) struct elements of a size-delimited array
        decls.append("struct Se%d {\n  %s\n}\n" % (i, ",\n  ".join(opt_fields("b", rng.choice([2, 3, 4])))))
        decls.append("packet Sa%d {\n  _size_(x): %d,\n  x: Se%d[],\n  z: 8\n}\n" % (i, rng.choice([8, 16]), i))
        if rust_only and rng.random() < 0.7:
            decls.append("packet Sx%d {\n  _count_(y): 4,\n  _elementsize_(y): 4,\n  y: Se%d[]\n}\n" % (i, i))
        out.append("%s_endian_packets\n\n%s" % (endian, "\n".join(decls)))
    return out


def degenerate(rng):
    """Well-formed descriptions around a type of size ZERO (an empty struct): as a field, as the element of arrays of
    every shape, with and without `_padding_`, optional, inside a child.  Sizes of 0 are where divisions, remainders and
    `chunks(n)` of the analyzer and the generators go wrong.  Returns PDL texts."""
    out = []
    for i in range(2):
        endian = rng.choice(["little", "big"])
        decls = ["struct Zs%d {\n}\n" % i]
        fs = []
        shapes = ["[3]", "[]c", "[]s", "[]"]
        rng.shuffle(shapes)
        for n, sh in enumerate(shapes[:rng.choice([2, 3])]):
            nm = "z%d_%d" % (i, n)
            if sh == "[]c":
                fs.append("_count_(%s): 8" % nm)
            if sh == "[]s":
                fs.append("_size_(%s): 8" % nm)
            fs.append("%s: Zs%d%s" % (nm, i, "[3]" if sh == "[3]" else "[]"))
            if rng.random() < 0.6 and sh != "[]":
                fs.append("_padding_[%d]" % rng.choice([1, 4, 8]))
            if sh == "[]":
                break
        head = ["t%d: 8" % i] if rng.random() < 0.7 else []
        decls.append("packet Zp%d {\n  %s\n}\n" % (i, ",\n  ".join(head + fs)))
        decls.append("packet Zt%d {\n  a: 8,\n  m: Zs%d,\n  b: 8\n}\n" % (i, i))
        out.append("%s_endian_packets\n\n%s" % (endian, "\n".join(decls)))
    return out


def sized_body(rng, with_children=True):
    """`_body_` delimited by `_size_(_body_)` (the other spelling of a sized payload): alone, followed by static fields,
    with a size modifier on the size-field side only via `_payload_`, and with children.  Returns PDL texts."""
    out = []
    for i in range(2):
        endian = rng.choice(["little", "big"])
        w = rng.choice([8, 16])
        tail = rng.choice([[], ["crc%d: 16" % i], ["t%d: 8" % i, "u%d: 8[2]" % i]])
        head = rng.choice([["k%d: 8" % i], ["k%d: 4" % i, "f%d: 4" % i]])
        decls = ["packet Sb%d {\n  %s\n}\n" % (i, ",\n  ".join(head + ["_size_(_body_): %d" % w, "_body_"] + tail))]
        if with_children:
            decls.append("packet Sb%dc : Sb%d (k%d = %d) {\n  x: 8,\n  y: 16[]\n}\n" % (i, i, i, rng.randrange(1, 16)))
        decls.append("packet Sp%db {\n  _size_(_payload_): %d,\n  n%d: 8,\n  _payload_%s\n}\n" %
                     (i, w, i, rng.choice(["", " : [+1]", " : [+2]"])))
        out.append("%s_endian_packets\n\n%s" % (endian, "\n".join(decls)))
    return out


def nested_sized_payload(rng):
    """Hierarchies in which a CHILD has a size-delimited payload of its own, with a size modifier that differs from the
    one of its ancestor's payload (or where only one of them has a modifier): each `_size_(_payload_)` field must be
    written and read with the modifier of the payload of ITS OWN declaration.  Returns PDL texts."""
    out = []
    for i, (m0, m1) in enumerate([(None, 2), (3, None), (1, 2)]):
        endian = rng.choice(["little", "big"])
        pm = lambda m: (" : [+%d]" % m) if m else ""
        w0, w1 = rng.choice([8, 16]), rng.choice([8, 16])
        t = "%s_endian_packets\n\n" % endian
        t += "packet Fr%d {\n  kind : 8,\n  _size_(_payload_) : %d,\n  _payload_%s\n}\n" % (i, w0, pm(m0))
        t += "packet Sg%d : Fr%d (kind = %d) {\n  seq : 8,\n  _size_(_payload_) : %d,\n  _payload_%s\n}\n" % (i, i, i + 1, w1, pm(m1))
        t += "packet Lf%d : Sg%d {\n  x : 8,\n  y : 8[]\n}\n" % (i, i)
        if rng.random() < 0.5:
            t += "packet Pg%d : Fr%d (kind = %d) {\n  z : 16\n}\n" % (i, i, i + 9)
        out.append(t)
    return out


def bitfield_packets(rng, n):
    """Packets made of bit-fields only (scalars, fixed values, reserved bits), in groups of every width from 8 to 64
    bits with fields at every offset — the shapes on which a back end's shift / mask / cast arithmetic is decided.
    Returns PDL texts (one packet each, both byte orders)."""
    out = []
    for i in range(n):
        endian = rng.choice(["little", "big"])
        fields, k = [], 0
        for g in range(rng.randint(1, 3)):
            total = 8 * rng.choice([1, 2, 3, 4, 4, 5, 6, 7, 8, 8])
            left = total
            while left > 0:
                w = rng.choice([1, 2, 3, 4, 5, 7, 8, 9, 11, 16, 24, 29, 31, 32, 33, 40, 48, 56, 63, 64, left, left])
                w = max(1, min(w, left))
                r = rng.random()
                if r < 0.12:
                    fields.append("_reserved_ : %d" % w)
                elif r < 0.25 and w <= 31:
                    fields.append("_fixed_ = %d : %d" % (rng.randrange(1 << min(w, 30)), w))
                else:
                    fields.append("f%d : %d" % (k, w))
                    k += 1
                left -= w
        out.append("%s_endian_packets\n\npacket Bf%d {\n  %s\n}\n" % (endian, i, ",\n  ".join(fields)))
    return out


def wide(rng, n=3):
    """Bit-field groups and array elements wider than 32 bits (40 / 48 / 56 / 64), with fields that straddle bits
    31 / 32 and 8-bit boundaries, scalars and enums; both byte orders.  The main generator prefers the four
    narrowest group widths, so these are rare there."""
    out = []
    for i in range(n):
        e = rng.choice(["little", "big"]) + "_endian_packets\n\n"
        decls = ["enum Ew%d : %d {\n  A = 0,\n  B = 1,\n  Z = ..\n}\n" % (i, rng.choice([33, 40, 48]))]
        packets = []
        for k in range(3):
            total = rng.choice([40, 48, 56, 64])
            cuts = sorted(rng.sample(range(1, total), rng.choice([1, 2, 3])))
            ws, prev = [], 0
            for c in cuts + [total]:
                ws.append(c - prev)
                prev = c
            fs = []
            for j, w in enumerate(ws):
                r = rng.random()
                if r < 0.7:
                    fs.append("w%d_%d_%d: %d" % (i, k, j, w))
                elif r < 0.85:
                    fs.append("_reserved_: %d" % w)
                else:
                    fs.append("_fixed_ = %d: %d" % (rng.randrange(1 << w), w))
            tail = rng.choice([[], ["t%d_%d: 8" % (i, k)], ["x%d_%d: %d[]" % (i, k, rng.choice([40, 48, 56, 64]))],
                               ["y%d_%d: %d[2]" % (i, k, rng.choice([40, 64]))]])
            packets.append("packet Wd%d_%d {\n  %s\n}\n" % (i, k, ",\n  ".join(fs + tail)))
        packets.append("packet We%d {\n  e: Ew%d,\n  %s\n}\n" % (i, i, "r: %d" % ((-int(decls[0].split(": ")[1].split(" ")[0])) % 8 or 8)))
        out.append(e + "\n".join(decls + packets))
    return out


def recursive_descriptions(rng):
    """Legal recursion: a cycle of declarations is allowed when it goes through an array without static
    size (nested TLV patterns).  Returned in one declaration order; the check permutes them."""
    out = []
    e = lambda: rng.choice(["little", "big"]) + "_endian_packets\n"
    out.append(e() + "struct Container { _count_(records): 8, records: Record[] }\n\nstruct Record { tag: 8, inner: Container }\n")
    out.append(e() + "struct Tlv { t: 8, _size_(v): 8, v: Tlv[] }\n\npacket Top { _size_(items): 16, items: Tlv[], crc: 8 }\n")
    out.append(e() + "struct A { x: 8, _count_(bs): 8, bs: B[] }\n\nstruct B { y: 16, c: C }\n\nstruct C { z: 8, _size_(as): 8, as: A[] }\n")
    out.append(e() + "struct Node { v: 8, _count_(kids): 8, kids: Node[] }\n\nstruct Wrap { n: Node, _size_(more): 8, more: Node[] }\n\npacket P { w: Wrap }\n")
    k = rng.randint(2, 4)
    names = ["R%d" % i for i in range(k)]
    decls = []
    for i, nme in enumerate(names):
        nxt = names[(i + 1) % k]
        if i == 0:
            decls.append("struct %s { t%d: 8, _count_(n%d): 8, n%d: %s[] }" % (nme, i, i, i, nxt))
        else:
            decls.append("struct %s { t%d: 8, n%d: %s }" % (nme, i, i, nxt))
    rng.shuffle(decls)
    out.append(e() + "\n\n".join(decls) + "\n")
    return out


def nested_sized_mid(rng):
    """Three levels in which the MIDDLE packet has a size-delimited payload of its own and no other dynamic field, with
    constrained leaves of static size below it and an unsized or sized payload above it: octets left over behind the
    middle packet's payload (an inner size that is too small, an octet appended) must be rejected at that level.
    Widths and values stay within what every back end's class allows (sizes below 2^7).  Returns PDL texts."""
    out = []
    for i in range(3):
        endian = rng.choice(["little", "big"])
        top_sized = i == 1
        t = "%s_endian_packets\n\n" % endian
        t += "packet Tp%d {\n  kind : 8,\n  flags : 8,\n  %s_payload_\n}\n" % (i, "_size_(_payload_) : 8,\n  " if top_sized else "")
        k = rng.randrange(1, 100)
        t += "packet Md%d : Tp%d (kind = %d) {\n  m : 8,\n  _size_(_payload_) : 8,\n  _payload_\n}\n" % (i, i, k)
        t += "packet Lx%d : Md%d (m = 1) {\n  x : 16\n}\n" % (i, i)
        t += "packet Ly%d : Md%d (m = 2) {\n  y : 8,\n  z : 8\n}\n" % (i, i)
        if i == 2:
            t += "packet Lz%d : Md%d (m = 3) {\n  w : 8[3]\n}\n" % (i, i)
        t += "packet Ot%d : Tp%d (kind = %d) {\n  v : 16\n}\n" % (i, i, k + 1)
        out.append(t)
    return out
